#!/usr/bin/env python3
"""seed_prompts.py <round> <id>...: create worktrees /tmp/wt<N>_<id> of /repo HEAD and prompts /tmp/seed_out<N>/<id>/prompt.txt for the
seeding sub-agents (each gets the property text and its worktree only).  The template is the round-8 prompt with the list of known ideas
extended by /verif/seeded/known_ideas.txt."""
import json, os, re, subprocess, sys
N, ids = sys.argv[1], sys.argv[2:]
props = {json.loads(l)['id']: json.loads(l) for l in open('/verif/properties.jsonl')}
tmpl = open('/verif/seeded/prompt_template.txt').read()
ideas = ' '.join(l.strip() for l in open('/verif/seeded/known_ideas.txt') if l.strip())
for i in ids:
    wt, out = f'/tmp/wt{N}_{i}', f'/tmp/seed_out{N}/{i}'
    os.makedirs(out, exist_ok=True)
    if not os.path.exists(wt):
        subprocess.run(['git', '-C', '/repo', 'worktree', 'add', '--detach', wt, 'HEAD'], check=True, capture_output=True)
    p = props[i]
    txt = tmpl.replace('@WT@', wt).replace('@OUT@', out).replace('@ID@', i).replace('@TITLE@', p['title']) \
        .replace('@STATEMENT@', p['statement']).replace('@QUANT@', p['quantifier']['text']).replace('@IDEAS@', ideas)
    open(f'{out}/prompt.txt', 'w').write(txt)
    print(out + '/prompt.txt')
