#!/bin/bash
# refac_run.sh: semantics-preserving refactorings (seeded/refactorings2/r*.diff) must never give a VIOLATION; UNDECIDED is reported
declare -A MAP=( [r01]="C06" [r02]="C05" [r03]="C04" [r04]="C04 C06" [r05]="C03 C01" [r06]="C01 C05 C14" [r07]="C01 C02" [r08]="C19" [r09]="C12 C11" [r10]="C18 C03" [r11]="C12" [r12]="C20" )
for r in r01 r02 r03 r04 r05 r06 r07 r08 r09 r10 r11 r12; do
  S=$(mktemp -d /tmp/refrun.XXXX); cp -r /repo/src $S/src
  (cd $S && patch -s -p1 < /verif/seeded/refactorings2/$r.diff) || { echo "$r: patch failed"; rm -rf $S; continue; }
  for pid in ${MAP[$r]}; do
    out=$(cd /verif && PYVC_REPO_SRC=$S/src PYVC_EVIDENCE_DIR=$S/ev ./check $pid 2>&1); rc=$?
    echo "$r $pid exit=$rc $(echo "$out" | grep -E "VIOLATION|UNDECIDED|CHECKER-ERROR" | cut -c1-170 | head -3 | tr '\n' ' ')"
  done
  rm -rf $S
done
