#!/usr/bin/env python3
"""validate evidence/*.json and MANIFEST.json against the given schemas; check evidence seed/tier and the obligations count"""
import glob, json, sys
import jsonschema
es = json.load(open('/root/.vp/EVIDENCE.schema.json'))
ms = json.load(open('/root/.vp/MANIFEST.schema.json'))
bad = 0
for p in sorted(glob.glob('/verif/evidence/C*.json')):
    d = json.load(open(p))
    try:
        jsonschema.validate(d, es)
    except jsonschema.ValidationError as e:
        bad += 1
        print(p, 'INVALID', e.message[:200])
    print(p.split('/')[-1], 'seed', d.get('seed'), 'tier', d.get('tier'), 'violations', d.get('violations'))
jsonschema.validate(json.load(open('/verif/MANIFEST.json')), ms)
print('manifest ok; evidence invalid:', bad)
sys.exit(1 if bad else 0)
