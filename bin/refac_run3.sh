#!/bin/bash
# refac_run3.sh [test]: third set of semantics-preserving refactorings (seeded/refactorings3/r*.diff, aimed at the block contract, the frame
# obligations of C06 / C16, the quantifier-aware clauses): with `test` the repository suite is run on each; otherwise the checks named in
# r*.txt are run on a scratch copy -- none may give a VIOLATION
for d in /verif/seeded/refactorings3/r*.diff; do
  r=$(basename $d .diff); S=$(mktemp -d /tmp/refrun.XXXX); cp -r /repo/src /repo/test $S/; cp /repo/pytest.ini /repo/conftest.py /repo/setup.py $S/ 2>/dev/null
  (cd $S && patch -s -p1 < $d) || { echo "$r: patch failed"; rm -rf $S; continue; }
  if [ "$1" = "test" ]; then
    echo "$r tests: $(cd $S && PYTHONPATH=$S/src MPLBACKEND=Agg /venv/bin/python -m pytest -q -p no:cacheprovider test 2>&1 | tail -1)"
  else
    for pid in $(grep "^checks:" /verif/seeded/refactorings3/$r.txt | cut -d: -f2); do
      out=$(cd /verif && PYVC_REPO_SRC=$S/src PYVC_EVIDENCE_DIR=$S/ev ./check $pid 2>&1); rc=$?
      echo "$r $pid exit=$rc $(echo "$out" | grep -E "VIOLATION|UNDECIDED|CHECKER-ERROR" | cut -c1-200 | head -3 | tr '\n' ' ')"
    done
  fi
  rm -rf $S
done
