#!/bin/bash
# seed_matrix.sh: run, for every stored seed, the check of the property it breaks (on a scratch copy); summary to stdout
for d in /verif/seeded/C*; do
  id=$(basename $d); pid=${id:0:3}
  /verif/bin/seed_run.sh $id $pid 2>&1 | grep -E "^--- seed|VIOLATION|UNDECIDED|CHECKER-ERROR|exit " | cut -c1-200
done
