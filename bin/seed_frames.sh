#!/bin/bash
# quick look: frame obligations against a seeded change (scratch copy)
seed=$1; shift
S=$(mktemp -d /tmp/seedrun.XXXX)
cp -r /repo/src $S/src
(cd $S && patch -s -p1 < /verif/seeded/$seed/patch.diff) || { echo "patch failed"; rm -rf $S; exit 9; }
cd /verif && PYVC_REPO_SRC=$S/src .venv312/bin/python scratch/f2.py "$@" 2>&1 | cut -c1-400
rm -rf $S
