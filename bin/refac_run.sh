#!/bin/bash
# refac_run.sh: semantics-preserving refactorings (seeded/refactorings/r*.diff) must never give a VIOLATION; UNDECIDED is reported
declare -A MAP=( [r01]="C17 C01" [r02]="C18 C03" [r03]="C18 C01" [r04]="C19" [r05]="C19" [r06]="C15" [r07]="C09" [r08]="C12 C11" [r09]="C04 C06 C08" [r10]="C12" [r11]="C01 C14" [r12]="C01 C03 C04" )
for r in r01 r02 r03 r04 r05 r06 r07 r08 r09 r10 r11 r12; do
  S=$(mktemp -d /tmp/refrun.XXXX); cp -r /repo/src $S/src
  (cd $S && patch -s -p1 < /verif/seeded/refactorings/$r.diff) || { echo "$r: patch failed"; rm -rf $S; continue; }
  for pid in ${MAP[$r]}; do
    out=$(cd /verif && PYVC_REPO_SRC=$S/src PYVC_EVIDENCE_DIR=$S/ev ./check $pid 2>&1); rc=$?
    echo "$r $pid exit=$rc $(echo "$out" | grep -E "VIOLATION|UNDECIDED|CHECKER-ERROR" | cut -c1-170 | head -3 | tr '\n' ' ')"
  done
  rm -rf $S
done
