#!/usr/bin/env python3
"""seed_install.py <round> <suffix> <id>...: copy the verified sub-agent outputs /tmp/seed_out<round>/<id> to seeded/<id><suffix>/"""
import json, os, shutil, subprocess, sys
N, suf, ids = sys.argv[1], sys.argv[2], sys.argv[3:]
props = {json.loads(l)['id']: json.loads(l) for l in open('/verif/properties.jsonl')}
for i in ids:
    src, dst = f'/tmp/seed_out{N}/{i}', f'/verif/seeded/{i}{suf}'
    os.makedirs(dst, exist_ok=True)
    for f in ('patch.diff', 'demo.py', 'notes.md', 'verify.txt'):
        if os.path.exists(f'{src}/{f}'):
            shutil.copy(f'{src}/{f}', dst)
    files = [l[6:].strip() for l in open(f'{src}/patch.diff') if l.startswith('+++ b/')]
    ver = [l.strip() for l in open(f'{src}/verify.txt') if l.strip()] if os.path.exists(f'{src}/verify.txt') else []
    keep = [l for l in ver if any(w in l for w in ('passed', 'failed', 'exit', 'demo on', 'matches', 'MISMATCH'))]
    meta = {'seed_id': i + suf, 'breaks_property': i, 'property_title': props[i].get('title', ''), 'files_changed': files, 'round': int(N),
            'produced_by': f'independent sub-agent given only the property text and a scratch worktree of /repo HEAD (incl. fix: commits; nothing from /verif); told not to reuse the ideas of rounds 1-{int(N)-1}',
            'needs_to_manifest': 'see notes.md (written by the sub-agent)',
            'confirmed_by_me': {'how': 'bin/seed_round.sh (patch == worktree diff; full repository test suite with the change; demo.py with and without the change)', 'result': keep},
            'detected_by': 'see DESIGN.md section 8 (seed matrix)'}
    json.dump(meta, open(f'{dst}/meta.json', 'w'), indent=1)
    print('installed', dst, files)
