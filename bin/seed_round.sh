#!/bin/bash
# seed_round.sh <round-number> <property-id>...: verify the sub-agent outputs under /tmp/seed_out<N>/<id> (worktrees /tmp/wt<N>_<id>) and run
# the check of the property each seed breaks on a scratch copy; one summary line per seed
N=$1; shift
mkdir -p /verif/scratch/s$N
for id in "$@"; do
  sed "s/wt2_/wt${N}_/g; s/seed_out2/seed_out${N}/g; s/round 2/round $N/" /verif/bin/seed_verify2.sh > /tmp/seed_verify_$N.sh; chmod +x /tmp/seed_verify_$N.sh
  /tmp/seed_verify_$N.sh $id
  v=$(grep -E "passed|failed|^exit|MISMATCH" /tmp/seed_out$N/$id/verify.txt | tr '\n' ' ')
  S=$(mktemp -d /tmp/seedrun.XXXX); cp -r /repo/src $S/src; (cd $S && patch -s -p1 < /tmp/seed_out$N/$id/patch.diff)
  (cd /verif && PYVC_REPO_SRC=$S/src PYVC_EVIDENCE_DIR=$S/ev ./check $id > /verif/scratch/s$N/$id.log 2>&1); rc=$?
  rm -rf $S
  echo "== $id | verify: $v| check exit $rc | $(grep -E "failed obligation|UNDECIDED|CHECKER" /verif/scratch/s$N/$id.log | sed 's/  failed obligation: //' | cut -c1-110 | sort | uniq -c | sort -rn | head -3 | tr '\n' ';')"
done
