#!/bin/bash
# re-validate every stored seed against the CURRENT /repo tree (after fix: commits): patch applies, demo fails with it, passes without
out=/tmp/seed_recheck.txt; : > $out
for d in /verif/seeded/C*; do
  id=$(basename $d)
  S=$(mktemp -d /tmp/seedrun.XXXX); cp -r /repo/src $S/src
  if ! (cd $S && patch -s -p1 < $d/patch.diff >/dev/null 2>&1); then echo "$id: patch does not apply" >> $out; rm -rf $S; continue; fi
  (cd $d && PYTHONPATH=$S/src timeout 900 /venv/bin/python demo.py >/dev/null 2>&1); a=$?
  (cd $d && PYTHONPATH=/repo/src timeout 900 /venv/bin/python demo.py >/dev/null 2>&1); b=$?
  echo "$id: demo with change exit $a, without exit $b" >> $out
  rm -rf $S
done
echo done >> $out
