#!/bin/bash
# refac_run4.sh <dir with r<k>.diff>: fourth set of semantics-preserving refactorings (by an independent sub-agent, on the final machinery);
# none may give a VIOLATION.  Three runs at a time.
D=${1:-/verif/seeded/refactorings4}
declare -A MAP=( [r01]="C07 C05 C02 C10" [r02]="C03 C01 C16" [r03]="C06 C08" [r04]="C01 C02" [r05]="C14 C01 C05" [r06]="C06 C05 C08" [r07]="C15 C10" [r08]="C12 C11" [r09]="C19" [r10]="C17 C01" )
one() {
  r=$1; pid=$2; D=$3
  S=$(mktemp -d /tmp/refrun.XXXX); cp -r /repo/src $S/src
  (cd $S && patch -s -p1 < $D/$r.diff) || { echo "$r $pid: patch failed"; rm -rf $S; return; }
  out=$(cd /verif && PYVC_REPO_SRC=$S/src PYVC_EVIDENCE_DIR=$S/ev ./check $pid 2>&1); rc=$?
  echo "$r $pid exit=$rc $(echo "$out" | grep -E "VIOLATION|UNDECIDED|CHECKER-ERROR" | cut -c1-200 | head -3 | tr '\n' ' ')"
  rm -rf $S
}
export -f one
for r in r01 r02 r03 r04 r05 r06 r07 r08 r09 r10; do for pid in ${MAP[$r]}; do echo "$r $pid $D"; done; done | xargs -P 3 -L 1 bash -c 'one $0 $1 $2'
