#!/bin/bash
# seed_run.sh <seed-id> <property-id>...: run checks against a seeded change on a scratch copy of /repo/src (removed afterwards)
seed=$1; shift
S=$(mktemp -d /tmp/seedrun.XXXX)
cp -r /repo/src $S/src
(cd $S && patch -s -p1 < /verif/seeded/$seed/patch.diff) || { echo "patch failed"; rm -rf $S; exit 9; }
for pid in "$@"; do
  echo "--- seed $seed vs check $pid"
  (cd /verif && PYVC_REPO_SRC=$S/src PYVC_EVIDENCE_DIR=$S/evidence ./check $pid 2>&1 | grep -E "VIOLATION|UNDECIDED|CHECKER-ERROR|KNOWN|failed obligation|obligations discharged" | cut -c1-260)
  echo "exit ${PIPESTATUS[0]}"
done
rm -rf $S
