import json,sys
sys.path.insert(0,'/verif')
props=[json.loads(l) for l in open('/verif/properties.jsonl')]
from contracts.properties import SPECS
from contracts.manifest_text import TEXT, NA
base=json.load(open('/root/.vp/BASELINE.json'))
checks=[]
for p in props:
    pid=p['id']
    if pid in SPECS:
        t=TEXT[pid]
        checks.append({'property_id':pid,'quick_cmd':f'./check {pid} --tier quick','thorough_cmd':f'./check {pid} --tier thorough',
          'evidence_file':f'/verif/evidence/{pid}.json','replay_cmd_template':f'./check {pid} --replay {{path}}','engine':'pyvc',
          'level_claimed':{'category':SPECS[pid].level,'text':t['text'],'design_ref':t['design_ref']},
          'level_note':t['note'],'technique':t['technique']})
na=[{'property_id':p['id'],'reason':NA.get(p['id'],'decidable part (contracts + obligations) not built yet; not kept alive by a bounded run')} for p in props if p['id'] not in SPECS]
m={'version':1,'setup_cmd':'bin/ensure_env.sh',
 'hooks':{'guard':'AMPYCLOUD_VERIF','enable':'none needed: contracts are sidecar files under /verif/contracts, the verifier re-reads /repo/src on every run; no source hooks exist','baseline_off_cmd':base['cmd'].replace('--junitxml=<file>','').strip(),'source_commits':[],'add_only':True},
 'engines':[{'name':'pyvc','path':'/verif/pyvc','serves_properties':sorted(SPECS),'kind_free_text':'contract-based deductive verifier built here: VC generation by symbolic execution of the real Python ASTs of /repo/src (re-read every run), sidecar contracts, z3 5.1 primary back end with cvc5 / z3 4.8 for unknowns'}],
 'checks':checks,'not_applicable':na,
 'notes':'Technique family: contract-based deductive verification of the real code. See DESIGN.md.'}
json.dump(m,open('/verif/MANIFEST.json','w'),indent=1)
import jsonschema
jsonschema.validate(m,json.load(open('/root/.vp/MANIFEST.schema.json')))
print('manifest ok', len(checks),'checks', len(na),'n/a')
