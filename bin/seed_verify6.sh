#!/bin/bash
# second round (worktrees /tmp/wt6_<id>, outputs /tmp/seed_out6/<id>), based on the repaired tree
id=$1
wt=/tmp/wt6_$id
out=/tmp/seed_out6/$id
{
echo "== $id (round 6)"
git -C $wt diff > $out/actual.diff
if diff -q $out/actual.diff $out/patch.diff >/dev/null; then echo "patch matches worktree"; else echo "PATCH MISMATCH (using the worktree diff)"; cp $out/actual.diff $out/patch.diff; fi
git -C $wt status --short
cd $wt && PYTHONPATH=$wt/src timeout 900 /venv/bin/python -m pytest -q -p no:cacheprovider test 2>&1 | tail -2
echo "-- demo on changed tree"
cd $out && PYTHONPATH=$wt/src timeout 600 /venv/bin/python demo.py > demo_changed.out 2>&1; echo "exit $?"; tail -3 demo_changed.out
echo "-- demo on unchanged tree"
cd $out && PYTHONPATH=/repo/src timeout 600 /venv/bin/python demo.py > demo_unchanged.out 2>&1; echo "exit $?"; tail -2 demo_unchanged.out
} > $out/verify.txt 2>&1
