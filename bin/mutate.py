#!/usr/bin/env python3
"""mutate.py -- systematic small mutants of the functions under contract (self-validation of the checks, DESIGN.md section 8).

  mutate.py gen  <outdir>            write <outdir>/m<k>.diff + index.json: one mutant per file (operators below) of every function
                                     that some contract names
  mutate.py test <outdir> [jobs]     run the repository test suite on a scratch copy per mutant; records which mutants the suite misses
  mutate.py check <outdir>           for the mutants the suite misses: run the checks of the properties whose contracts name the
                                     function; records exit codes (0 = not noticed: equivalent mutant or a gap)

Operators: comparison flips (< <=, > >=, == !=), +/- 1 on integer literals, arithmetic operator swaps (+ -, * /), boolean
negation of an `if` test, `and` <-> `or`, removal of a simple statement (assignment / expression) inside a function, swap of the two
first positional arguments of a call, True <-> False, changed string literals of dict keys are NOT touched (they crash at once).
"""
import ast
import copy
import json
import os
import random
import subprocess
import sys

REPO_SRC = '/repo/src'


def functions_under_contract():
    sys.path.insert(0, '/verif')
    sys.path.insert(0, REPO_SRC)
    from contracts import build_registry
    from contracts.properties import SPECS
    reg = build_registry()
    out = {}
    for pid, spec in SPECS.items():
        for q in spec.functions:
            out.setdefault(q, set()).add(pid)
    return out


class Site:
    def __init__(self, kind, node, apply):
        self.kind, self.node, self.apply = kind, node, apply


def sites_of(fn_node):
    sites = []
    for node in ast.walk(fn_node):
        if isinstance(node, ast.Compare) and len(node.ops) == 1:
            swaps = {ast.Lt: ast.LtE, ast.LtE: ast.Lt, ast.Gt: ast.GtE, ast.GtE: ast.Gt, ast.Eq: ast.NotEq, ast.NotEq: ast.Eq}
            t = type(node.ops[0])
            if t in swaps:
                sites.append(('cmp', node, lambda n, t=t, sw=swaps: setattr(n, 'ops', [sw[t]()])))
        elif isinstance(node, ast.Constant) and isinstance(node.value, bool):
            sites.append(('bool', node, lambda n: setattr(n, 'value', not n.value)))
        elif isinstance(node, ast.Constant) and isinstance(node.value, int) and not isinstance(node.value, bool) and abs(node.value) <= 100:
            sites.append(('int+1', node, lambda n: setattr(n, 'value', n.value + 1)))
            sites.append(('int-1', node, lambda n: setattr(n, 'value', n.value - 1)))
        elif isinstance(node, ast.BinOp):
            swaps = {ast.Add: ast.Sub, ast.Sub: ast.Add, ast.Mult: ast.Div, ast.Div: ast.Mult}
            t = type(node.op)
            if t in swaps:
                sites.append(('arith', node, lambda n, t=t, sw=swaps: setattr(n, 'op', sw[t]())))
        elif isinstance(node, ast.BoolOp):
            sites.append(('boolop', node, lambda n: setattr(n, 'op', ast.Or() if isinstance(n.op, ast.And) else ast.And())))
        elif isinstance(node, ast.If):
            sites.append(('negate-if', node, lambda n: setattr(n, 'test', ast.UnaryOp(op=ast.Not(), operand=n.test))))
        elif isinstance(node, ast.Call) and len(node.args) >= 2 and not any(isinstance(a, ast.Starred) for a in node.args[:2]):
            sites.append(('swap-args', node, lambda n: n.args.__setitem__(slice(0, 2), [n.args[1], n.args[0]])))
    # statement removal
    for node in ast.walk(fn_node):
        for fld in ('body', 'orelse'):
            blk = getattr(node, fld, None)
            if isinstance(blk, list) and len(blk) > 1:
                for st in blk:
                    if isinstance(st, (ast.Assign, ast.AugAssign)) or (isinstance(st, ast.Expr) and isinstance(st.value, ast.Call)
                                                                       and not _is_log(st.value)):
                        sites.append(('drop-stmt', st, None))
    return sites


def _is_log(call):
    f = call.func
    return isinstance(f, ast.Attribute) and isinstance(f.value, ast.Name) and f.value.id == 'logger'


def find_fn(tree, qual_tail):
    parts = qual_tail.split('.')
    body = tree.body
    node = None
    for p in parts:
        node = next((n for n in body if isinstance(n, (ast.FunctionDef, ast.ClassDef)) and n.name == p), None)
        if node is None:
            return None
        body = node.body
    return node


def gen(outdir, per_fn=6, seed=7):
    os.makedirs(outdir, exist_ok=True)
    rng = random.Random(seed)
    fns = functions_under_contract()
    index = []
    k = 0
    for q in sorted(fns):
        mod, _, tail = q.partition('.')   # ampycloud.<...>
        # resolve module path
        parts = q.split('.')
        path = None
        for cut in range(len(parts) - 1, 0, -1):
            cand = os.path.join(REPO_SRC, *parts[:cut]) + '.py'
            if os.path.exists(cand):
                path, tail = cand, '.'.join(parts[cut:])
                break
        if path is None:
            continue
        src = open(path).read()
        tree = ast.parse(src)
        fn = find_fn(tree, tail)
        if fn is None:
            continue
        sites = sites_of(fn)
        rng.shuffle(sites)
        taken, kinds = 0, {}
        for kind, node, apply in sites:
            if taken >= per_fn or kinds.get(kind, 0) >= 2:
                continue
            # line-based textual mutation keeps formatting / comments: mutate the AST of the *statement line span* only
            t2 = ast.parse(src)
            fn2 = find_fn(t2, tail)
            # locate the corresponding node by position
            target = next((n for n in ast.walk(fn2) if type(n) is type(node) and getattr(n, 'lineno', None) == getattr(node, 'lineno', None)
                           and getattr(n, 'col_offset', None) == getattr(node, 'col_offset', None)), None)
            if target is None:
                continue
            # enclosing statement
            stmt = _enclosing_stmt(fn2, target)
            if stmt is None:
                continue
            if kind == 'drop-stmt':
                new_txt = ' ' * stmt.col_offset + 'pass'
            else:
                apply(target)
                try:
                    new_txt = ' ' * stmt.col_offset + ast.unparse(stmt).replace('\n', '\n' + ' ' * stmt.col_offset)
                except Exception:
                    continue
            lines = src.split('\n')
            new_lines = lines[:stmt.lineno - 1] + new_txt.split('\n') + lines[stmt.end_lineno:]
            new_src = '\n'.join(new_lines)
            try:
                ast.parse(new_src)
            except SyntaxError:
                continue
            if new_src == src:
                continue
            k += 1
            name = f'm{k:03d}'
            rel = os.path.relpath(path, '/repo')
            tmp_a, tmp_b = f'/tmp/_mut_a_{os.getpid()}', f'/tmp/_mut_b_{os.getpid()}'
            for d, txt in ((tmp_a, src), (tmp_b, new_src)):
                os.makedirs(os.path.join(d, os.path.dirname(rel)), exist_ok=True)
                open(os.path.join(d, rel), 'w').write(txt)
            diff = subprocess.run(['diff', '-u', os.path.join(tmp_a, rel), os.path.join(tmp_b, rel)], capture_output=True, text=True).stdout
            diff = diff.replace(os.path.join(tmp_a, rel), 'a/' + rel).replace(os.path.join(tmp_b, rel), 'b/' + rel)
            open(os.path.join(outdir, name + '.diff'), 'w').write(diff)
            subprocess.run(['rm', '-rf', tmp_a, tmp_b])
            index.append({'id': name, 'function': q, 'kind': kind, 'line': stmt.lineno, 'properties': sorted(fns[q])})
            taken += 1
            kinds[kind] = kinds.get(kind, 0) + 1
    json.dump(index, open(os.path.join(outdir, 'index.json'), 'w'), indent=1)
    print(len(index), 'mutants')


def _enclosing_stmt(fn, target):
    best = None
    for st in ast.walk(fn):
        if isinstance(st, ast.stmt) and st is not fn and hasattr(st, 'lineno'):
            if any(n is target for n in ast.walk(st)):
                if best is None or (st.end_lineno - st.lineno) <= (best.end_lineno - best.lineno):
                    # innermost *simple-enough* statement: prefer the smallest span
                    best = st
    if isinstance(best, (ast.If, ast.For, ast.While, ast.With, ast.Try)) and target is not getattr(best, 'test', None) \
            and not (isinstance(best, ast.If) and any(n is target for n in ast.walk(best.test))):
        return best
    return best


def _run_tests(args):
    outdir, m = args
    S = f'/tmp/mutrun_{m["id"]}'
    subprocess.run(['rm', '-rf', S])
    os.makedirs(S)
    subprocess.run(['cp', '-r', '/repo/src', '/repo/test', S])
    for f in ('setup.py', 'pyproject.toml', 'pytest.ini', 'setup.cfg', 'tox.ini', 'conftest.py'):
        if os.path.exists('/repo/' + f):
            subprocess.run(['cp', '/repo/' + f, S])
    r = subprocess.run(['patch', '-s', '-p1', '-i', os.path.join(outdir, m['id'] + '.diff')], cwd=S, capture_output=True, text=True)
    if r.returncode != 0:
        subprocess.run(['rm', '-rf', S])
        return m['id'], 'patch-failed'
    env = dict(os.environ, PYTHONPATH=S + '/src', MPLBACKEND='Agg')
    try:
        r = subprocess.run(['/venv/bin/python', '-m', 'pytest', '-q', '-x', '-p', 'no:cacheprovider', 'test'], cwd=S, env=env,
                           capture_output=True, text=True, timeout=900)
        res = 'tests-pass' if r.returncode == 0 else 'tests-fail'
    except subprocess.TimeoutExpired:
        res = 'tests-timeout'
    subprocess.run(['rm', '-rf', S])
    return m['id'], res


def test(outdir, jobs=6):
    import multiprocessing as mp
    index = json.load(open(os.path.join(outdir, 'index.json')))
    todo = [m for m in index if 'tests' not in m]
    with mp.Pool(jobs) as p:
        for mid, res in p.imap_unordered(_run_tests, [(outdir, m) for m in todo]):
            next(m for m in index if m['id'] == mid)['tests'] = res
            json.dump(index, open(os.path.join(outdir, 'index.json'), 'w'), indent=1)
            print(mid, res, flush=True)


def check(outdir):
    index = json.load(open(os.path.join(outdir, 'index.json')))
    for m in index:
        if m.get('tests') != 'tests-pass' or 'checks' in m:
            continue
        S = f'/tmp/mutchk_{m["id"]}'
        subprocess.run(['rm', '-rf', S])
        os.makedirs(S)
        subprocess.run(['cp', '-r', '/repo/src', S])
        subprocess.run(['patch', '-s', '-p1', '-i', os.path.join(outdir, m['id'] + '.diff')], cwd=S)
        res = {}
        for pid in m['properties']:
            env = dict(os.environ, PYVC_REPO_SRC=S + '/src', PYVC_EVIDENCE_DIR=S + '/ev')
            r = subprocess.run(['./check', pid], cwd='/verif', env=env, capture_output=True, text=True)
            first = next((l for l in r.stdout.splitlines() if l.startswith(('VIOLATION', 'UNDECIDED', 'CHECKER'))), '')
            res[pid] = {'exit': r.returncode, 'first': first[:200]}
            if r.returncode == 1:
                break          # noticed
        m['checks'] = res
        subprocess.run(['rm', '-rf', S])
        json.dump(index, open(os.path.join(outdir, 'index.json'), 'w'), indent=1)
        print(m['id'], m['function'].split('.')[-1], m['kind'], {p: v['exit'] for p, v in res.items()}, flush=True)


if __name__ == '__main__':
    cmd = sys.argv[1]
    if cmd == 'gen':
        gen(sys.argv[2], per_fn=int(sys.argv[3]) if len(sys.argv) > 3 else 6)
    elif cmd == 'test':
        test(sys.argv[2], int(sys.argv[3]) if len(sys.argv) > 3 else 6)
    elif cmd == 'check':
        check(sys.argv[2])
