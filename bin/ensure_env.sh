#!/bin/bash
# Build (idempotently, offline) the single interpreter the checks use:
#   /verif/.venv312 = python 3.12 venv made from /venv/bin/python, with z3-solver, cvc5, icontract, deal,
#   crosshair-tool, hypothesis, jsonschema installed from the offline wheelhouse, plus a .pth that makes
#   /venv's site-packages (pandas, numpy, scikit-learn, statsmodels, matplotlib, editable ampycloud -> /repo/src)
#   importable.  Nothing is fetched from the network.
set -euo pipefail
HERE="$(cd "$(dirname "${BASH_SOURCE[0]}")/.." && pwd)"
VENV="$HERE/.venv312"
STAMP="$VENV/.ok"
exec 9>"$HERE/.venv312.lock"
flock 9
if [ -f "$STAMP" ] && "$VENV/bin/python" -c 'import z3, cvc5, pandas, ampycloud, jsonschema' 2>/dev/null; then
  exit 0
fi
rm -rf "$VENV"
/venv/bin/python -m venv "$VENV"
export PIP_NO_INDEX=1 PIP_DISABLE_PIP_VERSION_CHECK=1
"$VENV/bin/pip" install -q --no-index --find-links /opt/veriftools/wheels \
    z3-solver cvc5 icontract deal crosshair-tool hypothesis jsonschema >/dev/null
SP="$("$VENV/bin/python" -c 'import sysconfig; print(sysconfig.get_paths()["purelib"])')"
echo "import site; site.addsitedir('/venv/lib/python3.12/site-packages')" > "$SP/zz_repo_venv.pth"
"$VENV/bin/python" -c 'import z3, cvc5, pandas, ampycloud, jsonschema; print("env ok: z3", z3.get_version_string(), "pandas", pandas.__version__)'
touch "$STAMP"
