"""Definite-assignment analysis (C08: an UnboundLocalError is not an AmpycloudError).

For every function: a forward must-analysis over the AST.  A local name (one that is assigned somewhere in the function and is not
declared global / nonlocal) may only be read at a point where it has been assigned on *every* path reaching that point.
Conservative rules: `if` joins by intersection; a `for` / `while` body may run zero times (what it assigns is not definite
afterwards, except after `while True`); `try` bodies may stop anywhere (handlers and `finally` start from the state before the
`try`); `with` bodies run; comprehension / lambda / nested function scopes are separate (their free reads of an enclosing local are
checked at the point of the definition for comprehensions, and ignored for lambdas / nested defs, which run later).
A path that ends in `return` / `raise` / `continue` / `break` contributes nothing to the join that follows.
"""
import ast

TOP = None          # "unreachable": every name counts as assigned


class St(frozenset):
    """definitely assigned names; .cond: frozenset of (name, guard text, guard names): `name` is assigned whenever the guard -- a
    side-effect-free test over local names and constants whose names have not been rebound since -- holds"""
    cond = frozenset()

    def __new__(cls, names=(), cond=frozenset()):
        o = super().__new__(cls, names)
        o.cond = frozenset(cond)
        return o

    def __or__(self, other):
        new = set(other)
        return St(frozenset.__or__(self, other), {c for c in self.cond if not (c[2] & new)})

    def __sub__(self, other):
        return St(frozenset.__sub__(self, other), self.cond)

    def drop_guards_on(self, names):
        return St(self, {c for c in self.cond if not (c[2] & set(names))})


def _meet(a, b):
    if a is TOP:
        return b
    if b is TOP:
        return a
    return St(frozenset.__and__(a, b), a.cond & b.cond)


def _pure_guard(e):
    """(text, names) if e is a side-effect-free test over names and constants, else None"""
    names = set()
    for n in ast.walk(e):
        if isinstance(n, ast.Name):
            names.add(n.id)
        elif not isinstance(n, (ast.Compare, ast.BoolOp, ast.UnaryOp, ast.Constant, ast.And, ast.Or, ast.Not, ast.Load, ast.cmpop)):
            return None
    return ast.unparse(e), frozenset(names)


def _assigned_in(stmts):
    out = set()
    for s in stmts:
        for n in ast.walk(s):
            if isinstance(n, ast.Name) and isinstance(n.ctx, (ast.Store, ast.Del)):
                out.add(n.id)
    return out


class _Fn:
    def __init__(self, node, lenient=False):
        self.node = node
        #: lenient: every `for` loop runs at least once and every `try` body completes (what a maintainer may know and the analysis
        #: cannot): a read flagged in lenient mode is unassigned on a *branch* path; one flagged only in strict mode is undecided
        self.lenient = lenient
        self.problems = []          # (lineno, name)
        self.locals = self._locals(node)
        a = node.args
        self.params = {x.arg for x in a.posonlyargs + a.args + a.kwonlyargs} | ({a.vararg.arg} if a.vararg else set()) | \
            ({a.kwarg.arg} if a.kwarg else set())

    @staticmethod
    def _locals(fn):
        names, outer = set(), set()

        def targets(t):
            if isinstance(t, ast.Name):
                names.add(t.id)
            elif isinstance(t, (ast.Tuple, ast.List)):
                for e in t.elts:
                    targets(e)
            elif isinstance(t, ast.Starred):
                targets(t.value)

        def walk(n):
            for c in ast.iter_child_nodes(n):
                if isinstance(c, (ast.FunctionDef, ast.AsyncFunctionDef, ast.ClassDef)):
                    names.add(c.name)
                    continue
                if isinstance(c, ast.Lambda):
                    continue
                if isinstance(c, (ast.ListComp, ast.SetComp, ast.DictComp, ast.GeneratorExp)):
                    # only walrus targets leak out of a comprehension
                    for w in ast.walk(c):
                        if isinstance(w, ast.NamedExpr):
                            targets(w.target)
                    continue
                if isinstance(c, (ast.Global, ast.Nonlocal)):
                    outer.update(c.names)
                if isinstance(c, (ast.Assign,)):
                    for t in c.targets:
                        targets(t)
                elif isinstance(c, (ast.AugAssign, ast.AnnAssign)):
                    if not (isinstance(c, ast.AnnAssign) and c.value is None):
                        targets(c.target)
                elif isinstance(c, (ast.For, ast.AsyncFor)):
                    targets(c.target)
                elif isinstance(c, (ast.With, ast.AsyncWith)):
                    for it in c.items:
                        if it.optional_vars is not None:
                            targets(it.optional_vars)
                elif isinstance(c, ast.ExceptHandler) and c.name:
                    names.add(c.name)
                elif isinstance(c, (ast.Import, ast.ImportFrom)):
                    for al in c.names:
                        names.add((al.asname or al.name).split('.')[0])
                elif isinstance(c, ast.NamedExpr):
                    targets(c.target)
                elif isinstance(c, ast.Delete):
                    pass
                walk(c)
        walk(fn)
        return names - outer

    # ---- expressions: reads (in evaluation order where it matters) -----------------------------
    def reads(self, e, st):
        """check the reads of expression e against state st; returns the state after (walrus targets added)"""
        if e is None or st is TOP:
            return st
        if isinstance(e, ast.Name):
            if isinstance(e.ctx, ast.Load) and e.id in self.locals and e.id not in st:
                self.problems.append((e.lineno, e.id))
            return st
        if isinstance(e, ast.NamedExpr):
            st = self.reads(e.value, st)
            return st | {e.target.id}
        if isinstance(e, ast.Lambda):
            return st
        if isinstance(e, (ast.ListComp, ast.SetComp, ast.GeneratorExp, ast.DictComp)):
            inner = set(st)
            for k, g in enumerate(e.generators):
                self.reads(g.iter, frozenset(inner) if k else st)
                for t in ast.walk(g.target):
                    if isinstance(t, ast.Name):
                        inner.add(t.id)
                for c in g.ifs:
                    self.reads(c, frozenset(inner))
            for part in ([e.key, e.value] if isinstance(e, ast.DictComp) else [e.elt]):
                self.reads(part, frozenset(inner))
            return st
        if isinstance(e, ast.BoolOp):
            # the first operand is always evaluated; later ones conditionally (their walrus targets are not definite)
            st = self.reads(e.values[0], st)
            for v in e.values[1:]:
                self.reads(v, st)
            return st
        if isinstance(e, ast.IfExp):
            st = self.reads(e.test, st)
            self.reads(e.body, st)
            self.reads(e.orelse, st)
            return st
        for c in ast.iter_child_nodes(e):
            if isinstance(c, ast.expr):
                st = self.reads(c, st)
            elif isinstance(c, (ast.keyword,)):
                st = self.reads(c.value, st)
            elif isinstance(c, ast.comprehension):
                pass
            elif isinstance(c, ast.Slice):
                st = self.reads(c, st)
        return st

    def bind(self, t, st):
        if st is TOP:
            return st
        if isinstance(t, ast.Name):
            return st | {t.id}
        if isinstance(t, (ast.Tuple, ast.List)):
            for e in t.elts:
                st = self.bind(e, st)
            return st
        if isinstance(t, ast.Starred):
            return self.bind(t.value, st)
        # attribute / subscript store: reads of the base
        return self.reads(t, st) if not isinstance(t, (ast.Attribute, ast.Subscript)) else self._store_reads(t, st)

    def _store_reads(self, t, st):
        st = self.reads(t.value, st)
        if isinstance(t, ast.Subscript):
            st = self.reads(t.slice, st)
        return st

    # ---- statements ----------------------------------------------------------------------------
    def block(self, stmts, st, loop=None):
        for s in stmts:
            st = self.stmt(s, st, loop)
        return st

    def stmt(self, s, st, loop):
        if st is TOP:
            return st
        if isinstance(s, ast.Expr):
            return self.reads(s.value, st)
        if isinstance(s, ast.Assign):
            st = self.reads(s.value, st)
            for t in s.targets:
                st = self.bind(t, st)
            return st
        if isinstance(s, ast.AnnAssign):
            if s.value is None:
                return st
            st = self.reads(s.value, st)
            return self.bind(s.target, st)
        if isinstance(s, ast.AugAssign):
            st = self.reads(s.value, st)
            if isinstance(s.target, ast.Name):
                if s.target.id in self.locals and s.target.id not in st:
                    self.problems.append((s.lineno, s.target.id))
                return st | {s.target.id}
            return self._store_reads(s.target, st)
        if isinstance(s, ast.Return):
            self.reads(s.value, st)
            return TOP
        if isinstance(s, ast.Raise):
            self.reads(s.exc, st)
            self.reads(s.cause, st)
            return TOP
        if isinstance(s, (ast.Pass, ast.Global, ast.Nonlocal)):
            return st
        if isinstance(s, (ast.Import, ast.ImportFrom)):
            return st | {(al.asname or al.name).split('.')[0] for al in s.names}
        if isinstance(s, (ast.FunctionDef, ast.AsyncFunctionDef, ast.ClassDef)):
            for d in s.decorator_list:
                st = self.reads(d, st)
            return st | {s.name}
        if isinstance(s, ast.If):
            st = self.reads(s.test, st)
            g = _pure_guard(s.test)
            st_body = st
            if g is not None and st is not TOP:
                st_body = St(frozenset.__or__(st, {c[0] for c in st.cond if c[1] == g[0]}), st.cond)
            a = self.block(s.body, st_body, loop)
            b = self.block(s.orelse, st, loop)
            out = _meet(a, b)
            if g is not None and a is not TOP and b is not TOP and not (g[1] & _assigned_in(s.body + s.orelse)):
                # what only the guarded branch assigns is assigned whenever the guard holds
                out = St(out, out.cond | {(n, g[0], g[1]) for n in frozenset.__sub__(a, b)})
            return out
        if isinstance(s, (ast.For, ast.AsyncFor)):
            st = self.reads(s.iter, st)
            info = {'breaks': []}
            st = st.drop_guards_on(_assigned_in([s]))
            body_in = self.bind(s.target, st)
            body_out = self.block(s.body, body_in, info)
            # zero iterations possible: only what was definite before the loop is definite after it (+ orelse)
            base = st
            if self.lenient and body_out is not TOP:
                base = St(frozenset.__or__(st, frozenset.__and__(body_out, body_out)), st.cond)
            after = self.block(s.orelse, base, loop) if s.orelse else base
            for b in info['breaks']:
                after = _meet(after, b)
            return after
        if isinstance(s, ast.While):
            st = self.reads(s.test, st)
            info = {'breaks': []}
            st = st.drop_guards_on(_assigned_in([s]))
            self.block(s.body, st, info)
            forever = isinstance(s.test, ast.Constant) and s.test.value is True
            after = TOP if forever else (self.block(s.orelse, st, loop) if s.orelse else st)
            for b in info['breaks']:
                after = _meet(after, b)
            return after
        if isinstance(s, ast.Break):
            if loop is not None:
                loop['breaks'].append(st)
            return TOP
        if isinstance(s, ast.Continue):
            return TOP
        if isinstance(s, (ast.With, ast.AsyncWith)):
            for it in s.items:
                st = self.reads(it.context_expr, st)
                if it.optional_vars is not None:
                    st = self.bind(it.optional_vars, st)
            return self.block(s.body, st, loop)
        if isinstance(s, ast.Try):
            body_out = self.block(s.body, st, loop)
            else_out = self.block(s.orelse, body_out, loop) if s.orelse else body_out
            outs = [else_out]
            for h in s.handlers:
                hs = st if not self.lenient or body_out is TOP else st      # (handlers always start from the state before the try)
                if h.type is not None:
                    hs = self.reads(h.type, hs)
                if h.name:
                    hs = hs | {h.name}
                outs.append(self.block(h.body, hs, loop))
            out = TOP
            for o in outs:
                out = _meet(out, o)
            if s.finalbody:
                # the finally block may start anywhere in the try: check it against the state before; its own bindings add up
                fin = self.block(s.finalbody, st, loop)
                if out is not TOP and fin is not TOP:
                    out = out | (fin - st)
                elif fin is TOP:
                    out = TOP
            return out
        if isinstance(s, ast.Assert):
            st = self.reads(s.test, st)
            self.reads(s.msg, st)
            return st
        if isinstance(s, ast.Delete):
            for t in s.targets:
                if isinstance(t, ast.Name):
                    if t.id in self.locals and t.id not in st:
                        self.problems.append((s.lineno, t.id))
                    st = st - {t.id}
                else:
                    st = self._store_reads(t, st)
            return st
        if isinstance(s, ast.Match):
            raise NotImplementedError('match statement')
        raise NotImplementedError(type(s).__name__)

    def run(self):
        st = St(self.params)
        self.block(self.node.body, st)
        return sorted(set(self.problems))


def analyse_function(fn_node, lenient=False):
    """-> list of (lineno, name): reads of a local that is not assigned on every path reaching the read"""
    return _Fn(fn_node, lenient).run()


def classify(fn_node):
    """-> (definite, possible): reads unassigned on a branch path even if every loop body runs (definite problems), and reads that
    are unassigned only if some `for` loop runs zero times (possible: not decided by this analysis)"""
    strict = analyse_function(fn_node)
    len_ = set(analyse_function(fn_node, lenient=True))
    return [p for p in strict if p in len_], [p for p in strict if p not in len_]


def analyse_module(tree):
    out = {}
    for n in ast.walk(tree):
        if isinstance(n, (ast.FunctionDef, ast.AsyncFunctionDef)):
            out[(n.name, n.lineno)] = analyse_function(n)
    return out


_SELFTEST = [
    ('def f(a):\n    if a:\n        x = 1\n    return x\n', ['x']),
    ('def f(a):\n    if a:\n        x = 1\n    else:\n        x = 2\n    return x\n', []),
    ('def f(r):\n    for i in r:\n        y = i\n    return y\n', ['y']),
    ('def f(a):\n    if a:\n        x = 1\n    z = 0\n    if a:\n        return x\n    return z\n', []),
    ('def f(a):\n    if a:\n        x = 1\n    a = not a\n    if a:\n        return x\n    return 0\n', ['x']),
    ('def f(a):\n    try:\n        x = g()\n    except KeyError:\n        pass\n    return x\n', ['x']),
    ('def f(a):\n    try:\n        x = g()\n    except KeyError:\n        raise ValueError()\n    return x\n', []),
    ('def f(a):\n    while True:\n        x = 1\n        break\n    return x\n', []),
    ('def f(a):\n    with g() as h:\n        x = h\n    return x\n', []),
    ('def f(a):\n    return [i for i in a if i]\n', []),
    ('def f(a):\n    if (n := len(a)) > 1:\n        return n\n    return n\n', []),
    ('def f(a):\n    x += 1\n    return x\n', ['x']),
    ('def f(a):\n    def g():\n        return y\n    y = 1\n    return g()\n', []),
    ('def f(a, m):\n    if m == 1:\n        v = a\n    for k in a:\n        if m == 1:\n            k = v\n    return 0\n', []),
    ('def f(a, m):\n    if m == 1:\n        v = a\n    for k in a:\n        if m == 1:\n            k = v\n        m = 2\n    return 0\n', ['v']),
    ('def f(a):\n    if a:\n        return 1\n    else:\n        x = 2\n    return x\n', []),
    ('def f(a):\n    for i in a:\n        if i:\n            x = i\n            break\n    else:\n        x = 0\n    return x\n', []),
    ('def f(a):\n    if a is None:\n        b = 1\n    return [b for _ in a]\n', ['b']),
]


def selftest():
    """-> list of failed cases (must be empty): run by the check on every run"""
    bad = []
    d, p = classify(ast.parse('def f(r, a):\n    for i in r:\n        y = i\n    if a:\n        z = 1\n    return y + z\n').body[0])
    if sorted(n for _, n in d) != ['z'] or sorted(n for _, n in p) != ['y']:
        bad.append(('classify', d, p))
    for src, want in _SELFTEST:
        got = sorted({n for _, n in analyse_function(ast.parse(src).body[0])})
        if got != sorted(want):
            bad.append((src, want, got))
    return bad
