"""pyvc.contracts -- sidecar contract objects, parameter specs, registry.

Clause functions are *dual use*: they are called with contract-level symbolic views (raw z3 terms for int / bool /
str scalars, SFloat / SList / model objects otherwise) during verification and with native views (Python ints,
NF floats, NList lists) during replay, and must only use the helpers in pyvc.smt (And, Or, Not, Implies, Iff, If,
Forall) and the spec vocabulary of contracts/spec.py.
"""
from __future__ import annotations
import math
from fractions import Fraction
from typing import Any, Callable, Optional

import z3

from . import smt
from .smt import lift, fresh, fresh_int, fresh_real, fresh_bool
from .values import (Sym, SInt, SBool, SFloat, SStr, Model, SList, Unsupported, raw, to_real_parts)


# ---------------------------------------------------------------------------------------------
# native views (replay)
# ---------------------------------------------------------------------------------------------

class NF:
    """native float view with the same shape as SFloat: .nan (bool) and .v (exact Fraction)"""

    def __init__(self, x):
        x = float(x)
        self.x = x
        self.nan = math.isnan(x)
        self.v = Fraction(0) if (self.nan or math.isinf(x)) else Fraction(x)
        self.inf = math.isinf(x)

    def __repr__(self):
        return f'NF({self.x!r})'


class NList:
    def __init__(self, xs):
        self.xs = [nview(x) for x in xs]
        self.len = len(self.xs)

    def __getitem__(self, j):
        return self.xs[int(j)]

    def __repr__(self):
        return f'NList({self.xs!r})'


def nview(v):
    import numpy as np
    if isinstance(v, (bool, np.bool_)):
        return bool(v)
    if isinstance(v, (int, np.integer)):
        return int(v)
    if isinstance(v, (float, np.floating)):
        return NF(v)
    if isinstance(v, (list, tuple)):
        return NList(v)
    if isinstance(v, np.ndarray):
        return NList(v.tolist())
    return v


# ---------------------------------------------------------------------------------------------
# parameter specs
# ---------------------------------------------------------------------------------------------

class Spec:
    def make(self, name, ctx):
        raise NotImplementedError

    def describe(self):
        return type(self).__name__


class Int(Spec):
    def __init__(self, lo=None, hi=None, ty='int'):
        self.lo, self.hi, self.ty = lo, hi, ty

    def make(self, name, ctx):
        t = z3.Int(name)
        if self.lo is not None:
            ctx.assume(t >= self.lo)
        if self.hi is not None:
            ctx.assume(t <= self.hi)
        ctx.extractors[name] = lambda m, t=t: smt.z3val_to_py(m.eval(t, model_completion=True))
        return SInt(t, self.ty)

    def describe(self):
        return f'Int[{self.lo},{self.hi}]:{self.ty}'


class Bool(Spec):
    def make(self, name, ctx):
        t = z3.Bool(name)
        ctx.extractors[name] = lambda m, t=t: smt.z3val_to_py(m.eval(t, model_completion=True))
        return SBool(t)


class Float(Spec):
    def __init__(self, nan=True, lo=None, hi=None, ty='float'):
        self.nan, self.lo, self.hi, self.ty = nan, lo, hi, ty

    def make(self, name, ctx):
        v = z3.Real(name)
        n = z3.Bool(name + '_isnan') if self.nan else z3.BoolVal(False)
        if self.lo is not None:
            ctx.assume(z3.Or(n, v >= lift(self.lo, z3.RealSort())))
        if self.hi is not None:
            ctx.assume(z3.Or(n, v <= lift(self.hi, z3.RealSort())))

        def ext(m, v=v, n=n):
            if z3.is_true(m.eval(n, model_completion=True)):
                return float('nan')
            return smt.z3val_to_py(m.eval(v, model_completion=True))
        ctx.extractors[name] = ext
        return SFloat(v, n, self.ty)

    def describe(self):
        return f'Float(nan={self.nan})[{self.lo},{self.hi}]:{self.ty}'


class Str(Spec):
    def make(self, name, ctx):
        t = z3.String(name)
        ctx.extractors[name] = lambda m, t=t: smt.z3val_to_py(m.eval(t, model_completion=True))
        return SStr(t)


class Const(Spec):
    def __init__(self, value):
        self.value = value

    def make(self, name, ctx):
        ctx.extractors[name] = lambda m, v=self.value: v
        import copy
        return copy.deepcopy(self.value)

    def describe(self):
        return f'Const({self.value!r})'


class ListOf(Spec):
    """Python list of symbolic length of ints / bools / floats / strs.  elem: optional constraint on every element
    (becomes a schema)."""

    def __init__(self, kind, elem_ty=None, elem=None, max_extract=12):
        self.kind, self.elem_ty, self.elemc, self.max_extract = kind, elem_ty, elem, max_extract

    def make(self, name, ctx):
        n = z3.Int(name + '_len')
        ctx.assume(n >= 0)
        ctx.len_vars.append(n)
        if self.kind == 'float':
            arr = z3.Array(name, z3.IntSort(), z3.RealSort())
            nanarr = z3.Array(name + '_nan', z3.IntSort(), z3.BoolSort())
            l = SList('float', n, arr, nanarr, self.elem_ty or 'float')
        else:
            from .values import ELEM_SORT
            arr = z3.Array(name, z3.IntSort(), ELEM_SORT[self.kind]())
            l = SList(self.kind, n, arr, None, self.elem_ty or self.kind)
        if self.elemc is not None:
            ctx.assume(smt.Forall(0, n, lambda j: self.elemc(l[j])))

        def ext(m, l=l, n=n):
            ln = smt.z3val_to_py(m.eval(n, model_completion=True))
            out = []
            for j in range(min(ln, self.max_extract)):
                if l.kind == 'float':
                    if z3.is_true(m.eval(l.nanarr[j], model_completion=True)):
                        out.append(float('nan'))
                    else:
                        out.append(smt.z3val_to_py(m.eval(l.arr[j], model_completion=True)))
                else:
                    out.append(smt.z3val_to_py(m.eval(l.arr[j], model_completion=True)))
            return out
        ctx.extractors[name] = ext
        return l

    def describe(self):
        return f'ListOf({self.kind})'


class Custom(Spec):
    def __init__(self, maker, desc='custom'):
        self.maker, self.desc = maker, desc

    def make(self, name, ctx):
        return self.maker(name, ctx)

    def describe(self):
        return self.desc


# ---------------------------------------------------------------------------------------------
# contract
# ---------------------------------------------------------------------------------------------

def _as_dict(x, default='c'):
    if x is None:
        return {}
    if isinstance(x, dict):
        return x
    if isinstance(x, (list, tuple)):
        return {f'{default}{i}': f for i, f in enumerate(x)}
    return {default: x}


class Contract:
    def __init__(self, qualname, params=None, cases=None, requires=None, ensures=None, raises=None,
                 result=None, loops=None, canaries=None, inline=False, hints=None, notes='',
                 modular_raises=None, properties=(), native_call=None, frame=None, local_models=None,
                 native_oracle=None, expr_contracts=None, exc_ensures=None, skeleton=False, modular_effect=None, arg_pins=None,
                 decreases=None, globals_spec=None, entry_cut=None):
        self.qualname = qualname
        self.params = params or {}
        #: list of (label, {param: Spec}) overriding `params`; each case is explored separately
        self.cases = cases or [('', {})]
        self.requires = requires          # f(**args) -> dict clause -> formula
        self.ensures = ensures            # f(result, **args) -> dict clause -> formula
        #: exception name -> f(**args) -> formula: raised *iff* the formula holds (exact)
        self.raises = raises or {}
        self.result = result              # Spec for the fresh result in modular use
        self.loops = loops or {}
        #: clause name -> f(result, **args): deliberately wrong postconditions that MUST be refuted
        self.canaries = canaries or {}
        self.inline = inline
        self.hints = hints                # f(result, **args) -> list of int terms to instantiate schemas at
        self.notes = notes
        self.properties = tuple(properties)   # property ids this contract serves
        self.native_call = native_call    # f(**native_args) -> native result (replay adapter)
        self.frame = frame
        #: f(**model_values) -> (outcome, failed_clauses): custom replay adapter + independent native oracle
        self.native_oracle = native_oracle
        #: local name -> dict(source=<exact expression text>, value=f(interp, frame) -> model value, doc=<assumed meaning>)
        self.expr_contracts = expr_contracts or {}
        #: exception name -> f(**args) -> clauses that must hold on that exceptional exit (frame / ghost conditions)
        self.exc_ensures = exc_ensures or {}
        #: skeleton mode: pure expressions without a model evaluate to opaque values; only typestate / ghost versions are tracked
        self.skeleton = skeleton
        #: f(ctx, **args): ghost / typestate effect of a normal return, applied at call sites (modular use)
        self.modular_effect = modular_effect
        #: (callee name, positional index) -> dict(source, value=f(interp, frame), doc): assumed contract on one argument expression
        self.arg_pins = arg_pins or {}
        #: f(**args) -> integer term: measure that every recursive call must strictly decrease (and keep >= 0)
        self.decreases = decreases
        #: dotted module attribute -> Spec: mutable module state the function reads / rebinds (ghost store, one value per path)
        self.globals_spec = globals_spec or {}
        #: block contract: dict(first_assigns=<local name>, state=f(ctx, args) -> {local: model value}, doc=<the ASSUMED mid-condition>):
        #: the function is verified from the first top-level statement that assigns `first_assigns`; the statements before it are NOT
        #: verified -- they are replaced by the assumed mid-condition `state` (reported as an unchecked assumption in the evidence)
        self.entry_cut = entry_cut
        #: local name -> factory of a typed model for `name = []` (an empty list literal carries no element type)
        self.local_models = local_models or {}

    _NORES = object()

    def call(self, f, view, tys=None, result=_NORES):
        """call a clause function; clause functions that declare a `_ty` parameter also get the Python type tags"""
        import inspect
        kw = dict(view)
        if '_ty' in inspect.signature(f).parameters:
            kw['_ty'] = tys or {}
        if result is Contract._NORES:
            return f(**kw)
        return f(result, **kw)

    # -- modular use: a call site sees only this ------------------------------------------------
    def apply_modular(self, interp, env, site):
        from .engine import PyRaise
        ctx = interp.ctx
        from .values import pytype_tag
        view = {k: raw(v) for k, v in env.items()}
        tys = {k: (pytype_tag(v) if not isinstance(v, Model) else getattr(v, 'pytype', type(v).__name__)) for k, v in env.items()}
        if self.requires is not None:
            for cname, f in _as_dict(self.call(self.requires, view, tys)).items():
                ctx.oblige(f'pre@{site}.{cname}', f)
                ctx.assume(f)
        for exc, condf in self.raises.items():
            c = self.call(condf, view, tys)
            if isinstance(c, (smt.Forall, smt.Exists)):
                raise Unsupported('quantified raise condition in modular use')
            if isinstance(c, str) and c == 'maybe':
                # the condition depends on data the caller does not track (e.g. "at least one set"): both outcomes
                if ctx.choose(f'{site}-raises', [False, True]):
                    raise PyRaise(exc, f'contract of {self.qualname}')
                continue
            if isinstance(c, bool):
                if c:
                    raise PyRaise(exc, f'contract of {self.qualname}')
                continue
            if ctx.branch(c):
                raise PyRaise(exc, f'contract of {self.qualname}')
        if self.decreases is not None and ctx.fn_stack and ctx.fn_stack[0] == self.qualname:
            # a recursive call: the measure taken at the caller's entry strictly decreases (termination)
            m0 = ctx.ghost.get('measure_at_entry')
            m1 = self.call(self.decreases, view, tys)
            ctx.oblige(f'var@{site}.decreases', False if m0 is None else z3.And(m1 >= 0, m1 < m0))
        ctx.ghost.setdefault('calls', []).append((self.qualname, dict(env)))
        if self.modular_effect is not None:
            self.modular_effect(ctx, **env)
        if self.result is None:
            return None
        if self.skeleton:
            return self.result(f'res@{site}', ctx, **env)
        ctx.underdetermined = True
        res = self.result.make(f'res@{site}', ctx) if isinstance(self.result, Spec) else self.result(f'res@{site}', ctx, **env)
        if self.ensures is not None and not self.skeleton:
            # (typestate contracts state their postconditions over the ghost versions since *their own* entry; at a call site
            #  their effect is applied by modular_effect instead)
            ctx.modular_site = site
            try:
                posts_ = _as_dict(self.call(self.ensures, view, tys, raw(res)))
            finally:
                ctx.modular_site = None
            for cname_, f in posts_.items():
                # a Sequent's local hypotheses are definitional reveals used by the callee's own proof: the caller
                # only learns the (opaque) conclusion
                f = f.goal if isinstance(f, smt.Sequent) else f
                if f is False:
                    # a postcondition that is literally False at a call site would make everything after the call vacuous:
                    # the clause depends on ghosts of the callee's own execution and must not be used modularly
                    from .values import HardUnsupported
                    raise HardUnsupported(f'postcondition {self.qualname}::{cname_} is not usable at call sites (evaluates to False)')
                ctx.assume(f)
        if self.hints is not None:
            ctx.hint(*self.call(self.hints, view, tys, raw(res)))
        return res


class Registry:
    def __init__(self):
        self.contracts = {}
        self.lemmas = {}
        #: 'module.NAME' -> (pinned source text, model value or factory) for module-level constants that are not literals
        self.module_constants = {}

    def add(self, c: Contract):
        self.contracts[c.qualname] = c
        return c

    def get(self, qualname) -> Optional[Contract]:
        return self.contracts.get(qualname)

    def add_lemma(self, lem):
        self.lemmas[lem.name] = lem
        return lem


class Lemma:
    """A named fact proved once by the solver from explicit hypotheses (optionally by induction: base + step),
    usable afterwards as an instantiable schema.  `prove()` returns obligations.

    make(): callable returning (hyps: list, goal) built from fresh constants -- direct proof.
    For induction supply base() and step() separately; step() includes the induction hypothesis among hyps."""

    def __init__(self, name, direct=None, base=None, step=None, doc='', properties=()):
        self.name, self.direct, self.base, self.step, self.doc = name, direct, base, step, doc
        self.properties = tuple(properties)

    def obligations(self):
        from .smt import Obligation
        out = []
        smt.reset_fresh()
        import z3 as _z3
        for tag, mk in (('', self.direct), ('.base', self.base), ('.step', self.step)):
            if mk is None:
                continue
            hy, goal = mk()
            out.append(Obligation(f'lemma::{self.name}{tag}', list(hy), goal))
            # vacuity guard: the hypotheses of a lemma must be satisfiable
            out.append(Obligation(f'lemma::cover.{self.name}{tag}', list(hy), _z3.BoolVal(True), expect='sat'))
        return out


class DictOf(Spec):
    """concrete-shape dict with spec'd leaves (e.g. **kwargs)"""

    def __init__(self, shape: dict):
        self.shape = shape

    def make(self, name, ctx):
        out = {}
        for k, sp in self.shape.items():
            out[k] = sp.make(f'{name}.{k}', ctx) if isinstance(sp, Spec) else sp
        return out

    def sample(self, rng):
        from .crosscheck import sample
        return {k: (sample(sp, rng) if isinstance(sp, Spec) else sp) for k, sp in self.shape.items()}

    def describe(self):
        return 'dict{' + ', '.join(f'{k}: {sp.describe() if isinstance(sp, Spec) else sp!r}' for k, sp in self.shape.items()) + '}'
