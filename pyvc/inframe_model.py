"""pyvc.inframe_model -- abstract *input* frame for the screening function (C15): which columns exist, whether their dtypes
are the required ones, raw and coerced values, number of rows.  Assumed pandas contracts (label B conformance):
deepcopy, len, columns membership / iteration, dtype comparison, astype (values become coerced values), drop(col, axis=1,
inplace=True), duplicated().any(), boolean row selection + column list, inner merge on keys, to_string."""
from __future__ import annotations
import itertools

import z3

from . import smt
from .smt import lift, fresh, fresh_int, fresh_bool
from .values import SInt, SBool, Model, Opaque, Unsupported, HardUnsupported, to_bool_term, to_int_term
from .lib import LIB, LIB_DOC

REQ = ('ceilo', 'dt', 'height', 'type')
Val = z3.DeclareSort('CellValue')            # cell values of any dtype (equality is all the screening needs)
coerce = {c: z3.Function(f'coerce_{c}', Val, Val) for c in REQ}      # astype(required dtype) on one value
as_type = z3.Function('type_as_int', Val, z3.IntSort())               # the integer a (coerced) type cell denotes

LIB_DOC['pandas (input frame)'] = ('deepcopy = independent copy; col in df.columns; df[col].dtype != required; df[col] = df[col].astype(t) makes '
                                   'the dtype t and maps every value v to astype(v); df.drop(col, axis=1, inplace=True) removes the column; '
                                   'df.duplicated().any() iff two rows are equal in every column; dets.merge(nodets, how="inner", on=keys) is '
                                   'non-empty iff a row of each side agree on the keys')


class DType:
    def __init__(self, col):
        self.col = col


class SInFrame(Model):
    pytype = 'DataFrame'
    _n = itertools.count()

    def __init__(self, n, present: list, extra: bool, ok: dict, raw: dict, raw_extra, name='in'):
        self.n = n
        self.present = list(present)          # required columns present (concrete, in frame order)
        self.extra = extra                    # one superfluous column present
        self.ok = dict(ok)                    # col -> z3 Bool: dtype already the required one
        self.cur = dict(raw)                  # col -> z3 array (row -> Val): current values
        self.raw = dict(raw)
        self.raw_extra = raw_extra
        self.coerced = {c: False for c in raw}
        self.writes = 0
        self.is_copy = False

    def clone(self):
        c = SInFrame(self.n, self.present, self.extra, self.ok, self.cur, self.raw_extra)
        c.raw = dict(self.raw)
        c.coerced = dict(self.coerced)
        c.is_copy = True
        c.origin = self
        return c

    def columns_now(self):
        return list(self.present) + (['EXTRA'] if self.extra else [])

    def sym_len(self, ctx):
        return SInt(self.n)

    def sym_getattr(self, ctx, name):
        if name == 'columns':
            return _InCols(self)
        if name in ('loc', 'iloc', 'at', 'iat'):
            return _InIndexer(self, name)
        if name == 'values':
            return Opaque('skel')
        return super().sym_getattr(ctx, name)

    def sym_getitem(self, ctx, idx):
        if isinstance(idx, str):
            if idx not in self.columns_now():
                from .engine import PyRaise
                raise PyRaise('KeyError', idx)
            return _InCol(self, idx)
        if isinstance(idx, _RowMask):
            return _RowSel(self, idx)
        if isinstance(idx, _Dup):
            return Opaque('duplicated rows')
        return Opaque('skel')

    def sym_setitem(self, ctx, idx, val):
        if isinstance(idx, str) and isinstance(val, _Coerced) and val.col == idx and val.frame is self:
            self.writes += 1
            f = coerce[idx]
            old = self.cur[idx]
            new = fresh(f'coerced_{idx}', z3.ArraySort(z3.IntSort(), Val))
            # astype on a column that already has the dtype is the identity
            ctx.assume(smt.Forall(0, self.n, lambda i: new[i] == f(old[i]), name='co'))
            self.cur[idx] = new
            self.ok[idx] = z3.BoolVal(True)
            self.coerced[idx] = True
            return
        raise HardUnsupported('assignment into the input frame')

    def m_drop(self, ctx, key, axis=0, inplace=False, **kw):
        if axis != 1 or inplace is not True or kw:
            raise HardUnsupported('drop shape')
        self.writes += 1
        if key == 'EXTRA':
            self.extra = False
        elif key in self.present:
            self.present.remove(key)
        return None

    def m_duplicated(self, ctx):
        return _Dup(self, list(self.columns_now()), dict(self.cur))

    def rows_equal(self, cols, cur, i, k):
        eqs = []
        for c in cols:
            a = self.raw_extra if c == 'EXTRA' else cur[c]
            eqs.append(a[i] == a[k])
        return z3.And(*eqs) if eqs else z3.BoolVal(True)


class _InIndexer(Model):
    """frame.loc / .iloc / .at / .iat of the input frame: reads are opaque (skeleton mode), a *store* changes cell values the
    postcondition speaks about and is not modelled -- fail closed"""

    def __init__(self, fr, kind):
        self.fr, self.kind = fr, kind

    def sym_getitem(self, ctx, idx):
        return Opaque('skel')

    def sym_setitem(self, ctx, idx, val):
        raise HardUnsupported(f'assignment through .{self.kind}[...] into the (copy of the) input frame')


class _InCols(Model):
    sym_iter_ok = True

    def __init__(self, fr):
        self.fr = fr

    def sym_contains(self, ctx, name):
        return name in self.fr.columns_now()

    def sym_iter(self, ctx):
        return ('concrete', list(self.fr.columns_now()))


class _InCol(Model):
    def __init__(self, fr, col):
        self.fr, self.col = fr, col

    def sym_getattr(self, ctx, name):
        if name == 'dtype':
            return _DtypeOf(self.fr, self.col)
        if name == 'astype':
            from .values import BoundModelMethod
            return BoundModelMethod(self, 'astype', self.m_astype)
        return Opaque('skel')

    def m_astype(self, ctx, t):
        if not isinstance(t, DType) or t.col != self.col:
            raise HardUnsupported('astype to another dtype than the required one')
        return _Coerced(self.fr, self.col)

    def sym_compare(self, ctx, op, other, reflected):
        if self.col == 'type' and op in ('Eq', 'NotEq') and isinstance(other, int):
            return _RowMask(self.fr, 'type', other, op == 'Eq', self.fr.cur['type'])
        return Opaque('skel')


class _Coerced:
    def __init__(self, frame, col):
        self.frame, self.col = frame, col


class _DtypeOf(Model):
    def __init__(self, fr, col):
        self.fr, self.col = fr, col

    def sym_compare(self, ctx, op, other, reflected):
        if isinstance(other, DType) and other.col == self.col and op in ('Eq', 'NotEq'):
            t = self.fr.ok[self.col]
            return SBool(t if op == 'Eq' else z3.Not(t))
        raise Unsupported('dtype comparison')


class _RowMask(Model):
    def __init__(self, fr, col, value, eq, arr):
        self.fr, self.col, self.value, self.eq, self.arr = fr, col, value, eq, arr

    def holds(self, i):
        t = as_type(self.arr[i]) == self.value
        return t if self.eq else z3.Not(t)


def index_level_named_like_a_key(ctx):
    """ghost Bool of the run: some level of the *caller's* index is named like a merge key ('dt' / 'ceilo') -- a legal frame (e.g.
    df.set_index('dt', drop=False)); pandas then refuses `merge(on=[...])` with ValueError (ambiguous key)"""
    g = ctx.ghost
    if 'index_level_named_like_a_key' not in g:
        g['index_level_named_like_a_key'] = z3.Bool('index_level_named_like_a_key')
        ctx.extractors['index_level_named_like_a_key'] = lambda m: z3.is_true(m.eval(g['index_level_named_like_a_key'], model_completion=True))
    return g['index_level_named_like_a_key']


class _RowSel(Model):
    def __init__(self, fr, mask, cols=None, user_index=True):
        self.fr, self.mask, self.cols = fr, mask, cols
        self.cur = dict(fr.cur)
        self.user_index = user_index          # the selection still carries the caller's index (labels and level names)

    def sym_getitem(self, ctx, idx):
        if isinstance(idx, list) and all(isinstance(c, str) for c in idx):
            return _RowSel(self.fr, self.mask, list(idx), self.user_index)
        return Opaque('skel')

    def m_reset_index(self, ctx, drop=False, **kw):
        if drop is not True or kw:
            raise HardUnsupported('reset_index shape')
        # same rows, same values, in the same order, under a fresh unnamed RangeIndex
        return _RowSel(self.fr, self.mask, self.cols, user_index=False)

    def m_merge(self, ctx, other, how=None, on=None, **kw):
        if how != 'inner' or not isinstance(other, _RowSel) or other.fr is not self.fr or not isinstance(on, list) or kw:
            raise HardUnsupported('merge shape')
        if self.user_index or other.user_index:
            # pandas: a key that is both a column and an index level is ambiguous -> ValueError
            ctx.safe('merge_keys_unambiguous', z3.Not(index_level_named_like_a_key(ctx)), exc='ValueError')
        return _Merged(self, other, list(on))


class _Merged(Model):
    def __init__(self, a, b, on):
        self.a, self.b, self.on = a, b, on

    def sym_len(self, ctx):
        fr = self.a.fr
        L = fresh_int('merged_len')
        w1, w2 = fresh_int('mw'), fresh_int('mw')
        n = fr.n

        def pair(i, k):
            return z3.And(self.a.mask.holds(i), self.b.mask.holds(k), *[self.a.cur[c][i] == self.b.cur[c][k] for c in self.on])
        ctx.assume(L >= 0)
        ctx.assume(z3.Implies(L > 0, z3.And(w1 >= 0, w1 < n, w2 >= 0, w2 < n, pair(w1, w2))))
        ctx.assume(smt.Forall(0, n, lambda i, k: z3.Implies(L == 0, z3.And(z3.Not(pair(i, k)), z3.Not(pair(k, i)))), arity=2, name='mg'))
        ctx.hint_pair(w1, w2)
        ctx.ghost.setdefault('merges', []).append((self, L))
        return SInt(L)

    def m_to_string(self, ctx, **kw):
        return Opaque('text')


class _Dup(Model):
    def __init__(self, fr, cols, cur):
        self.fr, self.cols, self.cur = fr, cols, cur

    def m_any(self, ctx):
        fr = self.fr
        b = fresh_bool('dup')
        w1, w2 = fresh_int('dw'), fresh_int('dw')
        n = fr.n
        ctx.assume(z3.Implies(b, z3.And(0 <= w1, w1 < w2, w2 < n, fr.rows_equal(self.cols, self.cur, w1, w2))))
        ctx.assume(smt.Forall(0, n, lambda i, k: z3.Implies(z3.And(z3.Not(b), i < k), z3.Not(fr.rows_equal(self.cols, self.cur, i, k))), arity=2, name='du'))
        ctx.hint_pair(w1, w2)
        ctx.ghost.setdefault('dup_checks', []).append((self, b))
        return SBool(b)


def _deepcopy(interp, args, kwargs):
    (x,) = args
    if isinstance(x, SInFrame):
        return x.clone()
    if isinstance(x, Opaque):
        return x
    raise Unsupported('deepcopy of this value')


LIB['copy.deepcopy'] = _deepcopy
LIB_DOC['copy.deepcopy'] = 'copy.deepcopy(x): an independent copy (writes to it never reach x)'


def _warn(interp, args, kwargs):
    msg = args[0] if args else None
    cat = args[1] if len(args) > 1 else kwargs.get('category')
    tag = msg.what if isinstance(msg, Opaque) else (str(msg)[:40] if isinstance(msg, str) else 'warning')
    interp.ctx.effect('WARN', tag, getattr(cat, 'name', str(cat)))
    return None


LIB['warnings.warn'] = _warn
LIB_DOC['warnings.warn'] = 'warnings.warn(msg, category): issues a warning (ghost WARN); no other effect'
