"""pyvc.verify -- explore all paths of a function under its contract, emit and discharge obligations."""
from __future__ import annotations
import time
import traceback
from dataclasses import dataclass, field
from typing import Any, Optional

import z3

from . import smt, source
from .smt import Obligation, Verdict
from .engine import Ctx, Interp, PyRaise, PathEnd, ReturnSig, Dropped, short
from .values import Unsupported, raw, SList, Model
from .contracts import Contract, Registry, _as_dict


@dataclass
class PathSummary:
    case: str
    path: str
    hyps: list
    args: dict            # name -> executor-level value at entry
    outcome: tuple        # ('return', value) | ('raise', exc) | ('cut', why)
    extractors: dict
    ctx: Any = None


@dataclass
class FunctionReport:
    qualname: str
    file: str = ''
    sha256: str = ''
    lines: tuple = (0, 0)
    mode: str = 'P'
    obligations: list = field(default_factory=list)
    verdicts: list = field(default_factory=list)
    undecided: list = field(default_factory=list)     # reasons (unsupported nodes)
    paths: int = 0
    summaries: list = field(default_factory=list)
    dropped: Dropped = field(default_factory=Dropped)
    seconds: float = 0.0
    interpreted: set = field(default_factory=set)

    def by_name(self):
        """aggregate verdicts per obligation name"""
        agg = {}
        for v in self.verdicts:
            agg.setdefault(v.name, []).append(v)
        out = {}
        for name, vs in agg.items():
            if vs[0].expect == 'sat':     # canary / cover: one satisfiable instance suffices
                if any(v.status == 'discharged' for v in vs):
                    out[name] = 'discharged'
                elif all(v.status == 'refuted' for v in vs):
                    out[name] = 'refuted'
                else:
                    out[name] = 'unknown'
            else:
                if any(v.status == 'refuted' for v in vs):
                    out[name] = 'refuted'
                elif all(v.status == 'discharged' for v in vs):
                    out[name] = 'discharged'
                else:
                    out[name] = 'unknown'
        return out


class Explorer:
    def __init__(self, registry: Registry, lib: dict, branch_timeout_ms=3000, max_paths=400):
        self.reg = registry
        self.lib = lib
        self.branch_timeout_ms = branch_timeout_ms
        self.max_paths = max_paths
        self._queue = []

    def queue(self, prefix):
        self._queue.append(list(prefix))

    def explore(self, qualname, contract: Optional[Contract] = None) -> FunctionReport:
        t0 = time.time()
        con = contract or self.reg.get(qualname)
        if con is None:
            raise KeyError(f'no contract for {qualname}')
        fi = source.find_function(qualname)
        mi = source.load_module(fi.module)
        rep = FunctionReport(qualname, fi.file, mi.sha256, fi.lines)
        for label, overrides in con.cases:
            self._queue = [[]]
            while self._queue:
                prefix = self._queue.pop()
                rep.paths += 1
                if rep.paths > self.max_paths:
                    rep.undecided.append(f'path budget {self.max_paths} exceeded')
                    self._queue = []
                    break
                self._run_path(fi, con, label, overrides, prefix, rep)
        rep.seconds = time.time() - t0
        return rep

    def _run_path(self, fi, con: Contract, label, overrides, prefix, rep: FunctionReport):
        smt.reset_fresh()
        ctx = Ctx(self, prefix)
        ctx.fn_stack.append(fi.qualname)
        specs = dict(con.params)
        specs.update(overrides)
        args = {}
        try:
            for pname, spec in specs.items():
                args[pname] = spec.make(pname, ctx)
            if getattr(con, 'globals_spec', None):
                ctx.ghost['globals'] = {k: sp.make(k, ctx) for k, sp in con.globals_spec.items()}
                ctx.ghost['globals_at_entry'] = dict(ctx.ghost['globals'])
            old = {k: (v.copy() if isinstance(v, SList) else v) for k, v in args.items()}
            oldview = {k: raw(v) for k, v in old.items()}
            from .values import pytype_tag
            tys = {k: (pytype_tag(v) if not isinstance(v, Model) else getattr(v, 'pytype', type(v).__name__)) for k, v in old.items()}
            smt.CURRENT_CTX = ctx
            if con.requires is not None:
                ctx.assume(list(_as_dict(con.call(con.requires, oldview, tys)).values()))
            if getattr(con, 'decreases', None) is not None:
                ctx.ghost['measure_at_entry'] = con.call(con.decreases, oldview, tys)
            interp = Interp(ctx, self.reg, self.lib)
            interp.skeleton = bool(getattr(con, 'skeleton', False))
            try:
                call_kw = dict(args)
                kwname = fi.node.args.kwarg.arg if fi.node.args.kwarg is not None else None
                if kwname is not None and isinstance(call_kw.get(kwname), dict):
                    # a spec'd **kwargs parameter is passed as keyword arguments
                    extra_kw = call_kw.pop(kwname)
                    call_kw.update(extra_kw)
                env = interp.bind_args(fi, [], call_kw)
                res = interp.run_function(fi, env, con)
                outcome = ('return', res)
            except PyRaise as r:
                outcome = ('raise', r.exc, r.where)
            except PathEnd as pe:
                outcome = ('cut', pe.why)
            finally:
                rep.dropped.add(interp.dropped)
                rep.interpreted |= interp.interpreted
        except Unsupported as u:
            rep.undecided.append(f'[{label}] path {ctx.path_id()}: {u}')
            rep.obligations.extend(ctx.obligations)
            return
        pid = (f'{label}:' if label else '') + ctx.path_id()
        if outcome[0] == 'return':
            resv = raw(outcome[1])
            for exc, condf in con.raises.items():
                c_ = con.call(condf, oldview, tys)
                if isinstance(c_, str) and c_ == 'maybe':
                    continue
                ctx.oblige(f'exc.{exc}.if', smt.Not(c_))
            if con.ensures is not None:
                hints = con.call(con.hints, oldview, tys, resv) if con.hints else []
                for cname, f in _as_dict(con.call(con.ensures, oldview, tys, resv)).items():
                    ctx.oblige(f'post.{cname}', f, extra_terms=hints)
            for cname, f in con.canaries.items():
                g = con.call(f, oldview, tys, resv)
                if isinstance(g, smt.ForallKey):
                    kk = smt.fresh('wkey', z3.StringSort())
                    ctx.oblige(f'canary.{cname}', z3.Not(smt._b(g.body(kk))), expect='sat', extra_terms=[kk])
                elif isinstance(g, smt.Forall):
                    j = smt.fresh_int('w')
                    gg = z3.And(smt.lift(g.lo) <= j, j < smt.lift(g.hi), z3.Not(smt._b(g.body(j))))
                    ctx.oblige(f'canary.{cname}', gg, expect='sat', extra_terms=[j])
                else:
                    ctx.oblige(f'canary.{cname}', smt.Not(g), expect='sat')
            ctx.oblige(f'cover.return', z3.BoolVal(True), expect='sat')
        elif outcome[0] == 'raise':
            exc = outcome[1]
            if exc in con.raises:
                c_ = con.call(con.raises[exc], oldview, tys)
                ctx.oblige(f'exc.{exc}.only_if', True if (isinstance(c_, str) and c_ == 'maybe') else c_)
                ctx.oblige(f'cover.raise.{exc}', z3.BoolVal(True), expect='sat')
                if exc in con.exc_ensures:
                    for cname, f in _as_dict(con.call(con.exc_ensures[exc], oldview, tys)).items():
                        ctx.oblige(f'post@raise.{exc}.{cname}', f)
            else:
                # an exception the contract does not allow: the path must be infeasible
                ctx.oblige(f'exc.unexpected.{exc}', z3.BoolVal(False))
        for ob in ctx.obligations:
            ob.path = pid
        rep.obligations.extend(ctx.obligations)
        rep.summaries.append(PathSummary(label, pid, ctx.hyps(), old, outcome, dict(ctx.extractors), ctx))


def discharge_all(rep: FunctionReport, timeout_ms=10000) -> None:
    for ob in rep.obligations:
        v = smt.discharge_with_extract(ob, timeout_ms)
        rep.verdicts.append(v)
