"""pyvc.typestate -- abstract chunk for the skeleton mode (C14): only the *typestate* and ghost write-versions are tracked.

Typestate of a chunk: which id columns the private hit table carries, which of the three tables exist.  Every write to
an id column / to a table cell / a table (re)binding bumps a ghost version, so "a refused call leaves everything intact"
is `versions at the exceptional exit == versions at entry`.  All other values are opaque (their content is the subject
of the other properties).
"""
from __future__ import annotations

from .values import Model, Opaque, HardUnsupported, Unsupported
from .pandas_model import SChunk


class Versions:
    def __init__(self):
        self.v = {}

    def bump(self, key):
        self.v[key] = self.v.get(key, 0) + 1

    def snapshot(self):
        return dict(self.v)


class _Indexer(Model):
    """X.loc / X.iloc / X.at : reads are opaque, writes are delegated to the owner"""
    sym_iter_ok = False

    def __init__(self, owner, how):
        self.owner, self.how = owner, how

    def sym_getitem(self, ctx, idx):
        return Opaque('skel')

    def sym_setitem(self, ctx, idx, val):
        col = None
        if isinstance(idx, tuple) and len(idx) == 2:
            c = idx[1]
            if isinstance(c, str):
                col = c
            elif isinstance(c, list) and len(c) == 1 and isinstance(c[0], str):
                col = c[0]
            elif hasattr(c, 'name'):        # ColRef from columns.get_loc
                col = c.name
        self.owner.written(ctx, col)


class _Cols(Model):
    def __init__(self, owner):
        self.owner = owner

    def sym_contains(self, ctx, name):
        if not isinstance(name, str):
            raise HardUnsupported('column membership of a non-literal name')
        return name in self.owner.columns

    def m_get_loc(self, ctx, name):
        from .pandas_model import ColRef
        return ColRef(name) if isinstance(name, str) else Opaque('skel')


class SDataT(Model):
    """the private hit table: input columns + whichever id columns have been created"""
    pytype = 'DataFrame'

    def __init__(self, versions: Versions, id_cols=()):
        self.versions = versions
        self.columns = {'ceilo', 'dt', 'height', 'type'} | set(id_cols)

    def written(self, ctx, col):
        if col is None:
            raise HardUnsupported('write to the hit table through a non-literal column')
        self.columns.add(col)
        self.versions.bump('data.' + col)

    def sym_getattr(self, ctx, name):
        if name in ('loc', 'iloc', 'at', 'iat'):
            return _Indexer(self, name)
        if name == 'columns':
            return _Cols(self)
        return Opaque('skel')          # any other attribute / method: read-only view (A-LIBPURE), result opaque

    def sym_getitem(self, ctx, idx):
        return Opaque('skel')

    def sym_setitem(self, ctx, idx, val):
        self.written(ctx, idx if isinstance(idx, str) else None)

    def sym_len(self, ctx):
        return Opaque('skel')


class STab(Model):
    """one of the slices / groups / layers tables"""
    pytype = 'DataFrame'

    def __init__(self, versions: Versions, which):
        self.versions, self.which = versions, which

    def written(self, ctx, col):
        self.versions.bump('table.' + self.which)

    def sym_getattr(self, ctx, name):
        if name in ('loc', 'iloc', 'at', 'iat'):
            return _Indexer(self, name)
        if name == 'columns':
            return Opaque('skel')
        return Opaque('skel')

    def sym_getitem(self, ctx, idx):
        return Opaque('skel')

    def sym_setitem(self, ctx, idx, val):
        self.written(ctx, None)

    def sym_len(self, ctx):
        return Opaque('skel')


class SChunkT(SChunk):
    """abstract chunk: fields _data (SDataT), _slices/_groups/_layers (None | STab), _prms (opaque dict)"""

    def __init__(self, cls_qualname, state: dict):
        self.versions = Versions()
        fields = {'_data': SDataT(self.versions, state.get('id_cols', ())),
                  '_prms': _OpaqueDict(), '_clouds_above_msa_buffer': Opaque('flag'),
                  '_geoloc': None, '_ref_dt': None}
        for w in ('slices', 'groups', 'layers'):
            fields['_' + w] = STab(self.versions, w) if state.get(w) else None
        super().__init__(cls_qualname, fields, {'nonempty': dict(state.get('nonempty', {}))})
        self.state0 = dict(state)

    def sym_setattr(self, ctx, name, val):
        key = {'_slices': 'table.slices', '_groups': 'table.groups', '_layers': 'table.layers', '_data': 'data.*', '_prms': 'prms'}.get(name)
        if key is None:
            # any other attribute of the chunk (e.g. the high-cloud flag, fixed at construction): a write is tracked like every
            # other write, so "a query / a refused call changes nothing" fails on it instead of leaving the check undecided
            self.versions.bump('field.' + name)
            self.fields[name] = val
            return
        self.versions.bump(key)
        if name in ('_slices', '_groups', '_layers'):
            val = STab(self.versions, name[1:]) if val is not None else None
        self.fields[name] = val

    def typestate(self):
        return {'id_cols': sorted(c for c in self.fields['_data'].columns if c.endswith('_id')),
                'slices': self.fields['_slices'] is not None, 'groups': self.fields['_groups'] is not None,
                'layers': self.fields['_layers'] is not None}


class _OpaqueDict(Model):
    """the parameter snapshot: reads are opaque (documented-meaning values), writes are forbidden"""

    def sym_getitem(self, ctx, idx):
        return _OpaqueDict() if idx in ('SLICING_PRMS', 'GROUPING_PRMS', 'LAYERING_PRMS', 'LOWESS') else Opaque('prm')

    def sym_setitem(self, ctx, idx, val):
        raise HardUnsupported('write into the parameter snapshot')

    def sym_truth(self, ctx):
        return True
