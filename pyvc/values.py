"""pyvc.values -- symbolic value domain of the executor.

Concrete Python values stay concrete Python objects as long as possible.  Symbolic scalars carry the *Python type
tag* (`ty`), because the code under verification branches on `isinstance`:
    'int' 'bool' 'float' 'str'            builtin types
    'npint' 'npfloat' 'npbool'            numpy scalars (np.float64 IS a float subclass, np.int64 is NOT an int)
Floats are mathematical reals plus a NaN flag (assumption A-REAL); symbolic floats are never infinite, concrete
+-inf is supported in comparisons only.
"""
from __future__ import annotations
import math
from fractions import Fraction
from typing import Any, Callable, Optional

import z3

from . import smt
from .smt import lift, fresh, fresh_int, fresh_real, fresh_bool


class Unsupported(Exception):
    """The executor met something it has no model for: the *function* becomes UNDECIDED (fail closed)."""


class HardUnsupported(Unsupported):
    """as Unsupported, but never absorbed by the skeleton mode (the construct may hide an effect on tracked state)"""


# ---------------------------------------------------------------------------------------------
# scalars
# ---------------------------------------------------------------------------------------------

class Sym:
    ty = '?'


class SInt(Sym):
    def __init__(self, t, ty='int'):
        self.t = lift(t) if not z3.is_expr(t) else t
        self.ty = ty

    def __repr__(self):
        return f'SInt<{self.ty}>({self.t})'


class SBool(Sym):
    def __init__(self, t, ty='bool'):
        self.t = lift(t) if not z3.is_expr(t) else t
        self.ty = ty

    def __repr__(self):
        return f'SBool({self.t})'


class SFloat(Sym):
    def __init__(self, v, nan=False, ty='float'):
        self.v = lift(v, z3.RealSort())
        self.nan = lift(nan) if not z3.is_expr(nan) else nan
        self.ty = ty

    def __repr__(self):
        return f'SFloat<{self.ty}>(nan={self.nan}, v={self.v})'


class SStr(Sym):
    ty = 'str'

    def __init__(self, t):
        self.t = lift(t) if not z3.is_expr(t) else t

    def __repr__(self):
        return f'SStr({self.t})'


class Opaque:
    """A value the executor does not interpret (log/exception message text, logger objects...).
    Any semantic use raises Unsupported."""

    def __init__(self, what='opaque'):
        self.what = what

    def __repr__(self):
        return f'Opaque({self.what})'


class OpaqueSeq(Opaque):
    """an opaque sequence of which only emptiness is known (True / False / None = unknown)"""

    def __init__(self, nonempty=None, what='opaque sequence'):
        super().__init__(what)
        self.nonempty = nonempty


def is_concrete(v) -> bool:
    if isinstance(v, (Sym, Model, Opaque)):
        return False
    if isinstance(v, (list, tuple)):
        return all(is_concrete(x) for x in v)
    if isinstance(v, dict):
        return all(is_concrete(x) for x in v.values())
    return True


def pytype_tag(v) -> str:
    import numpy as np
    if isinstance(v, Sym):
        return v.ty
    if isinstance(v, bool):
        return 'bool'
    if isinstance(v, int):
        return 'int'
    if isinstance(v, np.floating):
        return 'npfloat'
    if isinstance(v, float):
        return 'float'
    if isinstance(v, np.integer):
        return 'npint'
    if isinstance(v, np.bool_):
        return 'npbool'
    if isinstance(v, str):
        return 'str'
    if v is None:
        return 'none'
    return type(v).__name__


def is_numlike(v):
    import numpy as np
    return isinstance(v, (SInt, SFloat, SBool, int, float, bool, np.integer, np.floating, np.bool_))


def to_real_parts(v):
    """-> (nan: z3 Bool, val: z3 Real) of a numeric executor value (ints/bools are exact reals)."""
    import numpy as np
    if isinstance(v, SFloat):
        return v.nan, v.v
    if isinstance(v, SInt):
        return z3.BoolVal(False), z3.ToReal(v.t)
    if isinstance(v, SBool):
        return z3.BoolVal(False), z3.If(v.t, z3.RealVal(1), z3.RealVal(0))
    if isinstance(v, (bool, np.bool_)):
        return z3.BoolVal(False), z3.RealVal(1 if v else 0)
    if isinstance(v, (int, np.integer)):
        return z3.BoolVal(False), z3.RealVal(int(v))
    if isinstance(v, (float, np.floating)):
        v = float(v)
        if math.isnan(v):
            return z3.BoolVal(True), z3.RealVal(0)
        if math.isinf(v):
            raise Unsupported('infinite float in arithmetic')
        return z3.BoolVal(False), lift(v, z3.RealSort())
    raise Unsupported(f'not numeric: {v!r}')


def to_int_term(v):
    import numpy as np
    if isinstance(v, SInt):
        return v.t
    if isinstance(v, SBool):
        return z3.If(v.t, z3.IntVal(1), z3.IntVal(0))
    if isinstance(v, (bool, np.bool_)):
        return z3.IntVal(1 if v else 0)
    if isinstance(v, (int, np.integer)):
        return z3.IntVal(int(v))
    raise Unsupported(f'not an int: {v!r}')


def is_intlike(v):
    import numpy as np
    return isinstance(v, (SInt, SBool, int, bool, np.integer, np.bool_)) and not isinstance(v, float)


def is_floatlike(v):
    import numpy as np
    return isinstance(v, (SFloat, float, np.floating))


def to_bool_term(v):
    import numpy as np
    if isinstance(v, SBool):
        return v.t
    if isinstance(v, (bool, np.bool_)):
        return z3.BoolVal(bool(v))
    if isinstance(v, SInt):
        return v.t != 0
    if isinstance(v, (int, np.integer)):
        return z3.BoolVal(int(v) != 0)
    if isinstance(v, SFloat):
        return z3.Or(v.nan, v.v != 0)
    if isinstance(v, (float, np.floating)):
        return z3.BoolVal(bool(v))
    raise Unsupported(f'no truth value model for {v!r}')


def real_floor(x):
    """floor of a z3 Real as z3 Int (z3's ToInt is floor)."""
    return z3.ToInt(x)


def real_ceil(x):
    return -z3.ToInt(-x)


def real_round_half_even(x):
    """np.round / Python round(): nearest integer, ties to even."""
    f = z3.ToInt(x)
    d = x - z3.ToReal(f)
    half = z3.RealVal(1) / 2
    return z3.If(d < half, f, z3.If(d > half, f + 1, z3.If(f % 2 == 0, f, f + 1)))


def ite_val(c, a, b):
    """executor-level if-then-else merging two values of compatible kinds."""
    if isinstance(c, bool):
        return a if c else b
    if a is b:
        return a
    if is_floatlike(a) or is_floatlike(b):
        if not (is_numlike(a) and is_numlike(b)):
            raise Unsupported(f'ite over {a!r} / {b!r}')
        na, va = to_real_parts(a)
        nb, vb = to_real_parts(b)
        ty = a.ty if isinstance(a, SFloat) else (b.ty if isinstance(b, SFloat) else 'float')
        return SFloat(z3.If(c, va, vb), z3.If(c, na, nb), ty)
    if isinstance(a, (SBool, bool)) and isinstance(b, (SBool, bool)):
        return SBool(z3.If(c, to_bool_term(a), to_bool_term(b)))
    if is_intlike(a) and is_intlike(b):
        ty = a.ty if isinstance(a, SInt) else (b.ty if isinstance(b, SInt) else 'int')
        return SInt(z3.If(c, to_int_term(a), to_int_term(b)), ty)
    if isinstance(a, (SStr, str)) and isinstance(b, (SStr, str)):
        return SStr(z3.If(c, str_term(a), str_term(b)))
    raise Unsupported(f'ite over {a!r} / {b!r}')


def str_term(v):
    if isinstance(v, SStr):
        return v.t
    if isinstance(v, str):
        return z3.StringVal(v)
    raise Unsupported(f'not a str: {v!r}')


def raw(v):
    """contract-level view of an executor value: raw z3 terms for int/bool/str scalars, objects otherwise."""
    if isinstance(v, (SInt, SBool, SStr)):
        return v.t
    return v


# ---------------------------------------------------------------------------------------------
# model objects (mutable symbolic containers / library objects)
# ---------------------------------------------------------------------------------------------

class Model:
    """Base class of symbolic objects.  Hooks default to Unsupported (fail closed)."""

    def sym_getattr(self, ctx, name):
        m = getattr(self, 'm_' + name, None)
        if m is not None:
            used = getattr(ctx, 'used_model_ops', None)
            if used is not None:
                used.add(f'{getattr(self, "pytype", type(self).__name__)}.{name}')
            return BoundModelMethod(self, name, m)
        a = getattr(self, 'a_' + name, None)
        if a is not None:
            return a(ctx)
        raise Unsupported(f'{type(self).__name__}.{name}')

    def sym_setattr(self, ctx, name, val):
        raise Unsupported(f'setattr {type(self).__name__}.{name}')

    def sym_getitem(self, ctx, idx):
        raise Unsupported(f'{type(self).__name__}[...]')

    def sym_setitem(self, ctx, idx, val):
        raise Unsupported(f'{type(self).__name__}[...] = ...')

    def sym_binop(self, ctx, op, other, reflected):
        raise Unsupported(f'{type(self).__name__} binop {op}')

    def sym_compare(self, ctx, op, other, reflected):
        raise Unsupported(f'{type(self).__name__} compare {op}')

    def sym_unary(self, ctx, op):
        raise Unsupported(f'{type(self).__name__} unary {op}')

    def sym_truth(self, ctx):
        raise Unsupported(f'truth of {type(self).__name__}')

    def sym_len(self, ctx):
        raise Unsupported(f'len of {type(self).__name__}')

    def sym_iter(self, ctx):
        raise Unsupported(f'iter over {type(self).__name__}')

    def sym_call(self, ctx, args, kwargs):
        raise Unsupported(f'call of {type(self).__name__}')

    def havoc(self, ctx):
        raise Unsupported(f'havoc of {type(self).__name__}')


class BoundModelMethod:
    def __init__(self, obj, name, fn):
        self.obj, self.name, self.fn = obj, name, fn

    def __call__(self, ctx, args, kwargs):
        return self.fn(ctx, *args, **kwargs)

    def __repr__(self):
        return f'<method {type(self.obj).__name__}.{self.name}>'


ELEM_SORT = {'int': z3.IntSort, 'bool': z3.BoolSort, 'str': z3.StringSort, 'real': z3.RealSort}

BoolArr = z3.ArraySort(z3.IntSort(), z3.BoolSort())
#: cnt(a, k) = number of True among a[0..k)  -- uninterpreted; its defining equations are instantiated by hand
cnt = z3.Function('cnt', BoolArr, z3.IntSort(), z3.IntSort())


def cnt_def(arr, m):
    """One unfolding of the recursive definition of cnt at m (an instance of the definition, always sound)."""
    return z3.And(cnt(arr, 0) == 0,
                  z3.Implies(m >= 0, cnt(arr, m + 1) == cnt(arr, m) + z3.If(arr[m], 1, 0)),
                  z3.Implies(m >= 0, cnt(arr, m) >= 0))


class SList(Model):
    """A Python list with symbolic length: elements of one scalar kind held in a z3 array.
    kind: 'int' | 'bool' | 'str' | 'float' (float = two arrays: nan flags + real values)."""

    def __iter__(self):
        raise TypeError('symbolic sequence is not iterable natively')

    def __init__(self, kind, length, arr=None, nanarr=None, elem_ty=None, name='l'):
        self.kind = kind
        self.len = lift(length)
        self.elem_ty = elem_ty or kind
        if kind == 'float':
            self.arr = arr if arr is not None else fresh(name, z3.ArraySort(z3.IntSort(), z3.RealSort()))
            self.nanarr = nanarr if nanarr is not None else fresh(name + '_nan', BoolArr)
        else:
            self.arr = arr if arr is not None else fresh(name, z3.ArraySort(z3.IntSort(), ELEM_SORT[kind]()))
            self.nanarr = None

    # -- contract-level ---------------------------------------------------------------------
    def __getitem__(self, j):
        """raw term of element j (contract level)."""
        j = lift(j)
        if self.kind == 'float':
            return SFloat(self.arr[j], self.nanarr[j], self.elem_ty)
        return self.arr[j]

    def elem(self, j):
        j = lift(j)
        if self.kind == 'int':
            return SInt(self.arr[j], self.elem_ty)
        if self.kind == 'bool':
            return SBool(self.arr[j], self.elem_ty)
        if self.kind == 'str':
            return SStr(self.arr[j])
        return SFloat(self.arr[j], self.nanarr[j], self.elem_ty)

    def copy(self):
        return SList(self.kind, self.len, self.arr, self.nanarr, self.elem_ty)

    def _store(self, j, v):
        if self.kind == 'float':
            n, r = to_real_parts(v)
            self.arr = z3.Store(self.arr, j, r)
            self.nanarr = z3.Store(self.nanarr, j, n)
        elif self.kind == 'int':
            if not is_intlike(v):
                raise Unsupported(f'store {v!r} into int list')
            self.arr = z3.Store(self.arr, j, to_int_term(v))
        elif self.kind == 'bool':
            if not isinstance(v, (bool, SBool)):
                raise Unsupported(f'store {v!r} into bool list')
            self.arr = z3.Store(self.arr, j, to_bool_term(v))
        elif self.kind == 'str':
            self.arr = z3.Store(self.arr, j, str_term(v))

    # -- executor-level -----------------------------------------------------------------------
    def sym_len(self, ctx):
        return SInt(self.len)

    def sym_iter(self, ctx):
        return ('seq', self.len, self.elem)

    def sym_getitem(self, ctx, idx):
        if not is_intlike(idx):
            raise Unsupported('list index kind')
        j = to_int_term(idx)
        # Python semantics: negative indices count from the end; out of range -> IndexError
        ctx.safe('index', z3.And(j >= -self.len, j < self.len), exc='IndexError')
        jj = z3.If(j < 0, j + self.len, j)
        return self.elem(jj)

    def sym_truth(self, ctx):
        return SBool(self.len != 0)

    def m_count(self, ctx, v):
        if self.kind != 'bool' or v is not True:
            raise Unsupported('list.count only modelled as boollist.count(True)')
        ctx.note_cnt(self.arr)
        return SInt(cnt(self.arr, self.len))

    def m_append(self, ctx, v):
        self._store(self.len, v)
        self.len = self.len + 1
        return None

    def iadd_list(self, ctx, other):
        """self += [v1, ...] with a concrete-shape right-hand side."""
        if isinstance(other, list):
            for v in other:
                self.m_append(ctx, v)
            return self
        raise Unsupported('list += non-literal')

    def sym_binop(self, ctx, op, other, reflected):
        if op == 'Add' and isinstance(other, list) and not reflected:
            new = self.copy()
            return new.iadd_list(ctx, other)
        raise Unsupported(f'SList binop {op}')

    def havoc(self, ctx):
        return SList(self.kind, fresh_int('len'), None, None, self.elem_ty)


class SOpaqueObj(Model):
    """An object on which only declared effect-free calls are allowed (e.g. a logger)."""

    def __init__(self, what):
        self.what = what

    def sym_getattr(self, ctx, name):
        return SOpaqueObj(self.what + '.' + name)

    def sym_call(self, ctx, args, kwargs):
        return Opaque(self.what + '()')
