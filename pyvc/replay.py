"""./check <ID> --replay <file>: re-run the native part of a recorded violation on the current tree."""
import json
import sys

from .runner import native_check, _jsonable


def _denorm(x):
    if isinstance(x, str) and x in ('nan', 'inf', '-inf'):
        return float(x)
    if isinstance(x, list):
        return [_denorm(y) for y in x]
    if isinstance(x, dict):
        return {k: _denorm(v) for k, v in x.items()}
    return x


def replay_file(path, reg) -> int:
    with open(path) as f:
        payload = json.load(f)
    if 'bounded_failure' in payload:
        bf = payload['bounded_failure']
        print('bounded failure recorded:', json.dumps(bf)[:2000])
        rerun = bf.get('rerun')
        if rerun:
            import subprocess
            return subprocess.call(rerun, shell=True)
        return 1
    name = payload['obligation']
    rp = payload.get('replay', {})
    print(f'obligation: {name}')
    if not rp.get('reproduced'):
        print('no failing native input was recorded for this obligation; solver output follows')
        print(json.dumps(payload.get('solver_output'), indent=1)[:4000])
        return 1
    if 'rerun' in rp:
        import subprocess
        return subprocess.call(rp['rerun'], shell=True)
    con = reg.get(name.split('::')[0])
    args = _denorm(rp['inputs'])
    outcome, failed = native_check(con, args)
    print('inputs  :', args)
    print('observed:', _jsonable(outcome))
    print('failed clauses now:', failed)
    if failed:
        print(f'VIOLATION property={payload["property"]} replay={path}')
        return 1
    print('not reproduced on the current tree')
    return 0
