"""pyvc.source -- mechanical extraction of the real code: parse /repo/src/ampycloud/*.py *as it is now*.

Nothing here is hand-written about the code under verification; the executor interprets exactly these ASTs.
What the extraction drops is counted in `Dropped` and reported in every evidence file.
"""
from __future__ import annotations
import ast
import hashlib
import os
from dataclasses import dataclass, field
from typing import Optional

REPO_SRC = os.environ.get('PYVC_REPO_SRC', '/repo/src')
PKG = 'ampycloud'


@dataclass
class FuncInfo:
    qualname: str            # ampycloud.wmo.height2code / ampycloud.data.CeiloChunk.metar_msg
    module: str
    cls: Optional[str]
    node: ast.FunctionDef
    decorators: list
    is_property: bool
    file: str

    @property
    def lines(self):
        return (self.node.lineno, self.node.end_lineno)


@dataclass
class ClassInfo:
    qualname: str
    module: str
    node: ast.ClassDef
    bases: list               # names as written
    methods: dict = field(default_factory=dict)      # name -> FuncInfo
    class_assigns: dict = field(default_factory=dict)  # name -> ast expr


@dataclass
class ModInfo:
    name: str
    file: str
    sha256: str
    tree: ast.Module
    text: str
    functions: dict = field(default_factory=dict)   # name -> FuncInfo
    classes: dict = field(default_factory=dict)     # name -> ClassInfo
    imports: dict = field(default_factory=dict)     # local alias -> ('ext', dotted) | ('repo_mod', modname) | ('repo_obj', modname, objname)
    assigns: dict = field(default_factory=dict)     # module-level NAME = expr


_cache: dict = {}


def module_file(modname: str) -> str:
    rel = modname.replace('.', '/')
    p = os.path.join(REPO_SRC, rel + '.py')
    if os.path.exists(p):
        return p
    p2 = os.path.join(REPO_SRC, rel, '__init__.py')
    if os.path.exists(p2):
        return p2
    raise FileNotFoundError(modname)


def _resolve_relative(modname: str, is_pkg: bool, level: int, target: Optional[str]) -> str:
    parts = modname.split('.')
    if not is_pkg:
        parts = parts[:-1]
    if level > 1:
        parts = parts[:len(parts) - (level - 1)]
    if target:
        parts = parts + target.split('.')
    return '.'.join(parts)


def _is_repo_module(name: str) -> bool:
    try:
        module_file(name)
        return True
    except FileNotFoundError:
        return False


def load_module(modname: str) -> ModInfo:
    if modname in _cache:
        return _cache[modname]
    path = module_file(modname)
    with open(path, 'rb') as f:
        raw = f.read()
    text = raw.decode('utf-8')
    tree = ast.parse(text, filename=path)
    mi = ModInfo(modname, path, hashlib.sha256(raw).hexdigest(), tree, text)
    is_pkg = path.endswith('__init__.py')
    for node in tree.body:
        if isinstance(node, ast.Import):
            for a in node.names:
                mi.imports[a.asname or a.name.split('.')[0]] = ('ext', a.name if a.asname else a.name.split('.')[0])
        elif isinstance(node, ast.ImportFrom):
            if node.level > 0:
                base = _resolve_relative(modname, is_pkg, node.level, node.module)
            else:
                base = node.module
            for a in node.names:
                alias = a.asname or a.name
                if base.split('.')[0] == PKG:
                    if _is_repo_module(base + '.' + a.name):
                        mi.imports[alias] = ('repo_mod', base + '.' + a.name)
                    else:
                        mi.imports[alias] = ('repo_obj', base, a.name)
                else:
                    mi.imports[alias] = ('ext', base + '.' + a.name)
        elif isinstance(node, (ast.FunctionDef,)):
            mi.functions[node.name] = _funcinfo(modname, None, node, path)
        elif isinstance(node, ast.ClassDef):
            ci = ClassInfo(f'{modname}.{node.name}', modname, node,
                           [ast.unparse(b) for b in node.bases])
            for sub in node.body:
                if isinstance(sub, ast.FunctionDef):
                    ci.methods[sub.name] = _funcinfo(modname, node.name, sub, path)
                elif isinstance(sub, ast.Assign) and len(sub.targets) == 1 and isinstance(sub.targets[0], ast.Name):
                    ci.class_assigns[sub.targets[0].id] = sub.value
            mi.classes[node.name] = ci
        elif isinstance(node, ast.Assign) and len(node.targets) == 1 and isinstance(node.targets[0], ast.Name):
            mi.assigns[node.targets[0].id] = node.value
        elif isinstance(node, ast.AnnAssign) and isinstance(node.target, ast.Name) and node.value is not None:
            mi.assigns[node.target.id] = node.value
    _cache[modname] = mi
    return mi


def _funcinfo(modname, cls, node, path) -> FuncInfo:
    decos = [ast.unparse(d) for d in node.decorator_list]
    qn = f'{modname}.{cls}.{node.name}' if cls else f'{modname}.{node.name}'
    return FuncInfo(qn, modname, cls, node, decos, 'property' in decos, path)


def clear_cache():
    _cache.clear()


def find_function(qualname: str) -> FuncInfo:
    """'ampycloud.wmo.height2code' or 'ampycloud.data.CeiloChunk.metar_msg' (methods are looked up through bases)."""
    parts = qualname.split('.')
    # try module.function
    for split in range(len(parts) - 1, 0, -1):
        modname = '.'.join(parts[:split])
        if not _is_repo_module(modname):
            continue
        mi = load_module(modname)
        rest = parts[split:]
        if len(rest) == 1 and rest[0] in mi.functions:
            return mi.functions[rest[0]]
        if len(rest) == 2 and rest[0] in mi.classes:
            fi = find_method(mi.classes[rest[0]], rest[1])
            if fi is not None:
                return fi
    raise KeyError(qualname)


def find_method(ci: ClassInfo, name: str) -> Optional[FuncInfo]:
    if name in ci.methods:
        return ci.methods[name]
    mi = load_module(ci.module)
    for b in ci.bases:
        if b in mi.classes:
            r = find_method(mi.classes[b], name)
            if r is not None:
                return r
    return None


def find_class(qualname: str) -> ClassInfo:
    modname, cname = qualname.rsplit('.', 1)
    return load_module(modname).classes[cname]


def all_modules() -> list:
    out = []
    root = os.path.join(REPO_SRC, PKG)
    for dp, dn, fn in os.walk(root):
        for f in sorted(fn):
            if f.endswith('.py'):
                rel = os.path.relpath(os.path.join(dp, f), REPO_SRC)[:-3].replace(os.sep, '.')
                if rel.endswith('.__init__'):
                    rel = rel[:-9]
                out.append(rel)
    return sorted(out)
