"""./check entry point"""
import argparse
import json
import os
import sys
import traceback


def main():
    ap = argparse.ArgumentParser()
    ap.add_argument('pid')
    ap.add_argument('--tier', default=os.environ.get('VERIF_TIER', 'quick'), choices=['quick', 'thorough'])
    ap.add_argument('--replay')
    ap.add_argument('--write-baseline', action='store_true')
    a = ap.parse_args()
    seed = int(os.environ.get('VERIF_SEED', '0') or 0)
    os.environ['VERIF_TIER_ACTIVE'] = a.tier
    from pyvc import runner
    from contracts import build_registry
    from contracts.properties import SPECS
    if a.replay:
        from pyvc import replay
        sys.exit(replay.replay_file(a.replay, build_registry()))
    if a.pid == 'all':
        # one fresh process per property (a parent that has imported the numerical libraries must not fork worker pools)
        import subprocess
        rc = 0
        for pid in sorted(SPECS):
            cmd = [sys.executable, '-m', 'pyvc.cli', pid, '--tier', a.tier] + (['--write-baseline'] if a.write_baseline else [])
            rc = max(rc, subprocess.call(cmd))
        sys.exit(rc)
    pids = [a.pid]
    rc = 0
    for pid in pids:
        if pid not in SPECS:
            print(f'CHECKER-ERROR unknown or unclaimed property {pid}')
            sys.exit(3)
        reg = build_registry()
        try:
            run = runner.run_property(SPECS[pid], a.tier, seed, reg)
            # (PYVC_EVIDENCE_DIR: used by the seed scripts, which run the checks on scratch copies and must not overwrite the
            #  evidence of /repo itself)
            code = runner.finish(run, os.path.join(os.environ.get('PYVC_EVIDENCE_DIR') or os.path.join(runner.VERIF, 'evidence'), f'{pid}.json'),
                                 f'./check {pid} --tier {a.tier}')
            if a.write_baseline:
                runner.write_baseline(run)
        except Exception:
            print(f'CHECKER-ERROR property={pid} crashed:\n{traceback.format_exc()}')
            code = 3
        rc = max(rc, code)
    sys.exit(rc)


if __name__ == '__main__':
    main()
