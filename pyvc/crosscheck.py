"""pyvc.crosscheck -- guard against an unsound engine / wrong library models.

For concrete inputs (seeded), the *real* function is run under CPython and the executor's path summaries are
required to agree: some path must be feasible for the input, and on every feasible path the symbolic outcome
must equal the native one (loop-cut paths: must be consistent with it).  A disagreement is a bug of /verif
(exit 3), never a verdict about the code."""
from __future__ import annotations
import math
import random
from fractions import Fraction

import z3

from . import smt
from .smt import lift
from .values import Sym, SInt, SBool, SFloat, SStr, SList, Model, to_real_parts, to_int_term, to_bool_term, raw
from .contracts import Int, Bool, Float, Str, Const, ListOf, Spec


class NoSampler(Exception):
    pass


def sample(spec: Spec, rng: random.Random):
    from .lib import ArrOf
    if isinstance(spec, Int):
        lo = spec.lo if isinstance(spec.lo, int) else -3
        hi = spec.hi if isinstance(spec.hi, int) else 12
        v = rng.choice([lo, hi, rng.randint(lo, hi), rng.randint(lo, hi), 0, 1, 2, 8, 9]) if lo <= 0 <= hi else rng.randint(lo, hi)
        v = min(max(v, lo), hi)
        if spec.ty == 'npint':
            import numpy as np
            return np.int64(v)
        return v
    if isinstance(spec, Bool):
        return rng.random() < 0.5
    if isinstance(spec, Float):
        lo = float(spec.lo) if spec.lo is not None else -50.0
        hi = float(spec.hi) if spec.hi is not None else 120000.0
        r = rng.random()
        if spec.nan and r < 0.08:
            v = float('nan')
        elif r < 0.3:
            v = float(rng.choice([0, 100, 12.5, 18.75, 6.25, 93.75, 99.99, 100.0, 10000, 10000.5, 9999.99, 12345,
                                  250, 299.999, 300, 87.5, 50, 1e-9]))
            v = min(max(v, lo), hi)
        elif r < 0.6:
            v = round(rng.uniform(lo, min(hi, 110.0)), rng.choice([0, 1, 2, 4]))
        else:
            v = rng.uniform(lo, hi)
        if spec.ty == 'npfloat':
            import numpy as np
            return np.float64(v)
        return v
    if isinstance(spec, Str):
        return rng.choice(['', 'a', 'FEW', '3'])
    if isinstance(spec, Const):
        return spec.value
    if isinstance(spec, ListOf):
        n = rng.choice([0, 1, 2, 3, 4, 5, 6, 8])
        if spec.kind == 'int':
            return [rng.randint(-1, 9) for _ in range(n)]
        if spec.kind == 'bool':
            return [rng.random() < 0.5 for _ in range(n)]
        if spec.kind == 'float':
            return [rng.uniform(0, 100) for _ in range(n)]
    if isinstance(spec, ArrOf):
        import numpy as np
        n = rng.choice([1, 2, 3, 5])
        return np.array([sample(Float(nan=False, lo=0, hi=100), rng) if rng.random() < 0.9 else
                         rng.choice([-1.0, 101.0, float('nan')]) for _ in range(n)], dtype=float)
    if hasattr(spec, 'sample'):
        return spec.sample(rng)
    raise NoSampler(spec.describe())


def eq_native(sym, nat):
    """z3 formula (or bool): the executor-level value `sym` equals the native value `nat`."""
    import numpy as np
    if sym is None or nat is None:
        return sym is None and nat is None
    if isinstance(sym, Model) and hasattr(sym, 'eq_native'):
        return sym.eq_native(nat)
    if isinstance(sym, SList) or (isinstance(sym, Model) and hasattr(sym, 'at') and hasattr(sym, 'n')):
        try:
            xs = list(nat)
        except TypeError:
            return False
        n = sym.len
        fs = [n == len(xs)]
        for j, x in enumerate(xs):
            e = sym.elem(j) if isinstance(sym, SList) else sym.at(lift(j))
            fs.append(_b(eq_native(e, x)))
        return z3.And(*fs)
    if isinstance(sym, (list, tuple)):
        if not isinstance(nat, (list, tuple, np.ndarray)) or len(sym) != len(nat):
            return False
        return z3.And(*[_b(eq_native(a, b)) for a, b in zip(sym, nat)]) if len(sym) else True
    if isinstance(sym, (SStr, str)):
        if not isinstance(nat, str):
            return False
        return (sym == nat) if isinstance(sym, str) else sym.t == z3.StringVal(nat)
    if isinstance(nat, str):
        return False
    if isinstance(sym, (SBool, bool)) and isinstance(nat, (bool, np.bool_)):
        return to_bool_term(sym) == bool(nat)
    if isinstance(nat, (float, np.floating)) or isinstance(sym, (SFloat, float)):
        if not isinstance(nat, (int, float, np.integer, np.floating, bool)):
            return False
        n, v = to_real_parts(sym)
        natf = float(nat)
        if math.isnan(natf):
            return n
        if math.isinf(natf):
            return False
        # A-REAL: the native float result may differ from the real-number result by rounding
        fr = Fraction(natf)
        tol = abs(fr) * Fraction(1, 10**9) + Fraction(1, 10**9)
        return z3.And(z3.Not(n), v >= lift(fr - tol), v <= lift(fr + tol))
    if isinstance(nat, (int, np.integer, bool, np.bool_)):
        try:
            return to_int_term(sym) == int(nat)
        except Exception:
            return False
    return False


def _b(x):
    return z3.BoolVal(x) if isinstance(x, bool) else x


def bind(symarg, nat):
    """formula binding a symbolic *input* to a native value (exact)"""
    import numpy as np
    if isinstance(symarg, SFloat):
        natf = float(nat)
        if math.isnan(natf):
            return symarg.nan
        return z3.And(z3.Not(symarg.nan), symarg.v == lift(Fraction(natf)))
    if isinstance(symarg, SInt):
        return symarg.t == int(nat)
    if isinstance(symarg, SBool):
        return symarg.t == bool(nat)
    if isinstance(symarg, SStr):
        return symarg.t == z3.StringVal(nat)
    if isinstance(symarg, SList):
        fs = [symarg.len == len(nat)]
        for j, x in enumerate(nat):
            fs.append(_b(bind(symarg.elem(j), x)))
        return z3.And(*fs)
    if isinstance(symarg, Model) and hasattr(symarg, 'bind_native'):
        return symarg.bind_native(nat)
    if isinstance(symarg, Model) and hasattr(symarg, 'at'):
        fs = [symarg.n == len(nat)]
        for j, x in enumerate(nat):
            fs.append(_b(bind(symarg.at(lift(j)), x)))
        return z3.And(*fs)
    if isinstance(symarg, (list, tuple)) and any(isinstance(x, (Sym, Model)) for x in symarg):
        if len(symarg) != len(nat):
            return False
        return z3.And(*[_b(bind(a, b)) for a, b in zip(symarg, nat)])
    if not isinstance(symarg, (Sym, Model)):
        return True     # concrete parameter (Const)
    raise NoSampler(f'bind {symarg!r}')


def crosscheck_function(rep, con, n_inputs, seed):
    """-> dict(inputs, agreements, disagreements: list, skipped: reason|None)"""
    out = {'inputs': 0, 'agreements': 0, 'disagreements': [], 'skipped': None, 'paths_hit': 0}
    if con.native_call is None:
        out['skipped'] = 'no native adapter'
        return out
    rng = random.Random(seed)
    hit = set()
    # cases whose exploration stopped at an unsupported construct have an incomplete path set: "no feasible path" would be
    # meaningless for them
    incomplete = {u[1:u.index(']')] for u in rep.undecided if u.startswith('[') and ']' in u}
    for label, overrides in con.cases:
        specs = dict(con.params)
        specs.update(overrides)
        sums = [s for s in rep.summaries if s.case == label and s.outcome[0] != 'cut']
        if not sums or label in incomplete:
            continue
        per_case = max(1, n_inputs // len(con.cases))
        for _ in range(per_case):
            try:
                nat_args = {k: sample(sp, rng) for k, sp in specs.items()}
            except NoSampler as e:
                out['skipped'] = f'no sampler: {e}'
                return out
            import copy
            import warnings
            try:
                with warnings.catch_warnings():
                    warnings.simplefilter('ignore')
                    nat = ('return', con.native_call(**copy.deepcopy(nat_args)))
            except Exception as e:  # noqa
                nat = ('raise', type(e).__name__)
            out['inputs'] += 1
            feasible = 0
            bad = None
            maxlen = max([len(v) for v in nat_args.values() if hasattr(v, '__len__') and not isinstance(v, str)] + [0])
            for s in sums:
                # universal facts on the path are instantiated at every concrete index of the input
                s = _with_hyps(s, maxlen)
                try:
                    b = [_b(bind(s.args[k], v)) for k, v in nat_args.items()]
                except NoSampler as e:
                    out['skipped'] = str(e)
                    return out
                if smt.quick_sat(s.hyps + b, 5000) != 'sat':
                    continue
                feasible += 1
                hit.add((label, s.path))
                if s.outcome[0] != nat[0]:
                    bad = f'path {s.path}: executor {s.outcome[:2]} vs CPython {nat}'
                    break
                if nat[0] == 'raise':
                    if s.outcome[1] != nat[1]:
                        bad = f'path {s.path}: executor raises {s.outcome[1]} vs CPython {nat[1]}'
                        break
                    continue
                eq = eq_native(s.outcome[1], nat[1])
                if isinstance(eq, bool):
                    if not eq:
                        bad = f'path {s.path}: executor value {s.outcome[1]!r} vs CPython {nat[1]!r}'
                        break
                    continue
                if '[exit]' in s.path or getattr(s.ctx, 'underdetermined', False):
                    # loop-cut path: result is constrained by the invariant only -> consistency
                    if smt.quick_sat(s.hyps + b + [eq], 5000) == 'unsat':
                        bad = f'path {s.path}: CPython result {nat[1]!r} inconsistent with the loop invariant'
                        break
                else:
                    if smt.quick_sat(s.hyps + b + [z3.Not(eq)], 5000) != 'unsat':
                        bad = f'path {s.path}: executor result differs from CPython {nat[1]!r}'
                        break
            if bad is None and feasible == 0:
                # inputs outside the contract's precondition are not part of the comparison
                if not _pre_holds(con, nat_args):
                    out['inputs'] -= 1
                    out['outside_precondition'] = out.get('outside_precondition', 0) + 1
                    continue
                bad = 'no executor path is feasible for this input'
            if bad:
                out['disagreements'].append({'case': label, 'input': repr(nat_args), 'native': repr(nat), 'why': bad})
            else:
                out['agreements'] += 1
    out['paths_hit'] = len(hit)
    return out


class _S:
    pass


def _with_hyps(s, maxlen):
    if s.ctx is None:
        return s
    t = _S()
    t.__dict__.update(s.__dict__)
    t.hyps = s.ctx.hyps(extra_terms=list(range(0, min(maxlen, 12) + 1))) + list(s.ctx.definitions)
    return t


def _pre_holds(con, nat_args) -> bool:
    if con.requires is None:
        return True
    try:
        from .contracts import nview, _as_dict
        from .runner import native_tags, _truth
        view = {k: nview(v) for k, v in nat_args.items()}
        pre = _as_dict(con.call(con.requires, view, native_tags(nat_args)))
        return all(_truth(f) for f in pre.values())
    except Exception:
        return False
