"""pyvc.lib -- *assumed* contracts (models) of external library operations used by P-verified functions.

This file is the trusted base of the full mode: each entry states what the executor assumes a library call
does.  Every entry has an executable twin in bounded/conformance.py that is evaluated against the installed
library on generated inputs on every run (label B).  Anything not listed here is Unsupported => UNDECIDED.
"""
from __future__ import annotations
import math

import z3

from . import smt
from .smt import lift, fresh, fresh_int, fresh_bool, fresh_real
from .values import (Sym, SInt, SBool, SFloat, SStr, Model, SList, Opaque, Unsupported, is_concrete, is_numlike,
                     is_intlike, is_floatlike, to_real_parts, to_int_term, to_bool_term, ite_val, raw,
                     real_floor, real_ceil, real_round_half_even, pytype_tag, BoolArr, cnt, str_term)
from .contracts import Spec

LIB = {}
#: dotted name -> one-line statement of the assumed contract (goes to coverage.trusted_base)
LIB_DOC = {}


def model(dotted, doc):
    def deco(f):
        LIB[dotted] = f
        LIB_DOC[dotted] = doc
        return f
    return deco


# ---------------------------------------------------------------------------------------------
# element-wise numpy array dialect
# ---------------------------------------------------------------------------------------------

class SArr(Model):
    """1-D numpy array of symbolic length n; element i is `at(i)` (an executor-level scalar value).
    dtype: 'float' | 'int' | 'bool'."""
    pytype = 'ndarray'

    def __iter__(self):
        raise TypeError('symbolic sequence is not iterable natively')

    def __init__(self, n, at, dtype):
        self.n = lift(n)
        self.at = at
        self.dtype = dtype

    def __getitem__(self, j):       # contract level
        return raw(self.at(lift(j)))

    @property
    def len(self):
        return self.n

    def sym_len(self, ctx):
        return SInt(self.n)

    def _elementwise(self, other, f):
        a = self.at
        if isinstance(other, SArr):
            b = other.at
            # numpy broadcasting of equal-length 1-D arrays only
            return lambda i: f(a(i), b(i))
        if isinstance(other, SFiltered):
            raise Unsupported('array op filtered-array')
        return lambda i: f(a(i), other)

    def sym_binop(self, ctx, op, other, reflected):
        from .engine import num_binop
        if op == 'Mult' and self.dtype == 'bool':
            # bool array * bool array = element-wise AND (numpy: multiply on bool is logical_and)
            def f(x, y):
                return SBool(z3.And(to_bool_term(x), to_bool_term(y)), 'npbool')
            if isinstance(other, SArr) and other.dtype == 'bool':
                return SArr(self.n, self._elementwise(other, f), 'bool')
        if op in ('Div', 'FloorDiv', 'Mod'):
            # eager safety of the divisor (closures are evaluated at arbitrary index terms, so they must not
            # emit obligations themselves)
            if reflected or not is_numlike(other):
                raise Unsupported('array as divisor')
            _, d = to_real_parts(other)
            ctx.safe('div', d != 0, exc='ZeroDivisionError')

        def g(x, y):
            return num_binop(NOCTX, op, y, x) if reflected else num_binop(NOCTX, op, x, y)
        dt = 'float' if (self.dtype == 'float' or op == 'Div' or is_floatlike(other)
                         or (isinstance(other, SArr) and other.dtype == 'float')) else 'int'
        return SArr(self.n, self._elementwise(other, g), dt)

    def sym_compare(self, ctx, op, other, reflected):
        from .engine import num_compare

        def g(x, y):
            r = num_compare(op, x, y)
            return SBool(lift(r), 'npbool') if isinstance(r, bool) else r
        return SArr(self.n, self._elementwise(other, g), 'bool')

    def sym_getitem(self, ctx, idx):
        if isinstance(idx, SArr) and idx.dtype == 'bool':
            return SFiltered(self, idx)
        if is_intlike(idx):
            j = to_int_term(idx)
            ctx.safe('index', z3.And(j >= -self.n, j < self.n), exc='IndexError')
            return self.at(z3.If(j < 0, j + self.n, j))
        raise Unsupported('array index kind')

    def sym_setitem(self, ctx, idx, val):
        if not (isinstance(idx, SArr) and idx.dtype == 'bool'):
            raise Unsupported('array store kind')
        old = self.at
        m = idx.at
        if isinstance(val, SFiltered):
            if not masks_equal(ctx, val.mask, idx):
                raise Unsupported('masked assignment with a differently-masked right-hand side')
            b = val.base.at
            self.at = lambda i: ite_val(to_bool_term(m(i)), self._cast(b(i)), old(i))
        elif is_numlike(val):
            self.at = lambda i: ite_val(to_bool_term(m(i)), self._cast(val), old(i))
        else:
            raise Unsupported('array store value')

    def _cast(self, v):
        if self.dtype == 'float':
            n, r = to_real_parts(v)
            return SFloat(r, n, 'npfloat')
        return v

    def m_astype(self, ctx, ty):
        from .engine import BuiltinRef
        a = self.at
        if isinstance(ty, BuiltinRef) and ty.name == 'int':
            def f(i):
                x = a(i)
                if is_intlike(x):
                    return SInt(to_int_term(x), 'npint')
                n, r = to_real_parts(x)
                return SInt(z3.If(r >= 0, real_floor(r), real_ceil(r)), 'npint')
            # astype(int) of NaN is undefined behaviour in numpy: must not happen for any element
            if self.dtype == 'float':
                nn = smt.Forall(0, self.n, lambda j: z3.Not(to_real_parts(a(j))[0]))
                ctx.oblige('safe.astype_int_of_nan', nn)
                ctx.assume(nn)
            return SArr(self.n, f, 'int')
        raise Unsupported('astype')

    def sym_iter(self, ctx):
        return ('seq', self.n, self.at)


class SFiltered(Model):
    """arr[mask]: kept as (base, mask); element-wise scalar functions keep the mask."""
    pytype = 'ndarray'

    def __init__(self, base: SArr, mask: SArr):
        self.base, self.mask = base, mask

    def map(self, f, dtype=None):
        b = self.base
        return SFiltered(SArr(b.n, (lambda i, at=b.at: f(at(i))), dtype or b.dtype), self.mask)

    def sym_binop(self, ctx, op, other, reflected):
        from .engine import num_binop
        if not is_numlike(other):
            raise Unsupported('filtered-array op non-scalar')
        if op in ('Div', 'FloorDiv', 'Mod'):
            if reflected:
                raise Unsupported('array as divisor')
            _, d = to_real_parts(other)
            ctx.safe('div', d != 0, exc='ZeroDivisionError')
        if reflected:
            return self.map(lambda x: num_binop(NOCTX, op, other, x), 'float' if op == 'Div' or is_floatlike(other) else None)
        return self.map(lambda x: num_binop(NOCTX, op, x, other), 'float' if op == 'Div' or is_floatlike(other) else None)


class _NoCtx:
    """element closures are evaluated at arbitrary index terms: partial operations inside them must have been
    made safe eagerly, so here a non-trivial safety condition is a modelling gap (fail closed)"""

    def safe(self, what, cond, exc='Exception'):
        if isinstance(cond, bool):
            if cond:
                return
        else:
            c = z3.simplify(cond)
            if z3.is_true(c):
                return
        # the eager obligation was emitted by the array operation; nothing to add here
        return


NOCTX = _NoCtx()


def masks_equal(ctx, m1: SArr, m2: SArr) -> bool:
    if m1 is m2:
        return True
    j = fresh_int('mj')
    f = [z3.And(j >= 0, j < m1.n), to_bool_term(m1.at(j)) != to_bool_term(m2.at(j))]
    if smt.quick_sat(ctx.hyps([j]) + f + [m1.n == m2.n], 5000) == 'unsat' and \
            smt.quick_sat(ctx.hyps() + [m1.n != m2.n], 5000) == 'unsat':
        return True
    return False


class ArrOf(Spec):
    """symbolic 1-D numpy array parameter"""

    def __init__(self, dtype='float', max_extract=16):
        self.dtype, self.max_extract = dtype, max_extract

    def make(self, name, ctx):
        n = z3.Int(name + '_len')
        ctx.assume(n >= 0)
        ctx.len_vars.append(n)
        if self.dtype == 'float':
            arr = z3.Array(name, z3.IntSort(), z3.RealSort())
            nan = z3.Array(name + '_nan', z3.IntSort(), z3.BoolSort())
            a = SArr(n, lambda i: SFloat(arr[i], nan[i], 'npfloat'), 'float')

            def ext(m):
                ln = smt.z3val_to_py(m.eval(n, model_completion=True))
                return [float('nan') if z3.is_true(m.eval(nan[j], model_completion=True))
                        else smt.z3val_to_py(m.eval(arr[j], model_completion=True))
                        for j in range(min(ln, self.max_extract))]
        else:
            arr = z3.Array(name, z3.IntSort(), z3.IntSort())
            a = SArr(n, lambda i: SInt(arr[i], 'npint'), 'int')

            def ext(m):
                ln = smt.z3val_to_py(m.eval(n, model_completion=True))
                return [smt.z3val_to_py(m.eval(arr[j], model_completion=True)) for j in range(min(ln, self.max_extract))]
        ctx.extractors[name] = ext
        return a

    def describe(self):
        return f'ndarray[{self.dtype}] of symbolic length'


def _unary_float(name, fint):
    """np.floor / np.ceil / np.round: integer-valued float, NaN stays NaN"""
    def f(interp, args, kwargs):
        (x,) = args
        if kwargs:
            raise Unsupported(f'{name} kwargs')

        def one(v):
            if is_intlike(v):
                return SFloat(z3.ToReal(to_int_term(v)), False, 'npfloat')
            n, r = to_real_parts(v)
            return SFloat(z3.ToReal(fint(r)), n, 'npfloat')
        if isinstance(x, SArr):
            return SArr(x.n, (lambda i, at=x.at: one(at(i))), 'float')
        if isinstance(x, SFiltered):
            return x.map(one, 'float')
        if is_numlike(x):
            if is_concrete(x):
                import numpy as np
                return getattr(np, name)(x)
            return one(x)
        raise Unsupported(f'{name}({x!r})')
    return f


LIB['numpy.floor'] = _unary_float('floor', real_floor)
LIB_DOC['numpy.floor'] = 'np.floor(x): largest integer <= x as float; NaN -> NaN; element-wise on arrays'
LIB['numpy.ceil'] = _unary_float('ceil', real_ceil)
LIB_DOC['numpy.ceil'] = 'np.ceil(x): smallest integer >= x as float; NaN -> NaN; element-wise on arrays'
_round0 = _unary_float('round', real_round_half_even)


def _np_round(interp, args, kwargs):
    if len(args) == 2 or 'decimals' in kwargs:
        x = args[0]
        d = args[1] if len(args) == 2 else kwargs['decimals']
        if not (isinstance(d, int) and not isinstance(d, bool) and 0 <= d <= 12):
            raise Unsupported('np.round with symbolic / negative decimals')
        if d == 0:
            return _round0(interp, [x], {})
        scale = 10 ** d

        def one(v):
            n, r = to_real_parts(v)
            return SFloat(z3.ToReal(real_round_half_even(r * scale)) / scale, n, 'npfloat')
        if isinstance(x, SArr):
            return SArr(x.n, (lambda i, at=x.at: one(at(i))), 'float')
        if is_numlike(x):
            if is_concrete(x):
                import numpy as np
                return np.round(x, d)
            return one(x)
        raise Unsupported('np.round(x, d) of this value')
    return _round0(interp, args, kwargs)


LIB['numpy.round'] = _np_round
LIB_DOC['numpy.round'] = ('np.round(x[, d]): nearest multiple of 10^-d (default d = 0), ties to even, as float; NaN -> NaN; '
                          'element-wise (A-REAL: decimal scaling is exact)')


@model('numpy.isnan', 'np.isnan(x): True iff x is NaN (False for ints); element-wise on arrays')
def _isnan(interp, args, kwargs):
    (x,) = args
    if isinstance(x, SArr):
        return SArr(x.n, (lambda i, at=x.at: SBool(to_real_parts(at(i))[0], 'npbool')), 'bool')
    if is_concrete(x):
        import numpy as np
        return bool(np.isnan(x))
    if is_numlike(x):
        n, _ = to_real_parts(x)
        n = z3.simplify(n)
        if z3.is_true(n):
            return True
        if z3.is_false(n):
            return False
        return SBool(n, 'npbool')
    raise Unsupported(f'np.isnan({x!r})')


def _all_any(is_all):
    def f(interp, args, kwargs):
        (x,) = args
        ctx = interp.ctx
        if isinstance(x, (bool, SBool)):
            return x
        if is_numlike(x):
            t = to_bool_term(x)
            return interp._mk_bool(t)
        if isinstance(x, SArr):
            # b <=> forall i<n. x[i]   encoded exactly with a schema and a skolem witness
            b = fresh_bool('all' if is_all else 'any')
            w = fresh_int('w')
            at = x.at
            if is_all:
                ctx.schemas.append(smt.Forall(0, x.n, lambda j, at=at, b=b: z3.Implies(b, to_bool_term(at(j)))))
                ctx.assume(z3.Implies(z3.Not(b), z3.And(w >= 0, w < x.n, z3.Not(to_bool_term(at(w))))))
            else:
                ctx.schemas.append(smt.Forall(0, x.n, lambda j, at=at, b=b: z3.Implies(z3.Not(b), z3.Not(to_bool_term(at(j))))))
                ctx.assume(z3.Implies(b, z3.And(w >= 0, w < x.n, to_bool_term(at(w)))))
            ctx.hint(w)
            return SBool(b, 'npbool')
        if isinstance(x, list):
            ts = [interp.truth_term(v) for v in x]
            ts = [z3.BoolVal(t) if isinstance(t, bool) else t for t in ts]
            if not ts:
                return is_all
            return interp._mk_bool(z3.And(*ts) if is_all else z3.Or(*ts))
        raise Unsupported(f'np.all/any({x!r})')
    return f


LIB['numpy.all'] = _all_any(True)
LIB_DOC['numpy.all'] = 'np.all(a): True iff every element is truthy (True for the empty array)'
LIB['numpy.any'] = _all_any(False)
LIB_DOC['numpy.any'] = 'np.any(a): True iff some element is truthy (False for the empty array)'


@model('numpy.array', 'np.array([x]) of one scalar: 1-element array holding x')
def _array(interp, args, kwargs):
    (x,) = args
    if isinstance(x, list) and len(x) >= 1 and all(is_numlike(v) for v in x):
        vals = list(x)
        dt = 'float' if any(is_floatlike(v) for v in vals) else 'int'

        def at(i):
            out = vals[-1]
            for k in range(len(vals) - 2, -1, -1):
                out = ite_val(i == k, vals[k], out)
            return out
        return SArr(len(vals), at, dt)
    raise Unsupported(f'np.array({x!r})')


@model('numpy.full_like', 'np.full_like(a, c, dtype=float): array of the length of a, every element float(c)')
def _full_like(interp, args, kwargs):
    a, c = args
    from .engine import BuiltinRef
    dt = kwargs.get('dtype')
    if not isinstance(a, SArr) or not (isinstance(dt, BuiltinRef) and dt.name == 'float') or not is_concrete(c):
        raise Unsupported('np.full_like shape')
    cv = float(c)
    if math.isnan(cv):
        return SArr(a.n, lambda i: SFloat(0, True, 'npfloat'), 'float')
    return SArr(a.n, lambda i: SFloat(lift(cv, z3.RealSort()), False, 'npfloat'), 'float')


@model('numpy.inf', 'np.inf: +infinity (supported in comparisons only)')
def _inf(interp, args, kwargs):  # pragma: no cover - attribute, not a call
    raise Unsupported('np.inf is not callable')


#: attribute-valued externals (not calls)
EXT_VALUES = {'numpy.inf': float('inf'), 'numpy.nan': float('nan')}


# ---------------------------------------------------------------------------------------------
# ghost model of the global NumPy generator (C09): the state is an abstract value
# ---------------------------------------------------------------------------------------------
RngState = z3.DeclareSort('RngState')
seeded = z3.Function('rng_seeded', z3.IntSort(), RngState)        # state after np.random.seed(k)
key_word = z3.Function('rng_key_word', RngState, z3.IntSort(), z3.IntSort())   # k-th word of the key array of a state


class GhostRngState(Model):
    """the tuple returned by np.random.get_state(): ('MT19937', key array, pos, has_gauss, cached)"""

    def __init__(self, term):
        self.term = term

    def sym_getitem(self, ctx, idx):
        if idx == 1:
            return GhostRngKey(self.term)
        raise Unsupported('component of the generator state')


class GhostRngKey(Model):
    def __init__(self, term):
        self.term = term

    def sym_getitem(self, ctx, idx):
        if is_intlike(idx):
            return SInt(key_word(self.term, to_int_term(idx)), 'npint')
        raise Unsupported('key index')


def rng_now(ctx):
    if 'RNG' not in ctx.ghost:
        ctx.ghost['RNG'] = z3.Const('RNG0', RngState)
        ctx.ghost['RNG_initial'] = ctx.ghost['RNG']
    return ctx.ghost['RNG']


@model('numpy.random.get_state', 'np.random.get_state(): the current state of the global generator (ghost RNG), no effect')
def _get_state(interp, args, kwargs):
    if args or kwargs:
        raise Unsupported('get_state arguments')
    return GhostRngState(rng_now(interp.ctx))


@model('numpy.random.seed', 'np.random.seed(k): the global generator state becomes a function of the integer k only')
def _seed(interp, args, kwargs):
    (k,) = args
    rng_now(interp.ctx)
    if not is_intlike(k):
        raise Unsupported('np.random.seed of a non-integer')
    interp.ctx.ghost['RNG'] = seeded(to_int_term(k))
    return None


@model('numpy.random.set_state', 'np.random.set_state(s): the global generator state becomes exactly s')
def _set_state(interp, args, kwargs):
    (st,) = args
    rng_now(interp.ctx)
    if not isinstance(st, GhostRngState):
        raise Unsupported('np.random.set_state of a value that is not a saved state')
    interp.ctx.ghost['RNG'] = st.term
    return None


# ---------------------------------------------------------------------------------------------
# NaN-ignoring reductions (C19)
# ---------------------------------------------------------------------------------------------

def _nan_reduction(kind):
    def f(interp, args, kwargs):
        (x,) = args
        if kwargs or not isinstance(x, SArr):
            raise Unsupported(f'np.nan{kind} of this value')
        return nan_reduce(interp.ctx, kind, x)
    return f


def nan_reduce(ctx, kind, x):
    """spec-level NaN-ignoring reduction of a symbolic array (one ghost value per array and kind, with its defining facts);
    used by the library model of np.nanmax / nanmin / nanmean and by contracts that mention these quantities"""
    if True:
        key = ('nanred', kind, id(x))
        if key in ctx.ghost:
            return ctx.ghost[key]
        at = x.at
        allnan = fresh_bool(f'allnan')
        r = fresh_real(f'nan{kind}')
        w = fresh_int('w')
        # all-NaN input: the result is NaN (numpy warns); else: attained bound of the non-NaN elements
        ctx.schemas.append(smt.Forall(0, x.n, lambda j: z3.Implies(allnan, to_real_parts(at(j))[0]), name='an'))
        ctx.assume(z3.Implies(z3.Not(allnan), z3.And(w >= 0, w < x.n, z3.Not(to_real_parts(at(w))[0]), to_real_parts(at(w))[1] == r))
                   if kind in ('max', 'min') else
                   z3.Implies(z3.Not(allnan), z3.And(w >= 0, w < x.n, z3.Not(to_real_parts(at(w))[0]))))
        if kind == 'max':
            ctx.schemas.append(smt.Forall(0, x.n, lambda j: z3.Implies(z3.And(z3.Not(allnan), z3.Not(to_real_parts(at(j))[0])), to_real_parts(at(j))[1] <= r), name='mx'))
        elif kind == 'min':
            ctx.schemas.append(smt.Forall(0, x.n, lambda j: z3.Implies(z3.And(z3.Not(allnan), z3.Not(to_real_parts(at(j))[0])), to_real_parts(at(j))[1] >= r), name='mn'))
        else:
            ctx.underdetermined = True
            # mean of the non-NaN elements: somewhere between their min and max (all the contract says)
            lo = nan_reduce(ctx, 'min', x)
            hi = nan_reduce(ctx, 'max', x)
            ctx.assume(z3.Implies(z3.Not(allnan), z3.And(lo.v <= r, r <= hi.v)))
        ctx.hint(w)
        out = SFloat(r, allnan, 'npfloat')
        ctx.ghost[key] = out
        ctx.ghost.setdefault('nanred_list', []).append((kind, x, out, w))
        return out


LIB['numpy.nanmax'] = _nan_reduction('max')
LIB_DOC['numpy.nanmax'] = 'np.nanmax(a): the largest non-NaN element (attained); NaN if all elements are NaN'
LIB['numpy.nanmin'] = _nan_reduction('min')
LIB_DOC['numpy.nanmin'] = 'np.nanmin(a): the smallest non-NaN element (attained); NaN if all elements are NaN'
LIB['numpy.nanmean'] = _nan_reduction('mean')
LIB_DOC['numpy.nanmean'] = 'np.nanmean(a): a value between nanmin(a) and nanmax(a); NaN if all elements are NaN'


# ---------------------------------------------------------------------------------------------
# slicing, percentile, searchsorted (C04 / C06 / C08)
# ---------------------------------------------------------------------------------------------

def _sarr_slice(self, ctx, idx):
    """a[start:] / a[:stop] / a[start:stop] with Python's clamping semantics, unit step"""
    if idx.step is not None:
        raise Unsupported('slice with a step')
    n = self.n

    def norm(v, default):
        if v is None:
            return default
        t = to_int_term(v)
        t = z3.If(t < 0, t + n, t)
        return z3.If(t < 0, 0, z3.If(t > n, n, t))
    lo, hi = norm(idx.start, z3.IntVal(0)), norm(idx.stop, n)
    ln_ = z3.If(hi > lo, hi - lo, 0)
    at = self.at
    out = SArr(z3.simplify(ln_), (lambda i: at(lo + i)), self.dtype)
    out.slice_of = (self, z3.simplify(lo), z3.simplify(hi))
    return out


_old_getitem = SArr.sym_getitem


def _sarr_getitem(self, ctx, idx):
    if isinstance(idx, slice):
        return _sarr_slice(self, ctx, idx)
    return _old_getitem(self, ctx, idx)


SArr.sym_getitem = _sarr_getitem
LIB_DOC['numpy.ndarray[a:b]'] = 'a[start:stop]: Python slice semantics (negative bounds count from the end, bounds are clamped); -0 is 0'


@model('numpy.percentile', 'np.percentile(a, q) of a non-empty NaN-free 1-D array, 0 <= q <= 100: a value between min(a) and max(a) '
                           '(min for q = 0, max for q = 100), invariant under permutation of a; IndexError on an empty array')
def _percentile(interp, args, kwargs):
    from .engine import PyRaise
    a, q = args
    ctx = interp.ctx
    if kwargs or not isinstance(a, SArr) or not is_numlike(q):
        raise Unsupported('np.percentile call shape')
    if ctx.branch(a.n == 0):
        raise PyRaise('IndexError', 'np.percentile of an empty array')
    _, qv = to_real_parts(q)
    r = fresh_real('pct')
    at = a.at
    ctx.assume(smt.Forall(0, a.n, lambda j: z3.Not(to_real_parts(at(j))[0]), name='pn')) if False else None
    lo, hi = fresh_int('plo'), fresh_int('phi')
    ctx.assume(z3.And(lo >= 0, lo < a.n, hi >= 0, hi < a.n))
    ctx.assume(z3.And(to_real_parts(at(lo))[1] <= r, r <= to_real_parts(at(hi))[1]))
    ctx.schemas.append(smt.Forall(0, a.n, lambda j: z3.And(to_real_parts(at(lo))[1] <= to_real_parts(at(j))[1],
                                                          to_real_parts(at(j))[1] <= to_real_parts(at(hi))[1]), name='pm'))
    ctx.assume(z3.Implies(qv == 0, r == to_real_parts(at(lo))[1]))
    ctx.assume(z3.Implies(qv == 100, r == to_real_parts(at(hi))[1]))
    ctx.hint(lo, hi)
    out = SFloat(r, False, 'npfloat')
    ctx.underdetermined = True
    ctx.ghost.setdefault('percentile_calls', []).append((a, q, out, lo, hi))
    return out


@model('numpy.searchsorted', 'np.searchsorted(sorted list a, v): the left insertion point k: a[i] < v for i < k, a[i] >= v for i >= k, 0 <= k <= len(a)')
def _searchsorted(interp, args, kwargs):
    a, v = args
    ctx = interp.ctx
    if kwargs or not isinstance(a, SList) or not is_numlike(v):
        raise Unsupported('np.searchsorted call shape')
    _, vv = to_real_parts(v)
    k = fresh_int('ss')
    ctx.assume(z3.And(k >= 0, k <= a.len))

    def val(j):
        return to_real_parts(a.elem(j))[1]
    # precondition of the contract: a is sorted ascending (ghost obligation at the call site)
    ctx.oblige('pre@np.searchsorted.sorted', smt.Forall(0, a.len, lambda i, j: val(i) <= val(j), arity=2, name='so'))
    ctx.schemas.append(smt.Forall(0, a.len, lambda j: z3.And(z3.Implies(j < k, val(j) < vv), z3.Implies(j >= k, val(j) >= vv)), name='ss'))
    ctx.hint(k)
    ctx.ghost.setdefault('searchsorted_calls', []).append((a, v, k))
    return SInt(k, 'npint')


# ---------------------------------------------------------------------------------------------
# concrete-length 1-D arrays (step lists of scaler.step_scale): a Python list of scalar values tagged as an ndarray
# ---------------------------------------------------------------------------------------------

class CArr(Model):
    """1-D numpy array whose *length* is a concrete Python int; elements are executor-level scalars"""
    pytype = 'ndarray'
    sym_iter_ok = False

    def __init__(self, items, dtype='float'):
        self.items = list(items)
        self.dtype = dtype

    def __iter__(self):
        raise TypeError('CArr is not iterable natively')

    def sym_len(self, ctx):
        return len(self.items)

    def _other(self, other):
        if isinstance(other, CArr):
            o = other.items
        elif isinstance(other, list) and all(is_numlike(v) for v in other):
            o = list(other)               # numpy converts the list operand with np.asarray
        elif is_numlike(other):
            return [other] * len(self.items)
        else:
            raise Unsupported('CArr operand')
        if len(o) != len(self.items):
            if len(o) == 1:
                return o * len(self.items)
            if len(self.items) == 1:
                raise Unsupported('CArr broadcasting of a 1-element left operand')
            from .engine import PyRaise
            raise PyRaise('ValueError', 'operands could not be broadcast together')
        return o

    def sym_binop(self, ctx, op, other, reflected):
        from .engine import num_binop
        o = self._other(other)
        out = []
        for x, y in zip(self.items, o):
            a, b = (y, x) if reflected else (x, y)
            out.append(num_binop(ctx, op, a, b))      # scalar partial operations emit their own safety obligations
        return CArr(out, 'float' if op == 'Div' or any(is_floatlike(v) for v in out) else self.dtype)

    def sym_compare(self, ctx, op, other, reflected):
        from .engine import num_compare, _FLIP
        o = self._other(other)
        out = []
        for x, y in zip(self.items, o):
            r = num_compare(_FLIP[op] if reflected else op, x, y)
            out.append(r)
        return CArr(out, 'bool')

    def sym_getitem(self, ctx, idx):
        if isinstance(idx, slice):
            if not all(v is None or isinstance(v, int) for v in (idx.start, idx.stop, idx.step)):
                raise Unsupported('CArr slice with symbolic bounds')
            return CArr(self.items[idx], self.dtype)
        if isinstance(idx, int):
            if not -len(self.items) <= idx < len(self.items):
                from .engine import PyRaise
                raise PyRaise('IndexError', 'CArr index')
            return self.items[idx]
        raise Unsupported('CArr index kind')


def _elements(x):
    """the elements of a concrete-length 1-D operand, or None"""
    if isinstance(x, CArr):
        return list(x.items)
    if isinstance(x, (list, tuple)) and all(is_numlike(v) for v in x):
        return list(x)
    if isinstance(x, SArr) and z3.is_int_value(x.n):
        return [x.at(z3.IntVal(k)) for k in range(x.n.as_long())]
    return None


@model('numpy.diff', 'np.diff(a) of a 1-D sequence of k numbers: the k-1 differences a[j+1] - a[j] (empty for k <= 1)')
def _np_diff(interp, args, kwargs):
    from .engine import num_binop
    (x,) = args
    el = _elements(x)
    if kwargs or el is None:
        raise Unsupported('np.diff shape')
    return CArr([num_binop(interp.ctx, 'Sub', el[j + 1], el[j]) for j in range(len(el) - 1)], 'float')


def _np_sum_c(interp, args, kwargs):
    from .engine import num_binop
    (x,) = args
    el = _elements(x)
    if kwargs or el is None:
        raise Unsupported('np.sum of this value')
    out = SFloat(0, False, 'npfloat') if (isinstance(x, CArr) and x.dtype == 'float') or not el else 0
    for v in el:
        out = num_binop(interp.ctx, 'Add', out, v)
    return out


LIB['numpy.sum'] = _np_sum_c
LIB_DOC['numpy.sum'] = 'np.sum(a) of a 1-D sequence of k numbers (k concrete): their sum, 0.0 for the empty float array'


@model('numpy.concatenate', 'np.concatenate((a, b)) of 1-D arrays of concrete lengths: the elements of a followed by those of b')
def _np_concatenate(interp, args, kwargs):
    (parts,) = args
    if kwargs or not isinstance(parts, (tuple, list)):
        raise Unsupported('np.concatenate shape')
    out = []
    for p in parts:
        el = _elements(p)
        if el is None or not isinstance(p, (CArr, SArr)):
            raise Unsupported('np.concatenate operand')
        out.extend(el)
    return CArr(out, 'float')


_any_prev, _all_prev = LIB['numpy.any'], LIB['numpy.all']


def _any_c(interp, args, kwargs):
    if len(args) == 1 and isinstance(args[0], CArr):
        return _any_prev(interp, [list(args[0].items)], kwargs)
    return _any_prev(interp, args, kwargs)


def _all_c(interp, args, kwargs):
    if len(args) == 1 and isinstance(args[0], CArr):
        return _all_prev(interp, [list(args[0].items)], kwargs)
    return _all_prev(interp, args, kwargs)


LIB['numpy.any'], LIB['numpy.all'] = _any_c, _all_c


@model('numpy.cumsum', 'np.cumsum(a) of a 1-D sequence of k numbers (k concrete): the k running sums')
def _np_cumsum(interp, args, kwargs):
    from .engine import num_binop
    (x,) = args
    el = _elements(x)
    if kwargs or el is None:
        raise Unsupported('np.cumsum shape')
    out, acc = [], None
    for v in el:
        acc = v if acc is None else num_binop(interp.ctx, 'Add', acc, v)
        out.append(acc)
    return CArr(out, 'float')


@model('numpy.zeros', 'np.zeros(k) with a concrete int k: k float zeros')
def _np_zeros(interp, args, kwargs):
    (k,) = args
    if kwargs or not isinstance(k, int) or k < 0:
        raise Unsupported('np.zeros shape')
    return CArr([SFloat(0, False, 'npfloat') for _ in range(k)], 'float')


# ---------------------------------------------------------------------------------------------
# sorting of concrete-length sequences; distinct values of a small-domain integer array
# ---------------------------------------------------------------------------------------------

def _finite_reals(ctx, el, what):
    """real terms of the elements; NaN must be excluded (the order of NaN under np.sort is not modelled)"""
    out = []
    for v in el:
        n, r = to_real_parts(v)
        ok = z3.simplify(z3.Not(n)) if not isinstance(n, bool) else z3.BoolVal(not n)
        if not z3.is_true(ok):
            ctx.oblige(f'safe.{what}_of_nan', ok)
            ctx.assume(ok)
        out.append(r)
    return out


def _sorted_terms(r):
    """compare-exchange network (bubble): the ascending rearrangement of the real terms r, as ite-terms"""
    s = list(r)
    for a in range(len(s)):
        for j in range(len(s) - 1 - a):
            lo, hi = z3.If(s[j] <= s[j + 1], s[j], s[j + 1]), z3.If(s[j] <= s[j + 1], s[j + 1], s[j])
            s[j], s[j + 1] = lo, hi
    return s


@model('numpy.sort', 'np.sort(a) of a 1-D sequence of k NaN-free numbers (k concrete): the same values in ascending order')
def _np_sort(interp, args, kwargs):
    (x,) = args
    el = _elements(x)
    if kwargs or el is None:
        raise Unsupported('np.sort shape')
    r = _finite_reals(interp.ctx, el, 'sort')
    return CArr([SFloat(t, False, 'npfloat') for t in _sorted_terms(r)], 'float')


@model('numpy.argsort', 'np.argsort(a) of a 1-D sequence of k NaN-free numbers (k concrete): SOME permutation p of 0..k-1 with '
       'a[p[0]] <= a[p[1]] <= ... (the order among equal values is left open)')
def _np_argsort(interp, args, kwargs):
    (x,) = args
    el = _elements(x)
    if kwargs or el is None:
        raise Unsupported('np.argsort shape')
    ctx = interp.ctx
    r = _finite_reals(ctx, el, 'argsort')
    k = len(r)
    s = _sorted_terms(r)
    p = [fresh_int(f'argsort{j}') for j in range(k)]
    for j in range(k):
        ctx.assume(z3.And(p[j] >= 0, p[j] < k))
        sel = r[k - 1]
        for c in range(k - 2, -1, -1):
            sel = z3.If(p[j] == c, r[c], sel)
        ctx.assume(sel == s[j])
    if k > 1:
        ctx.assume(z3.Distinct(*p))
    return CArr([SInt(t, 'npint') for t in p], 'int')


def _carr_setitem(self, ctx, idx, val):
    if isinstance(idx, int) and is_numlike(val):
        if not -len(self.items) <= idx < len(self.items):
            from .engine import PyRaise
            raise PyRaise('IndexError', 'CArr store index')
        self.items[idx] = val
        return
    raise Unsupported('CArr store kind')


CArr.sym_setitem = _carr_setitem


def distinct_count(ctx, x, dom):
    """integer term: the number of values v in dom that occur in the int array x.  Definitional extension: for every v a fresh Bool
    occ_v with  occ_v => x[w_v] == v  (w_v a fresh row)  and  for all rows r: x[r] == v => occ_v."""
    at = x.at
    total = 0
    for v in dom:
        occ, w = smt.fresh(f'occurs_{v}', z3.BoolSort()), fresh_int(f'row_of_{v}')
        ctx.assume(z3.Implies(occ, z3.And(w >= 0, w < x.n, to_int_term(at(w)) == v)))
        ctx.assume(smt.Forall(0, x.n, lambda r, v=v, occ=occ: z3.Implies(to_int_term(at(r)) == v, occ), name=f'occ{v}'))
        ctx.hint(w)
        total = total + z3.If(occ, 1, 0)
    return total


class SUnique(Model):
    """np.unique(a) of an integer array whose values lie in a small known domain: only its length is modelled"""
    pytype = 'ndarray'

    def __init__(self, count):
        self.count = count

    def sym_len(self, ctx):
        return SInt(self.count)


@model('numpy.unique', 'len(np.unique(a)) of a 1-D int array a whose values lie in a finite domain D (proved at the call): the number of '
       'values v in D with a[r] == v for some row r')
def _np_unique(interp, args, kwargs):
    (x,) = args
    ctx = interp.ctx
    dom = ctx.ghost.get('int_domain')
    if kwargs or not (isinstance(x, SArr) and x.dtype == 'int') or not dom:
        raise Unsupported('np.unique of this value')
    at = x.at
    ind = smt.Forall(0, x.n, lambda r: z3.Or(*[to_int_term(at(r)) == v for v in dom]))
    ctx.oblige('safe.unique_domain', ind)
    ctx.assume(ind)
    total = distinct_count(ctx, x, dom)
    return SUnique(total)


@model('numpy.isclose', 'np.isclose(a, b) of two scalars with the default tolerances: |a - b| <= 1e-8 + 1e-5 * |b|; False if either is NaN')
def _np_isclose(interp, args, kwargs):
    if kwargs or len(args) != 2 or not all(is_numlike(x) for x in args):
        raise Unsupported('np.isclose of these values')
    (na, a), (nb, b) = to_real_parts(args[0]), to_real_parts(args[1])
    d = z3.If(a - b >= 0, a - b, b - a)
    absb = z3.If(b >= 0, b, -b)
    close = d <= z3.RealVal('1/100000000') + z3.RealVal('1/100000') * absb
    nan = z3.Or(na if not isinstance(na, bool) else z3.BoolVal(na), nb if not isinstance(nb, bool) else z3.BoolVal(nb))
    return SBool(z3.And(z3.Not(nan), close), 'npbool')
