"""pyvc.rows_model -- *assumed* contracts of the pandas operations used on the per-hit frame (`row dialect`).

A row frame has a symbolic number n of *base* rows; row i carries an index label L(i), the column values and a presence
flag keep(i) (rows dropped by DataFrame.drop stay in the base but are absent).  Label-based operations (.loc[labels, c] =,
drop(labels)) are modelled with their true pandas meaning -- every row whose label occurs among the given labels -- which
coincides with the positional meaning only when labels are unique.
"""
from __future__ import annotations
import itertools

import z3

from . import smt
from .smt import lift, fresh, fresh_int, fresh_bool, memo1
from .values import (Opaque, SInt, SBool, SFloat, SStr, Model, Unsupported, is_numlike, is_intlike, to_real_parts, to_int_term,
                     to_bool_term, ite_val, raw, BoolArr, cnt)
from .pandas_model import SSeries
from .lib import LIB_DOC

LIB_DOC['pandas.DataFrame.<col> / [col]'] = 'column access by name: the column aligned with the rows of the frame'
LIB_DOC['pandas.Series & Series'] = 'bool Series & bool Series (same frame): element-wise AND'
LIB_DOC['pandas.DataFrame[bool Series].index'] = 'the index labels of the rows where the mask is True (in row order)'
LIB_DOC['pandas.DataFrame.loc[labels, col] = v'] = 'sets col to v in EVERY row whose index label occurs in labels'
LIB_DOC['pandas.DataFrame.drop(labels)'] = 'new frame without ANY row whose index label occurs in labels; other rows and their order unchanged'
LIB_DOC['pandas.DataFrame.reset_index(drop=True)'] = 'same rows, index labels replaced by 0..len-1'
LIB_DOC['len(Index)'] = 'number of labels selected (one per selected row)'

_ids = itertools.count()


class SRows(Model):
    pytype = 'DataFrame'

    def __init__(self, n, cols, label, keep=None, positional=False, name='rows'):
        self.n = lift(n)
        self.cols = {k: memo1(v) for k, v in dict(cols).items()}            # name -> closure i -> executor value
        self.kinds = {}
        self.label = label                # closure i -> z3 Int
        self.keep = keep                  # None (all present) or closure i -> z3 Bool
        self.positional = positional      # ghost: label(i) == i for every present row (RangeIndex)
        self.fid = next(_ids)

    def present(self, i):
        return z3.BoolVal(True) if self.keep is None else self.keep(i)

    def column(self, name):
        if name not in self.cols:
            from .engine import PyRaise
            raise PyRaise('KeyError', name)
        out = SRowSeries(self, self.cols[name], self.kinds.get(name, 'float'))
        out.column_of = name          # a column handed out by the frame: whether an in-place operator writes through is pandas-version lore
        return out

    def sym_getattr(self, ctx, name):
        if name in self.cols:
            return self.column(name)
        return super().sym_getattr(ctx, name)

    def sym_getitem(self, ctx, idx):
        if isinstance(idx, str):
            return self.column(idx)
        if isinstance(idx, SRowSeries) and idx.dtype == 'bool':
            if idx.frame.fid != self.fid:
                raise Unsupported('boolean mask taken from another frame')
            return SRowsSel(self, idx)
        raise Unsupported('row-frame index kind')

    def a_loc(self, ctx):
        return _RowsLoc(self)

    def a_index(self, ctx):
        raise Unsupported('index of a whole row frame')

    def sym_len(self, ctx):
        if self.keep is None:
            return SInt(self.n)
        M = fresh('keep', BoolArr)
        ctx.assume(smt.Forall(0, self.n, lambda i: M[i] == self.keep(i), name='kp'))
        ctx.note_cnt(M)
        ctx.hint(self.n)
        return SInt(cnt(M, self.n))

    def m_reset_index(self, ctx, drop=False, inplace=False, **kw):
        if kw or drop is not True or inplace is not False:
            raise Unsupported('reset_index shape')
        if self.keep is not None:
            # rows were dropped: the remaining rows are relabelled 0..k-1 in row order -- label of a present row = number of
            # present rows before it (base rows and presence flags are kept, so row-wise statements stay meaningful)
            Kp = fresh('kept', BoolArr)
            keep = self.keep
            ctx.assume(smt.Forall(0, self.n, lambda i: Kp[i] == keep(i), name='kp'))
            ctx.note_cnt(Kp)
            return SRows(self.n, self.cols, (lambda i: cnt(Kp, i)), keep, positional=False)._with_kinds(self.kinds)
        return SRows(self.n, self.cols, (lambda i: i), None, positional=True)._with_kinds(self.kinds)

    def _with_kinds(self, kinds):
        self.kinds = dict(kinds)
        return self

    def selected_by_labels(self, ctx, labels: 'SLabels'):
        """closure i -> z3 Bool: row i's label occurs among `labels` (labels taken from this very frame)"""
        if labels.frame.fid != self.fid:
            raise Unsupported('labels taken from another frame')
        m = labels.mask
        if self.positional:
            return memo1(lambda i: m(i))
        # general pandas meaning, exact, quantifier-free through a Skolem witness function
        k = next(_ids)
        SEL = z3.Function(f'labsel!{k}', z3.IntSort(), z3.BoolSort())
        W = z3.Function(f'labwit!{k}', z3.IntSort(), z3.IntSort())
        n, L = self.n, self.label
        ctx.assume(smt.Forall(0, n, lambda i: z3.Implies(m(i), SEL(i)), name='ls'))
        ctx.assume(smt.Forall(0, n, lambda i: z3.Implies(SEL(i), z3.And(W(i) >= 0, W(i) < n, m(W(i)), L(W(i)) == L(i))), name='lw'))
        # ... and every row sharing a label with a masked row is selected
        ctx.assume(smt.Forall(0, n, lambda i, j: z3.And(z3.Implies(z3.And(m(i), L(i) == L(j)), SEL(j)),
                                                        z3.Implies(z3.And(m(j), L(i) == L(j)), SEL(i))), arity=2, name='lp'))
        ctx.term_maps.append(W)
        return memo1(lambda i: SEL(i))

    def m_drop(self, ctx, labels, **kw):
        if kw or not isinstance(labels, SLabels):
            raise Unsupported('drop shape')
        sel = self.selected_by_labels(ctx, labels)
        old = self.keep
        prev = self.keep
        new = SRows(self.n, self.cols, self.label,
                    keep=memo1(lambda i: z3.And(z3.BoolVal(True) if prev is None else prev(i), z3.Not(sel(i)))),
                    positional=self.positional)       # labels of the remaining rows are untouched
        return new._with_kinds(self.kinds)

    def set_by_labels(self, ctx, labels, col, val):
        sel = self.selected_by_labels(ctx, labels)
        if col not in self.cols:
            raise Unsupported('label-based assignment creating a column')
        old = self.cols[col]
        self.cols[col] = memo1(lambda i, old=old: ite_val(sel(i), val, old(i)))


class SRowSeries(SSeries):
    """a column (or a boolean mask) aligned with the base rows of one frame"""
    pytype = 'Series'

    def __init__(self, frame, at, dtype):
        super().__init__(frame.n, memo1(at), dtype)
        self.frame = frame

    def _same(self, other):
        if isinstance(other, SRowSeries) and other.frame.fid != self.frame.fid:
            raise Unsupported('operation on Series of different frames (index alignment)')

    def sym_compare(self, ctx, op, other, reflected):
        from .engine import num_compare
        if isinstance(other, SRowSeries):
            self._same(other)
            a, b = self.at, other.at
            f = lambda i: num_compare(op, a(i), b(i))
        elif is_numlike(other):
            a = self.at
            f = lambda i: num_compare(op, a(i), other)
        else:
            raise Unsupported('Series compare with this value')

        def g(i):
            r = f(i)
            return SBool(lift(r), 'npbool') if isinstance(r, bool) else r
        return SRowSeries(self.frame, g, 'bool')

    def sym_binop(self, ctx, op, other, reflected):
        if op in ('BitAnd', 'Mult') and self.dtype == 'bool' and isinstance(other, SRowSeries) and other.dtype == 'bool':
            self._same(other)
            a, b = self.at, other.at
            return SRowSeries(self.frame, lambda i: SBool(z3.And(to_bool_term(a(i)), to_bool_term(b(i))), 'npbool'), 'bool')
        if op == 'BitOr' and self.dtype == 'bool' and isinstance(other, SRowSeries) and other.dtype == 'bool':
            self._same(other)
            a, b = self.at, other.at
            return SRowSeries(self.frame, lambda i: SBool(z3.Or(to_bool_term(a(i)), to_bool_term(b(i))), 'npbool'), 'bool')
        raise Unsupported(f'row Series binop {op}')


def _series_apply(self, ctx, fn):
    """Series.apply(f): element-wise application of a Python function (here: a lambda of the verified code)"""
    interp = ctx.interp
    a = self.at

    def g(i):
        r = interp.call(fn, [a(i)], {})
        return SBool(lift(r), 'npbool') if isinstance(r, bool) else r
    return SRowSeries(self.frame, g, 'bool')


def _series_sum(self, ctx):
    if self.dtype != 'bool':
        raise Unsupported('sum of a non-boolean row Series')
    fr, m = self.frame, self.at
    M = fresh('summask', BoolArr)
    ctx.assume(smt.Forall(0, fr.n, lambda i: M[i] == z3.And(fr.present(i), to_bool_term(m(i))), name='sm'))
    ctx.note_cnt(M)
    ctx.hint(fr.n)
    ctx.ghost.setdefault('mask_sums', []).append((self, M))
    # a positive count has a witness (skolemised contrapositive of the proved lemma prop.C02.nosig: no True below n => count 0)
    w = fresh_int('sumw')
    ctx.assume(z3.Implies(cnt(M, fr.n) > 0, z3.And(w >= 0, w < fr.n, M[w])))
    ctx.hint(w)
    ctx.used_lemmas.add('prop.C02.nosig')
    return SInt(cnt(M, fr.n), 'npint')


SRowSeries.m_apply = _series_apply
SRowSeries.m_sum = _series_sum
LIB_DOC['pandas.Series.apply(f)'] = 's.apply(f): the Series of f(element) for every element (f pure)'
LIB_DOC['pandas.Series.sum() of booleans'] = 'number of True elements'


class SRowsSel(SRows):
    """data[mask]: the rows of `frame` where the mask holds -- a frame of its own (same base rows, same labels, presence flags
    narrowed), whose .index is the labels of those rows"""
    pytype = 'DataFrame'

    def __init__(self, frame, mask):
        m = mask.at
        SRows.__init__(self, frame.n, frame.cols, frame.label,
                       keep=memo1(lambda i: z3.And(frame.present(i), to_bool_term(m(i)))), positional=frame.positional)
        self.kinds = dict(frame.kinds)
        self.fid = frame.fid            # the labels it hands out are labels of the frame it was taken from
        self.frame, self.mask = frame, mask
        if hasattr(frame, 'index_id'):
            self.index_id = frame.index_id

    def a_index(self, ctx):
        fr, m = self.frame, self.mask.at
        return SLabels(fr, memo1(lambda i: z3.And(fr.present(i), to_bool_term(m(i)))))


class SLabels(Model):
    """index labels of the rows of `frame` where mask holds"""
    pytype = 'Index'

    def __init__(self, frame, mask):
        self.frame, self.mask = frame, mask
        self.arr = None

    def materialize(self, ctx):
        if self.arr is None:
            M = fresh('labmask', BoolArr)
            m = self.mask
            ctx.assume(smt.Forall(0, self.frame.n, lambda i: M[i] == m(i), name='lm'))
            ctx.note_cnt(M)
            ctx.hint(self.frame.n)
            ctx.ghost.setdefault('label_masks', []).append(M)
            self.arr = M
        return self.arr

    def sym_len(self, ctx):
        return SInt(cnt(self.materialize(ctx), self.frame.n))


class SRowSelCol(Model):
    """data.loc[mask, col]: the values of one column in the rows where the mask holds (a Series)"""
    pytype = 'Series'

    def __init__(self, frame, mask, col):
        self.frame, self.mask, self.col = frame, mask, col

    def sel(self, i):
        return z3.And(self.frame.present(i), to_bool_term(self.mask.at(i)))

    def _reduce(self, ctx, kind, skipna=True, **kw):
        if kw or skipna is not True:
            raise Unsupported(f'Series.{kind} options')
        fr = self.frame
        if fr.kinds.get(self.col) != 'float':
            raise Unsupported(f'Series.{kind} of a non-float column')
        at = fr.cols[self.col]
        v, vn = smt.fresh_real(kind), fresh_bool(kind + '_nan')
        res = SFloat(v, vn, 'npfloat')
        valid = lambda j: z3.And(self.sel(j), z3.Not(at(j).nan))
        val = lambda j: at(j).v
        # NaN exactly when no valid value is selected
        if kind != 'std':
            ctx.assume(smt.Forall(0, fr.n, lambda j: z3.Implies(valid(j), z3.Not(vn)), name='rd'))
        wa, wb = fresh_int(kind + '_wa'), fresh_int(kind + '_wb')
        inr = lambda w: z3.And(w >= 0, w < fr.n, valid(w))
        if kind == 'min':
            ctx.assume(z3.Implies(z3.Not(vn), z3.And(inr(wa), v == val(wa))))
            ctx.assume(smt.Forall(0, fr.n, lambda j: z3.Implies(valid(j), v <= val(j)), name='rl'))
        elif kind == 'max':
            ctx.assume(z3.Implies(z3.Not(vn), z3.And(inr(wa), v == val(wa))))
            ctx.assume(smt.Forall(0, fr.n, lambda j: z3.Implies(valid(j), v >= val(j)), name='rl'))
        elif kind == 'mean':
            ctx.assume(z3.Implies(z3.Not(vn), z3.And(inr(wa), inr(wb), val(wa) <= v, v <= val(wb))))
        elif kind == 'std':
            # sample standard deviation (ddof=1): NaN with fewer than two valid values, else a non-negative number
            ctx.assume(z3.Implies(z3.Not(vn), z3.And(v >= 0, inr(wa))))
        else:
            raise Unsupported(kind)
        ctx.hint(wa, wb)
        ctx.ghost.setdefault('reductions', []).append((kind, self, res))
        return res

    def m_min(self, ctx, **kw):
        return self._reduce(ctx, 'min', **kw)

    def m_max(self, ctx, **kw):
        return self._reduce(ctx, 'max', **kw)

    def m_mean(self, ctx, **kw):
        return self._reduce(ctx, 'mean', **kw)

    def m_std(self, ctx, **kw):
        return self._reduce(ctx, 'std', **kw)


LIB_DOC['pandas.DataFrame.loc[bool Series, col]'] = 'the values of col in the rows where the mask is True'
LIB_DOC['pandas.Series.min/max(skipna=True)'] = 'the smallest / largest non-NaN value (one of the values); NaN iff there is no non-NaN value'
LIB_DOC['pandas.Series.mean(skipna=True)'] = 'a value between the smallest and the largest non-NaN value; NaN iff there is none'
LIB_DOC['pandas.Series.std(skipna=True)'] = 'NaN or a non-negative number'


class SRowSelCols(Model):
    """data.loc[mask, [c1, c2]]: a sub-frame; only .values is modelled (an opaque 2-D array that remembers its selection)"""
    pytype = 'DataFrame'

    def __init__(self, frame, mask, cols):
        self.frame, self.mask, self.cols = frame, mask, tuple(cols)

    def sel(self, i):
        return z3.And(self.frame.present(i), to_bool_term(self.mask.at(i)))

    def a_values(self, ctx):
        return SSelValues(self)


class SSelValues(Model):
    pytype = 'ndarray'

    def __init__(self, selection):
        self.selection = selection

    def a_ndim(self, ctx):
        return 2


LIB_DOC['pandas.DataFrame.loc[bool Series, [cols]].values'] = '2-D array, one row per selected row, the listed columns in order'


class _RowsLoc(Model):
    def __init__(self, frame):
        self.frame = frame

    def sym_getitem(self, ctx, idx):
        if isinstance(idx, tuple) and len(idx) == 2 and isinstance(idx[0], SRowSeries) and idx[0].dtype == 'bool':
            if idx[0].frame.fid != self.frame.fid:
                raise Unsupported('boolean mask taken from another frame')
            if isinstance(idx[1], str):
                if idx[1] not in self.frame.cols:
                    from .engine import PyRaise
                    raise PyRaise('KeyError', idx[1])
                return SRowSelCol(self.frame, idx[0], idx[1])
            if isinstance(idx[1], list) and all(isinstance(c, str) and c in self.frame.cols for c in idx[1]):
                return SRowSelCols(self.frame, idx[0], idx[1])
        raise Unsupported('.loc[...] read shape on a row frame')

    def sym_setitem(self, ctx, idx, val):
        if isinstance(idx, tuple) and len(idx) == 2 and isinstance(idx[0], SLabels) and isinstance(idx[1], str):
            if not is_numlike(val):
                raise Unsupported('label-based assignment of this value')
            return self.frame.set_by_labels(ctx, idx[0], idx[1], val)
        if isinstance(idx, tuple) and len(idx) == 2 and isinstance(idx[0], SRowSeries) and idx[0].dtype == 'bool' \
                and isinstance(idx[1], str) and is_numlike(val):
            # .loc[bool Series, col] = scalar: the mask is aligned on the index; for a mask taken from this very frame that is
            # row by row
            fr, m = self.frame, idx[0]
            if m.frame.fid != fr.fid:
                raise Unsupported('boolean mask taken from another frame')
            if idx[1] not in fr.cols:
                raise Unsupported('mask-based assignment creating a column')
            old = fr.cols[idx[1]]
            at = m.at
            fr.cols[idx[1]] = memo1(lambda i, old=old: ite_val(z3.And(fr.present(i), to_bool_term(at(i))), val, old(i)))
            ctx.ghost.setdefault('row_writes', []).append((idx[1], m, val))
            return None
        raise Unsupported('.loc[...] = shape on a row frame')


# ---------------------------------------------------------------------------------------------
# operations of the slicing stage (find_slices): column creation, masks of a frame copy, label assignment from an array
# ---------------------------------------------------------------------------------------------
LIB_DOC['pandas.Series.notna()'] = 'True where the value is not NaN'
LIB_DOC['pandas.DataFrame.loc[:, col] = scalar'] = 'sets (or creates) the column col with that value in every row'
LIB_DOC['pandas.DataFrame.loc[bool Series, [col]] = scalar / array'] = ('rows where the mask (aligned on the index) is True get the scalar, or '
                                                                        'the k-th element of the array for the k-th such row; the array '
                                                                        'length must equal the number of such rows (ValueError otherwise)')
LIB_DOC['pandas.DataFrame[[cols]][bool Series].to_numpy()'] = '2-D array, one row per selected row, the listed columns in order'
LIB_DOC['pandas.Series[bool Series] / len'] = 'the selected elements; len = number of True in the mask'


def _same_index(a: SRows, b: SRows) -> bool:
    """two frames whose rows and index labels are the same, in the same order (a frame and its copy)"""
    return a.fid == b.fid or (getattr(a, 'index_id', a.fid) == getattr(b, 'index_id', b.fid))


def _series_notna(self, ctx):
    a = self.at
    return SRowSeries(self.frame, lambda i: SBool(z3.Not(to_real_parts(a(i))[0]), 'npbool'), 'bool')


SRowSeries.m_notna = _series_notna


class SRowSelSeries(Model):
    """series[bool Series]"""
    pytype = 'Series'

    def __init__(self, series, mask):
        self.series, self.mask = series, mask

    def sym_len(self, ctx):
        fr = self.series.frame
        m = self.mask.at
        M = getattr(self.mask, '_selmask', None)        # one array per mask object: the same mask counted twice is one count
        if M is None:
            M = fresh('selmask', BoolArr)
            ctx.assume(smt.Forall(0, fr.n, lambda i: M[i] == z3.And(fr.present(i), to_bool_term(m(i))), name='sl'))
            ctx.note_cnt(M)
            ctx.hint(fr.n, 0)
            self.mask._selmask = M
            ctx.ghost.setdefault('mask_arrays', []).append((self.mask, M))
        ctx.cnt_mono = True          # (count 0 <=> no selected row needs the monotonicity instances of cnt)
        return SInt(cnt(M, fr.n))


def _rowseries_getitem(self, ctx, idx):
    if isinstance(idx, SRowSeries) and idx.dtype == 'bool':
        if not _same_index(idx.frame, self.frame):
            raise Unsupported('boolean mask with another index')
        return SRowSelSeries(self, idx)
    raise Unsupported('row Series index kind')


SRowSeries.sym_getitem = _rowseries_getitem


def _rows_loc_getitem2(self, ctx, idx):
    if isinstance(idx, tuple) and len(idx) == 2 and isinstance(idx[0], slice) and idx[0] == slice(None, None, None) and isinstance(idx[1], str):
        return self.frame.column(idx[1])
    return _rows_loc_getitem1(self, ctx, idx)


def _mask_array(ctx, fr, mask):
    """materialised  present & mask  of a mask aligned with frame fr"""
    M = fresh('asgmask', BoolArr)
    m = mask.at
    ctx.assume(smt.Forall(0, fr.n, lambda i: M[i] == z3.And(fr.present(i), to_bool_term(m(i))), name='am'))
    ctx.note_cnt(M)
    ctx.hint(fr.n)
    return M


def _rows_loc_setitem2(self, ctx, idx, val):
    fr = self.frame
    if isinstance(idx, tuple) and len(idx) == 2 and isinstance(idx[0], slice) and idx[0] == slice(None, None, None) and isinstance(idx[1], str):
        if val is None:
            fr.cols[idx[1]] = memo1(lambda i: Opaque('None cell'))
            fr.kinds[idx[1]] = 'object'
            return None
        if not is_numlike(val):
            raise Unsupported('column fill with this value')
        fr.cols[idx[1]] = memo1(lambda i, val=val: val)
        fr.kinds[idx[1]] = 'int' if is_intlike(val) else 'float'
        ctx.ghost.setdefault('row_writes', []).append((idx[1], 'all rows', val))
        return None
    if isinstance(idx, tuple) and len(idx) == 2 and isinstance(idx[0], SRowSeries) and idx[0].dtype == 'bool' \
            and isinstance(idx[1], list) and len(idx[1]) == 1 and isinstance(idx[1][0], str):
        col, mask = idx[1][0], idx[0]
        if not _same_index(mask.frame, fr) or not (fr.positional and mask.frame.positional):
            raise Unsupported('boolean mask aligned on another / non-unique index')
        if col not in fr.cols:
            raise Unsupported('mask-based assignment creating a column')
        old = fr.cols[col]
        m = mask.at
        if is_numlike(val):
            fr.cols[col] = memo1(lambda i, old=old: ite_val(z3.And(fr.present(i), to_bool_term(m(i))), val, old(i)))
            ctx.ghost.setdefault('row_writes', []).append((col, mask, val))
            return None
        from .lib import SArr
        if isinstance(val, SArr):
            M = _mask_array(ctx, fr, mask)
            src = getattr(val, 'of_selection', None)      # ghost: the row selection these values were computed from
            if src is not None:
                S = src
                # each value goes back to the row it was computed from: the assignment mask is that selection (then the counts
                # agree: instance of the proved lemma cnt_ext)
                ctx.oblige('safe.values_go_back_to_their_rows', smt.Forall(0, fr.n, lambda j: M[j] == S[j]))
                ctx.assume(smt.Forall(0, fr.n, lambda j: M[j] == S[j], name='gb'))
                ctx.assume(cnt(M, fr.n) == cnt(S, fr.n))
                ctx.used_lemmas.add('cnt_ext')
            ctx.safe('setitem_length', cnt(M, fr.n) == val.n, exc='ValueError')
            ctx.cnt_mono = True
            ctx.term_maps.append(lambda t, M=M: cnt(M, t))
            va = val.at
            fr.cols[col] = memo1(lambda i, old=old: ite_val(M[lift(i)], va(cnt(M, lift(i))), old(i)))
            ctx.ghost.setdefault('row_writes', []).append((col, mask, val))
            return None
    return _rows_loc_setitem1(self, ctx, idx, val)


_rows_loc_getitem1, _rows_loc_setitem1 = _RowsLoc.sym_getitem, _RowsLoc.sym_setitem
_RowsLoc.sym_getitem, _RowsLoc.sym_setitem = _rows_loc_getitem2, _rows_loc_setitem2


def _rows_setitem(self, ctx, idx, val):
    from .pandas_model import SSeries as _SS
    if isinstance(idx, str) and isinstance(val, _SS):
        if isinstance(val, SRowSeries) and not _same_index(val.frame, self):
            raise Unsupported('column assignment from a Series with another index')
        ctx.safe('setcol_len', val.n == self.n, exc='ValueError')
        at = val.at
        self.cols[idx] = memo1(lambda i: at(i))
        self.kinds[idx] = val.dtype
        return None
    raise Unsupported('row-frame column assignment kind')


SRows.sym_setitem = _rows_setitem


class SRowsCols(Model):
    """frame[[c1, c2]]"""
    pytype = 'DataFrame'

    def __init__(self, frame, cols):
        self.frame, self.cols = frame, tuple(cols)

    def sym_getitem(self, ctx, idx):
        if isinstance(idx, SRowSeries) and idx.dtype == 'bool':
            if not _same_index(idx.frame, self.frame):
                raise Unsupported('boolean mask with another index')
            return SRowSelCols(self.frame, idx, self.cols)
        raise Unsupported('column-subset index kind')


def _rows_getitem2(self, ctx, idx):
    if isinstance(idx, list) and idx and all(isinstance(c, str) for c in idx):
        for c in idx:
            if c not in self.cols:
                from .engine import PyRaise
                raise PyRaise('KeyError', c)
        return SRowsCols(self, idx)
    if isinstance(idx, SRowSeries) and idx.dtype == 'bool' and idx.frame.fid != self.fid and _same_index(idx.frame, self):
        return SRowsSel(self, idx)
    return _rows_getitem1(self, ctx, idx)


_rows_getitem1 = SRows.sym_getitem
SRows.sym_getitem = _rows_getitem2
SRowSelCols.m_to_numpy = lambda self, ctx: SSelValues(self)


def _selvalues_len(self, ctx):
    sel = self.selection
    return SRowSelSeries(SRowSeries(sel.frame, lambda i: SBool(True), 'bool'), sel.mask).sym_len(ctx)


SSelValues.sym_len = _selvalues_len
