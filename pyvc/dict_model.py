"""pyvc.dict_model -- nested parameter dictionaries (`tree dialect`, C12).

A parameter value is an element of the uninterpreted sort PVal: a leaf or a dictionary.  Dictionaries are *mathematical* values
described by  isdict(v), has(v, key), get(v, key);  a Python dict object is a holder (`SPVal`) whose current value changes when it
is written.  A holder obtained by reading `parent[key]` remembers where it came from and writes through to its parent, which is
exactly Python's reference semantics for *tree-shaped* nestings (every nested dict referenced from one place: what yaml.load and
copy.deepcopy return) -- assumption A-TREE, listed in the evidence.

Key enumeration of a dictionary value v (for `for key, item in d.items()`): nkeys(v) >= 0 keys key_at(v, 0..nkeys-1), pairwise
distinct, exactly the keys with has(v, .); idx(v, key) is the inverse (position of a key).  Universals over keys are `smt.ForallKey`
schemas, instantiated at the key terms met on the path.
"""
from __future__ import annotations

import z3

from . import smt
from .smt import fresh, fresh_int
from .values import Model, SBool, SStr, SInt, Unsupported, Opaque
from .lib import LIB, LIB_DOC

PVal = z3.DeclareSort('PVal')
K = z3.StringSort()
isdict = z3.Function('pv_isdict', PVal, z3.BoolSort())
has = z3.Function('pv_has', PVal, K, z3.BoolSort())
get = z3.Function('pv_get', PVal, K, PVal)
nkeys = z3.Function('pv_nkeys', PVal, z3.IntSort())
key_at = z3.Function('pv_key_at', PVal, z3.IntSort(), K)
idx = z3.Function('pv_idx', PVal, K, z3.IntSort())
depth = z3.Function('pv_depth', PVal, z3.IntSort())       # nesting depth: finite trees (no cyclic dictionaries)

LIB_DOC['dict'] = ('Python dict as a finite map: d[k] / d[k] = v / k in d.keys() / d.items() (each key once); nested dicts are trees '
                   '(A-TREE: no dict object is reachable through two different paths, no cycles)')


def enumeration_facts(ctx, v):
    """the key enumeration of dictionary value v (assumed once per value term)"""
    done = ctx.ghost.setdefault('enumerated', [])
    if any(v.eq(u) for u in done):
        return
    done.append(v)
    n = nkeys(v)
    ctx.assume(n >= 0)
    ctx.assume(smt.Forall(0, n, lambda j: z3.And(has(v, key_at(v, j)), idx(v, key_at(v, j)) == j), name='en'))
    ctx.assume(smt.ForallKey(lambda k: z3.Implies(has(v, k), z3.And(idx(v, k) >= 0, idx(v, k) < n, key_at(v, idx(v, k)) == k)), name='ek'))
    # finite tree: a nested dictionary is strictly shallower
    ctx.assume(smt.ForallKey(lambda k: z3.Implies(z3.And(has(v, k), isdict(get(v, k))), z3.And(depth(get(v, k)) >= 0, depth(get(v, k)) < depth(v))), name='dp'))
    ctx.assume(depth(v) >= 0)


class SPVal(Model):
    """holder of a parameter value (a dict object, or an immutable leaf)"""
    pytype = 'PVal'

    def __init__(self, val, parent=None, pkey=None, name='pv'):
        self.val = val
        self.parent, self.pkey = parent, pkey
        self.name = name
        self.writes = 0
        self.children = []          # (key term, holder) of the nested objects handed out so far

    # -- type tests ------------------------------------------------------------------------------
    def sym_isinstance(self, ctx, names):
        if names == ['dict']:
            return SBool(isdict(self.val))
        raise Unsupported(f'isinstance of a parameter value against {names}')

    def _need_dict(self, ctx, what):
        ctx.safe(f'is_dict.{what}', isdict(self.val), exc='AttributeError')

    # -- reads ------------------------------------------------------------------------------------
    def m_keys(self, ctx):
        self._need_dict(ctx, 'keys')
        return SPKeys(self)

    def m_items(self, ctx):
        self._need_dict(ctx, 'items')
        return SPItems(self)

    def sym_getitem(self, ctx, key):
        if not isinstance(key, (SStr, str)):
            raise Unsupported('parameter dict indexed by a non-string')
        k = key.t if isinstance(key, SStr) else z3.StringVal(key)
        ctx.safe('is_dict.getitem', isdict(self.val), exc='TypeError')
        ctx.safe('key_present', has(self.val, k), exc='KeyError')
        ctx.hint_key(k)
        return self.child(k)

    def child(self, k):
        """the holder of the object stored under key k (one holder per key term; its value is re-read from this dictionary,
        which write-through keeps current)"""
        for k2, h in self.children:
            if k2.eq(k):
                if h.parent is self:
                    h.val = get(self.val, k)
                    return h
        h = SPVal(get(self.val, k), parent=self, pkey=k, name=f'{self.name}[..]')
        self.children.append((k, h))
        return h

    def sym_contains(self, ctx, key):
        if not isinstance(key, (SStr, str)):
            raise Unsupported('membership of a non-string in a parameter dict')
        k = key.t if isinstance(key, SStr) else z3.StringVal(key)
        self._need_dict(ctx, 'contains')
        ctx.hint_key(k)
        return SBool(has(self.val, k))

    # -- writes -----------------------------------------------------------------------------------
    def sym_setitem(self, ctx, key, value):
        if not isinstance(key, (SStr, str)):
            raise Unsupported('parameter dict store with a non-string key')
        if not isinstance(value, SPVal):
            raise Unsupported('parameter dict store of a value outside the tree dialect')
        k = key.t if isinstance(key, SStr) else z3.StringVal(key)
        ctx.safe('is_dict.setitem', isdict(self.val), exc='TypeError')
        old, x = self.val, value.val
        new = fresh(self.name.split('[')[0] + '_v', PVal)
        ctx.assume(isdict(new))
        ctx.assume(smt.ForallKey(lambda q: has(new, q) == z3.Or(q == k, has(old, q)), name='sh'))
        ctx.assume(smt.ForallKey(lambda q: get(new, q) == z3.If(q == k, x, get(old, q)), name='sg'))
        ctx.hint_key(k)
        self.val = new
        self.writes += 1
        ctx.ghost.setdefault('dict_writes', []).append((self, k, value))
        # the stored object now lives under this key: later writes to it write through
        if value is not self:
            value.parent, value.pkey = self, k
            self.children = [(k2, h) for k2, h in self.children if not k2.eq(k)] + [(k, value)]
        self._write_through(ctx)

    def _write_through(self, ctx):
        p, k = self.parent, self.pkey
        if p is None:
            return
        old = p.val
        new = fresh(p.name.split('[')[0] + '_v', PVal)
        ctx.assume(isdict(new))
        ctx.assume(smt.ForallKey(lambda q: has(new, q) == has(old, q), name='wh'))
        ctx.assume(smt.ForallKey(lambda q: get(new, q) == z3.If(q == k, self.val, get(old, q)), name='wg'))
        p.val = new
        p._write_through(ctx)

    def set_value(self, ctx, v):
        """(contract level) the object's value becomes v -- effect of a callee that writes it in place"""
        self.val = v
        self.writes += 1
        self._write_through(ctx)

    def havoc(self, ctx):
        # a dict object modified by a loop: same object, unknown new value (constrained by the invariant)
        self.val = fresh(self.name.split('[')[0] + '_h', PVal)
        return self

    def sym_truth(self, ctx):
        raise Unsupported('truth value of a parameter value')


class SPKeys(Model):
    def __init__(self, d):
        self.d = d

    def sym_contains(self, ctx, key):
        return self.d.sym_contains(ctx, key)


class SPItems(Model):
    def __init__(self, d):
        self.d = d

    def sym_iter(self, ctx):
        v = self.d.val            # the dictionary iterated over must not be written during the loop (Python raises RuntimeError
        enumeration_facts(ctx, v)  # on a size change; value changes of existing keys would be seen) -- checked by the loop frame
        d = self.d

        def getter(j):
            k = key_at(v, j)
            ctx.hint_key(k)
            return (SStr(k), d.child(k))
        return ('seq', nkeys(v), getter)


def _deepcopy_tree(prev):
    def f(interp, args, kwargs):
        (x,) = args
        if isinstance(x, SPVal):
            # an independent object with the same (mathematical) value: writes to either never reach the other
            return SPVal(x.val, name='copy')
        return prev(interp, args, kwargs)
    return f


def install():
    from . import inframe_model  # noqa: F401  (registers copy.deepcopy / warnings.warn)
    if not getattr(LIB['copy.deepcopy'], '_tree', False):
        f = _deepcopy_tree(LIB['copy.deepcopy'])
        f._tree = True
        LIB['copy.deepcopy'] = f
