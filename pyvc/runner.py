"""pyvc.runner -- one check run of one property: explore, discharge, guard, replay, evidence, exit code.

Exit codes: 0 held / 1 VIOLATION (replayed, or a baseline-discharged obligation now refuted) / 2 UNDECIDED /
3 checker error (engine disagreement with CPython, broken assumption, vacuity, crash).
`unknown`, time-outs and tracebacks are never mapped to a violation.
"""
from __future__ import annotations
import copy
import json
import math
import os
import random
import sys
import time
import traceback
import warnings
from dataclasses import dataclass, field
from fractions import Fraction
from typing import Callable, Optional

import z3

from . import smt, source, verify, crosscheck
from .contracts import Contract, Registry, nview, _as_dict, Lemma
from .lib import LIB, LIB_DOC
from .smt import Verdict

VERIF = os.path.dirname(os.path.dirname(os.path.abspath(__file__)))

A_PY = ('A-PY: CPython semantics as modelled by pyvc (left-to-right evaluation, short-circuit, exceptions only from '
        'explicit raise, modelled partial operations and violated library preconditions; no monkey-patching; locals '
        'of a verified function do not alias each other)')
A_REAL = 'A-REAL: floats are treated as mathematical reals plus a NaN flag (machine arithmetic treated as mathematical); symbolic floats are finite or NaN'
A_LIB = 'A-LIB: the assumed contracts of the library operations listed in coverage.trusted_base (conformance-tested on the installed versions, label B, never counted as proved)'


@dataclass
class PropertySpec:
    pid: str
    level: str                                   # evidence level: 'proof' | 'other'
    functions: list = field(default_factory=list)      # qualnames explored in full mode (P)
    lemmas: list = field(default_factory=list)         # lemma names (incl. prop.* lemmas)
    extras: list = field(default_factory=list)         # callables(run) -> list[Verdict]  (frame back end etc.)
    bounded: Optional[Callable] = None                 # callable(run) -> dict   (label B, never counted)
    assumptions: list = field(default_factory=list)
    explanation: str = ''
    not_decided: list = field(default_factory=list)
    witness_builders: dict = field(default_factory=dict)   # obligation-name prefix -> callable(run) -> witness|None
    registry: str = 'default'                          # 'typestate': the functions are verified against the typestate contracts (skeleton mode)


@dataclass
class Run:
    spec: PropertySpec
    tier: str
    seed: int
    reg: Registry
    reports: dict = field(default_factory=dict)
    verdicts: list = field(default_factory=list)     # all Verdicts (P + lemma + extras)
    notes: list = field(default_factory=list)
    errors: list = field(default_factory=list)       # checker errors -> exit 3
    trusted: set = field(default_factory=set)
    bounded: dict = field(default_factory=dict)
    cross: dict = field(default_factory=dict)
    frame_functions: set = field(default_factory=set)
    frame_seconds: float = 0.0
    t0: float = field(default_factory=time.time)

    @property
    def timeout_ms(self):
        return 10000 if self.tier == 'quick' else 60000


# ---------------------------------------------------------------------------------------------
# native (run-time twin) evaluation of contracts -- used by replay and by the bounded stand-in
# ---------------------------------------------------------------------------------------------

def to_native(v):
    """solver-model value -> native Python value"""
    if isinstance(v, Fraction):
        return float(v)
    if isinstance(v, list):
        return [to_native(x) for x in v]
    if isinstance(v, dict):
        return {k: to_native(x) for k, x in v.items()}
    return v


def _truth(x):
    if isinstance(x, (smt.Forall, smt.Exists)):
        return x.native()
    if smt.is_sym(x):
        s = z3.simplify(x)
        if z3.is_true(s):
            return True
        if z3.is_false(s):
            return False
        raise ValueError(f'clause did not evaluate natively: {s}')
    return bool(x)


def native_tags(args):
    from .values import pytype_tag
    import numpy as np
    out = {}
    for k, v in args.items():
        if isinstance(v, np.ndarray):
            out[k] = 'ndarray'
        else:
            out[k] = pytype_tag(v)
    return out


def native_check(con: Contract, nat_args: dict):
    """run the real function on native arguments and evaluate the contract's clauses natively.
    -> (outcome, failed: list[str])   failed clause names, e.g. 'post.p2o', 'exc.AmpycloudError.only_if'"""
    if con.native_oracle is not None:
        return con.native_oracle(**nat_args)
    args_in = copy.deepcopy(nat_args)
    view = {k: nview(v) for k, v in nat_args.items()}
    tys = native_tags(nat_args)
    if con.requires is not None:
        pre = _as_dict(con.call(con.requires, view, tys))
        if not all(_truth(f) for f in pre.values()):
            return ('precondition-false',), []
    try:
        with warnings.catch_warnings():
            warnings.simplefilter('ignore')
            res = con.native_call(**args_in)
        outcome = ('return', res)
    except Exception as e:  # noqa
        outcome = ('raise', type(e).__name__, str(e)[:200])
    failed = []
    if outcome[0] == 'return':
        for exc, condf in con.raises.items():
            if _truth(con.call(condf, view, tys)):
                failed.append(f'exc.{exc}.if')
        if con.ensures is not None:
            try:
                r = nview(outcome[1])
                for cname, f in _as_dict(con.call(con.ensures, view, tys, r)).items():
                    if not _truth(f):
                        failed.append(f'post.{cname}')
            except ValueError:
                raise
            except Exception as e:
                failed.append(f'post.<evaluation error {type(e).__name__}: {e}>')
    else:
        exc = outcome[1]
        if exc not in con.raises:
            failed.append(f'exc.unexpected.{exc}')
        elif not _truth(con.call(con.raises[exc], view, tys)):
            failed.append(f'exc.{exc}.only_if')
    return outcome, failed


# ---------------------------------------------------------------------------------------------
# the run
# ---------------------------------------------------------------------------------------------

def run_property(spec: PropertySpec, tier: str, seed: int, reg: Registry) -> Run:
    run = Run(spec, tier, seed, reg)
    ex = verify.Explorer(reg, LIB)
    # 1. lemmas
    for lname in spec.lemmas:
        lem = reg.lemmas[lname]
        try:
            obs = lem.obligations()
        except Exception as e:
            # a lemma stated over expressions read from the real code cannot be built (the code left the translatable subset):
            # undecided, never a violation
            run.verdicts.append(smt.Verdict(f'lemma::{lname}', 'unknown', 'none', 0.0, None, f'lemma cannot be stated: {type(e).__name__}: {e}', 0, '', 'valid'))
            continue
        for ob in obs:
            run.verdicts.append(smt.discharge(ob, run.timeout_ms))
    # 2. functions in full mode, one worker per (function, contract case); each worker explores, discharges and
    #    cross-checks its case against CPython, and returns plain data
    if spec.registry == 'typestate':
        reg = _typestate_registry()
        run.reg = reg
    tasks = []
    for q in spec.functions:
        con = reg.get(q)
        if con is None:
            run.errors.append(f'no contract registered for {q}')
            continue
        for k in range(len(con.cases)):
            tasks.append((q, k, tier, seed, run.timeout_ms, spec.registry))
    results = _pool_map(_case_worker, tasks)
    for (q, k, *_rest), res in zip(tasks, results):
        if 'crash' in res:
            run.errors.append(f'engine crash on {q} case {k}: {res["crash"]}')
            continue
        rep = run.reports.get(q)
        if rep is None:
            rep = verify.FunctionReport(q, res['file'], res['sha256'], res['lines'])
            run.reports[q] = rep
        rep.verdicts.extend(res['verdicts'])
        rep.mode = res.get('mode', 'P')
        rep.paths += res['paths']
        rep.undecided.extend(res['undecided'])
        rep.dropped.add(res['dropped'])
        rep.interpreted |= res['interpreted']
        rep.seconds += res['seconds']
        run.verdicts.extend(res['verdicts'])
        run.used_lemmas = getattr(run, 'used_lemmas', set()) | res['used_lemmas']
        run.callees = getattr(run, 'callees', set()) | res.get('callees', set())
        run.model_ops = getattr(run, 'model_ops', set()) | res.get('model_ops', set())
        run.pins = getattr(run, 'pins', set()) | res.get('pins', set())
        if res.get('block'):
            run.blocks = getattr(run, 'blocks', {})
            run.blocks[res['block']['function']] = res['block']
        cc = run.cross.setdefault(q, {'inputs': 0, 'agreements': 0, 'disagreements': [], 'skipped': None, 'paths_hit': 0})
        for key in ('inputs', 'agreements', 'paths_hit'):
            cc[key] += res['cross'].get(key, 0)
        cc['disagreements'].extend(res['cross'].get('disagreements', []))
        cc['skipped'] = cc['skipped'] or res['cross'].get('skipped')
    for q, cc in run.cross.items():
        rep = run.reports[q]
        if cc['disagreements']:
            if any(v.status == 'refuted' and v.expect == 'valid' for v in rep.verdicts):
                # the code itself fails an obligation: native results legitimately contradict assumed invariants /
                # callee contracts on the cut paths -- not an engine problem
                cc['note'] = 'function has refuted obligations; disagreements are expected and not counted'
            else:
                run.errors.append(f'ENGINE-DISAGREEMENT on {q}: {cc["disagreements"][:3]}')
    missing = getattr(run, 'used_lemmas', set()) - set(spec.lemmas)
    if missing:
        run.errors.append(f'lemma instances used as hypotheses but the lemmas are not proved in this check: {sorted(missing)}')
    # 3. extras (frame back end, property-level obligations built from the reports)
    for extra in spec.extras:
        try:
            r = extra(run)
            if hasattr(r, 'verdicts'):          # a FrameCheck
                run.verdicts.extend(r.verdicts)
                run.frame_functions |= set(r.functions)
                run.frame_seconds += r.secs
            else:
                run.verdicts.extend(r)
        except Exception as e:
            run.errors.append(f'extra {getattr(extra, "__name__", extra)} crashed: {type(e).__name__}: {e}\n{traceback.format_exc()[-1500:]}')
    # 5. bounded stand-in (label B)
    if spec.bounded is not None:
        try:
            run.bounded = spec.bounded(run) or {}
            # a crash of the *harness* (not of the code under check) is a checker error, never a violation
            fl = run.bounded.get('failures', [])
            crashed = [f for f in fl if str(f.get('what', '')).startswith('harness crash')]
            if crashed:
                run.bounded['failures'] = [f for f in fl if f not in crashed]
                run.bounded['n_failures'] = max(0, run.bounded.get('n_failures', len(fl)) - len(crashed))
                run.errors.extend(f'bounded harness crashed on {f.get("scene")}: {f.get("what")}' for f in crashed[:3])
        except Exception as e:
            run.errors.append(f'bounded run crashed: {type(e).__name__}: {e}\n{traceback.format_exc()[-1500:]}')
    # 6. conformance of the assumed library contracts on the installed versions (label B; a failure is a broken assumption)
    try:
        from bounded import libconf
        run.libconf = libconf.run_conformance(seed)
        for key, why in run.libconf['failed']:
            run.errors.append(f'assumed library contract "{key}" does not hold on this installation: {why}')
    except Exception as e:
        run.libconf = {'tested': [], 'failed': [], 'untested': [], 'crashed': f'{type(e).__name__}: {e}'}
        run.errors.append(f'library conformance run crashed: {type(e).__name__}: {e}')
    return run


def _pool_map(fn, tasks):
    import multiprocessing as mp
    if not tasks:
        return []
    nproc = min(int(os.environ.get('PYVC_JOBS', '16')), len(tasks))
    if nproc <= 1:
        return [fn(t) for t in tasks]
    ctx = mp.get_context('fork')
    with ctx.Pool(nproc) as pool:
        return pool.map(fn, tasks, chunksize=1)


def _typestate_registry():
    from contracts import c_typestate
    reg = Registry()
    for c in c_typestate.register(reg).values():
        reg.add(c)
    return reg


def _case_worker(task):
    q, k, tier, seed, timeout_ms, regname = task
    try:
        from contracts import build_registry
        reg = _typestate_registry() if regname == 'typestate' else build_registry()
        con = reg.get(q)
        ncases = len(con.cases)
        con.cases = [con.cases[k]]
        ex = verify.Explorer(reg, LIB)
        rep = ex.explore(q)
        verify.discharge_all(rep, timeout_ms)
        n = (200 if tier == 'quick' else 3000) // max(1, ncases)
        try:
            cc = crosscheck.crosscheck_function(rep, con, max(20, n), seed + k)
        except Exception as e:
            cc = {'disagreements': [], 'skipped': f'cross-check crashed: {type(e).__name__}: {e}'}
        used, callees, mops, pins = set(), set(), set(), set()
        block = None
        for s_ in rep.summaries:
            if s_.ctx is not None:
                used |= s_.ctx.used_lemmas
                callees |= {c[0] for c in s_.ctx.ghost.get('calls', [])}
                mops |= set(getattr(s_.ctx, 'used_model_ops', ()))
                pins |= set(s_.ctx.used_expr_contracts)
                if s_.ctx.ghost.get('entry_cut'):
                    block = dict(s_.ctx.ghost['entry_cut'], assumed_mid_condition=(con.entry_cut or {}).get('doc', ''))
        return {'file': rep.file, 'sha256': rep.sha256, 'lines': rep.lines, 'verdicts': rep.verdicts, 'paths': rep.paths, 'mode': ('S (skeleton / typestate)' if con.skeleton else 'P'),
                'undecided': rep.undecided, 'dropped': rep.dropped, 'interpreted': rep.interpreted, 'seconds': rep.seconds,
                'cross': cc, 'used_lemmas': used, 'callees': callees, 'model_ops': mops, 'pins': pins, 'block': block}
    except Exception as e:
        return {'crash': f'{type(e).__name__}: {e}\n{traceback.format_exc()[-1500:]}'}


def aggregate(verdicts):
    """name -> (status, instances)"""
    groups = {}
    for v in verdicts:
        groups.setdefault(v.name, []).append(v)
    out = {}
    for name, vs in groups.items():
        if vs[0].expect == 'sat':
            st = 'discharged' if any(v.status == 'discharged' for v in vs) else \
                ('refuted' if all(v.status == 'refuted' for v in vs) else 'unknown')
        else:
            st = 'refuted' if any(v.status == 'refuted' for v in vs) else \
                ('discharged' if all(v.status == 'discharged' for v in vs) else 'unknown')
        out[name] = (st, vs)
    return out


def _h(s):
    import hashlib
    return hashlib.md5(s.encode()).hexdigest()[:10]


def load_json(path, default):
    try:
        with open(path) as f:
            return json.load(f)
    except FileNotFoundError:
        return default


def _jsonable(x):
    if isinstance(x, Fraction):
        return float(x) if x.denominator != 1 else int(x)
    if isinstance(x, float):
        return x if math.isfinite(x) else repr(x)
    if isinstance(x, (list, tuple)):
        return [_jsonable(y) for y in x]
    if isinstance(x, dict):
        return {str(k): _jsonable(v) for k, v in x.items()}
    if isinstance(x, (int, str, bool)) or x is None:
        return x
    try:
        import numpy as np
        if isinstance(x, np.generic):
            return _jsonable(x.item())
        if isinstance(x, np.ndarray):
            return _jsonable(x.tolist())
    except Exception:
        pass
    return repr(x)


def replay_refutation(run: Run, name: str, vs: list):
    """try to turn a refuted obligation into a failing native input.
    -> dict(reproduced: bool, inputs, observed, failed_clauses, how)"""
    fn = name.split('::')[0]
    con = run.reg.get(fn)
    info = {'reproduced': False, 'how': 'none', 'solver_models': [_jsonable(v.model) for v in vs if v.status == 'refuted' and v.model][:3]}
    if any(v.backend == 'frame' for v in vs) or (con is not None and getattr(con, 'skeleton', False)):
        # a frame obligation has no counter-model; the property's native witness builder (bounded run) is consulted
        bf = run.bounded.get('failures', [])
        if bf:
            info.update(reproduced=True, how='native witness builder of this property (bounded run) found a failing case',
                        inputs=_jsonable({k: v for k, v in bf[0].items() if k in ('scene', 'scenes', 'prms')}), observed=bf[0].get('what'),
                        failed_clauses=[bf[0].get('obligation')], rerun=bf[0].get('rerun'))
        else:
            info['how'] = 'frame obligation refuted by the effect analysis; the native witness builder found no failing case'
        info['frame_detail'] = [v.reason for v in vs if v.status == 'refuted'][:3]
        return info
    if con is None or (con.native_call is None and con.native_oracle is None):
        info['how'] = 'no native adapter for this obligation'
        return info
    # (a) the solver's counter-model
    for v in vs:
        if v.status != 'refuted' or not v.model:
            continue
        nat_args = to_native(v.model)
        try:
            outcome, failed = native_check(con, nat_args)
        except Exception as e:
            info['how'] = f'native evaluation error: {type(e).__name__}: {e}'
            continue
        if failed:
            info.update(reproduced=True, how='solver counter-model replayed on the real function', inputs=_jsonable(nat_args),
                        observed=_jsonable(outcome), failed_clauses=failed)
            return info
    # (b) witness search with the run-time twin of the contract (bounded, seeded)
    rng = random.Random(run.seed)
    budget = 3000 if run.tier == 'quick' else 30000
    for label, overrides in con.cases:
        specs = dict(con.params)
        specs.update(overrides)
        for _ in range(budget // max(1, len(con.cases))):
            try:
                nat_args = {k: crosscheck.sample(sp, rng) for k, sp in specs.items()}
            except crosscheck.NoSampler:
                break
            try:
                outcome, failed = native_check(con, nat_args)
            except Exception:
                continue
            if failed:
                info.update(reproduced=True, how='witness search with the run-time twin of the contract', inputs=_jsonable(nat_args),
                            observed=_jsonable(outcome), failed_clauses=failed)
                return info
    info['how'] = 'counter-model is not reachable natively (counterexample to induction or abstract state) and the witness search found nothing'
    return info


def finish(run: Run, evidence_path: str, checker_cmd: str) -> int:
    spec = run.spec
    pid = spec.pid
    agg = aggregate(run.verdicts)
    baseline = load_json(os.path.join(VERIF, 'baseline', 'obligations.json'), {})
    known = load_json(os.path.join(VERIF, 'known_findings.json'), [])
    known_here = [k for k in known if k.get('property') == pid and k.get('status') == 'known']
    os.makedirs(os.path.join(VERIF, 'replays'), exist_ok=True)

    lines = []
    violations = []
    undecided = []
    known_hits = []

    # ---- vacuity / engine guards ---------------------------------------------------------------
    n_ob = len([v for v in run.verdicts if v.expect == 'valid'])
    if n_ob == 0 and not run.errors:
        run.errors.append('no obligations were generated (vacuous check)')
    for q, rep in run.reports.items():
        if rep.undecided:
            undecided.append((f'{q}::unsupported', '; '.join(rep.undecided[:3])))
        con = run.reg.get(q)
        if rep.undecided:
            continue
        if not any(v.name.startswith(q + '::cover') and v.status == 'discharged' for v in rep.verdicts):
            run.errors.append(f'{q}: no reachable exit under the contract precondition (vacuous)')
        if con is not None and con.canaries:
            for cname in con.canaries:
                st = agg.get(f'{q}::canary.{cname}', ('missing',))[0]
                if st != 'discharged':
                    run.errors.append(f'{q}: canary {cname} was not refuted ({st}) -- engine or contract is vacuous')

    # ---- verdicts ----------------------------------------------------------------------------------
    for name, (st, vs) in sorted(agg.items()):
        kind = name.split('::')[1] if '::' in name else name
        if kind.startswith('cover.body') and st != 'discharged':
            run.errors.append(f'{name}: no path reaches the end of the loop body under its invariant ({st}) -- the body obligations hold vacuously')
        if kind.startswith('canary') or kind.startswith('cover'):
            continue
        if st == 'discharged':
            continue
        if st == 'unknown':
            undecided.append((name, 'solver: ' + '; '.join(sorted({v.reason or v.status for v in vs if v.status == "unknown"}))))
            continue
        # refuted
        kf = next((k for k in known_here if k.get('obligation') == name), None)
        rp = replay_refutation(run, name, vs)
        for builder_prefix, builder in spec.witness_builders.items():
            if not rp['reproduced'] and name.startswith(builder_prefix):
                try:
                    w = builder(run)
                except Exception as e:
                    w = None
                    rp['how'] += f'; witness builder crashed: {type(e).__name__}: {e}'
                if w:
                    rp.update(reproduced=True, how='witness builder (native scene)', **w)
        if kf is not None:
            known_hits.append((name, kf, rp))
            continue
        replay_path = os.path.join('replays', f'{pid}_{_h(name)}.json')
        payload = {'property': pid, 'obligation': name, 'paths': [v.path for v in vs if v.status == 'refuted'][:5],
                   'backend': vs[0].backend, 'replay': rp,
                   'solver_output': [{'path': v.path, 'status': v.status, 'model': _jsonable(v.model)} for v in vs if v.status == 'refuted'][:5],
                   'rerun': f'./check {pid} --replay {replay_path}'}
        if rp['reproduced']:
            violations.append((name, replay_path, ''))
        elif baseline.get(name) == 'discharged':
            payload['note'] = 'obligation was discharged on the baseline tree and is refuted now; no failing native input was found'
            violations.append((name, replay_path, ' no-failing-input-found'))
        else:
            undecided.append((name, 'refuted by the solver but not reproduced natively and not in the baseline ledger: ' + rp['how']))
            continue
        with open(os.path.join(VERIF, replay_path), 'w') as f:
            json.dump(payload, f, indent=1, default=repr)

    # bounded-run failures are concrete
    import re as _re
    for bf in run.bounded.get('failures', []):
        # a known finding is identified by the obligation AND the specific failing input / history (regex on the failure text)
        kf = next((k for k in known_here if k.get('obligation') == bf.get('obligation') and k.get('match')
                   and _re.search(k['match'], str(bf.get('what', '')))), None)
        if kf is not None:
            known_hits.append((bf.get('obligation'), kf, {'reproduced': True, 'how': 'bounded run', **bf}))
            continue
        replay_path = os.path.join('replays', f'{pid}_B{_h(json.dumps(_jsonable(bf), sort_keys=True))}.json')
        with open(os.path.join(VERIF, replay_path), 'w') as f:
            json.dump({'property': pid, 'bounded_failure': _jsonable(bf)}, f, indent=1, default=repr)
        violations.append((bf.get('obligation', 'bounded'), replay_path, ''))

    # ---- output --------------------------------------------------------------------------------------
    for name, kf, rp in known_hits:
        print(f'KNOWN-FINDING: property={pid} {kf.get("what", name)} [{name}]')
    for name, why in undecided:
        print(f'UNDECIDED property={pid} obligation={name} reason={why[:300]}')
    for e in run.errors:
        print(f'CHECKER-ERROR property={pid} {e[:1500]}')
    for name, path, suffix in violations:
        print(f'VIOLATION property={pid} replay={path}{suffix}')
        print(f'  failed obligation: {name}')

    discharged = len([1 for name, (st, vs) in agg.items() if st == 'discharged' and vs[0].expect == 'valid'])
    total = len([1 for name, (st, vs) in agg.items() if vs[0].expect == 'valid'])
    inst_total = len([v for v in run.verdicts if v.expect == 'valid'])
    inst_dis = len([v for v in run.verdicts if v.expect == 'valid' and v.status == 'discharged'])
    by_backend = {}
    for v in run.verdicts:
        by_backend[v.backend] = by_backend.get(v.backend, 0) + 1
    solver_s = sum(v.seconds for v in run.verdicts)
    import re as _re2
    meths = {op.split('.', 1)[1] for op in getattr(run, 'model_ops', set()) if '.' in op}
    doc_keys = set(_used_lib(run))
    for k_ in LIB_DOC:
        if any(_re2.search(r'(?<![A-Za-z_])' + _re2.escape(m_) + r'(?![A-Za-z_])', k_) for m_ in meths):
            doc_keys.add(k_)
    trusted = sorted(f'{k}: {LIB_DOC.get(k, "")}' for k in doc_keys) + sorted(run.trusted)
    dropped = {}
    for rep in run.reports.values():
        for k in rep.dropped.__dataclass_fields__:
            dropped[k] = dropped.get(k, 0) + getattr(rep.dropped, k)
    samples = []
    for v in run.verdicts:
        if v.expect == 'valid' and len(samples) < 6 and not any(s['obligation'] == v.name for s in samples):
            samples.append({'obligation': v.name, 'path': v.path, 'verdict': v.status, 'backend': v.backend,
                            'smt_assertions': v.smt_size, 'seconds': round(v.seconds, 4)})
    canaries = [{'canary': n, 'refuted_with': _jsonable(next((v.model for v in vs if v.status == 'discharged' and v.model), None))}
                for n, (st, vs) in agg.items() if '::canary.' in n and st == 'discharged']
    if canaries:
        samples.append(canaries[0])
    coverage = {
        'obligations': total, 'discharged': discharged,
        'obligation_instances': inst_total, 'instances_discharged': inst_dis,
        'checker_cmd': checker_cmd,
        'trusted_base': trusted,
        'explanation': spec.explanation,
        'functions_under_contract': [
            {'function': q, 'file': os.path.relpath(rep.file, '/repo') if rep.file.startswith('/repo') else rep.file,
             'sha256': rep.sha256, 'lines': list(rep.lines), 'mode': rep.mode, 'paths': rep.paths,
             'bodies_interpreted': sorted(rep.interpreted)} for q, rep in run.reports.items()],
        # contracts of callees applied at call sites (modular use) whose bodies are NOT verified in this check: assumed here
        'assumed_callee_contracts': [
            {'function': q, 'note': (getattr(run.reg.get(q), 'notes', '') or 'verified against its body in the check(s) of: '
                                     + ', '.join(getattr(run.reg.get(q), 'properties', ()) or ['-']))[:400]}
            for q in sorted(getattr(run, 'callees', set())) if q not in run.reports],
        'pinned_expression_contracts': sorted(getattr(run, 'pins', set())),
        # functions verified from a cut statement on: the statements before it are NOT verified, the mid-condition is ASSUMED
        'block_contracts': list(getattr(run, 'blocks', {}).values()),
        'library_contract_conformance': {'label': 'B (native tests of the assumed library contracts on the installed versions; not a proof)',
                                         'tested': len(getattr(run, 'libconf', {}).get('tested', [])),
                                         'failed': [list(x) for x in getattr(run, 'libconf', {}).get('failed', [])],
                                         'untested': getattr(run, 'libconf', {}).get('untested', [])},
        'library_model_operations_used': sorted(getattr(run, 'model_ops', set())),
        'functions_under_frame_contract': sorted(run.frame_functions),
        'frame_analysis_s': round(run.frame_seconds, 3),
        'lemmas': list(spec.lemmas),
        'by_backend': by_backend, 'solver_s': round(solver_s, 3),
        'undecided': [{'obligation': n, 'reason': w[:300]} for n, w in undecided],
        'known_findings_hit': [n for n, _, _ in known_hits],
        'extraction_drops': dropped,
        'canaries_refuted': len(canaries), 'covers_sat': len([1 for n, (st, vs) in agg.items() if '::cover' in n and st == 'discharged']),
        'cpython_crosscheck': {q: {k: (v if k != 'disagreements' else v[:3]) for k, v in cc.items()} for q, cc in run.cross.items()},
        'bounded': _jsonable({k: v for k, v in run.bounded.items() if k != 'failures'}) if run.bounded else {'note': 'no bounded stand-in in this check'},
        'not_decided': spec.not_decided,
        'samples': samples,
        'all_obligations': {n: st for n, (st, vs) in sorted(agg.items()) if vs[0].expect == 'valid'},
    }
    ev = {'property_id': pid, 'tier': run.tier, 'seed': run.seed, 'level': spec.level, 'coverage': coverage,
          'assumptions': [A_PY] + spec.assumptions + [A_LIB] + [
              f"block contract of {b['function']}: lines {b['unverified_lines']} are not verified; ASSUMED at line {b['verified_from_line']}: {b['assumed_mid_condition']}"
              for b in getattr(run, 'blocks', {}).values()], 'wall_s': round(time.time() - run.t0, 2),
          'violations': len(violations)}
    os.makedirs(os.path.dirname(evidence_path), exist_ok=True)
    with open(evidence_path, 'w') as f:
        json.dump(ev, f, indent=1, default=repr)
    print(f'{pid}: {discharged}/{total} obligations discharged ({inst_dis}/{inst_total} instances), '
          f'{len(violations)} violation(s), {len(undecided)} undecided, {len(known_hits)} known finding(s), '
          f'{len(run.errors)} checker error(s), solver {solver_s:.1f}s, wall {time.time() - run.t0:.1f}s')
    if violations:
        return 1
    if run.errors:
        return 3
    if undecided:
        return 2
    return 0


def _used_lib(run: Run):
    """library contracts referenced by the interpreted function bodies (syntactic: dotted names resolved through imports)"""
    import ast
    used = set()
    for q, rep in run.reports.items():
        for qual in rep.interpreted:
            try:
                fi = source.find_function(qual)
            except KeyError:
                continue
            mod = source.load_module(fi.module)
            for n in ast.walk(fi.node):
                if isinstance(n, ast.Attribute):
                    chain = []
                    r = n
                    while isinstance(r, ast.Attribute):
                        chain.append(r.attr)
                        r = r.value
                    if isinstance(r, ast.Name) and r.id in mod.imports and mod.imports[r.id][0] == 'ext':
                        dotted = mod.imports[r.id][1] + '.' + '.'.join(reversed(chain))
                        if dotted in LIB or dotted in LIB_DOC:
                            used.add(dotted)
    return used


def write_baseline(run: Run):
    """record the verdict of every obligation of this run in the committed ledger (manual step: --write-baseline)"""
    path = os.path.join(VERIF, 'baseline', 'obligations.json')
    os.makedirs(os.path.dirname(path), exist_ok=True)
    led = load_json(path, {})
    pid = run.spec.pid
    for name, (st, vs) in aggregate(run.verdicts).items():
        if vs[0].expect == 'valid':
            led[name] = st
    with open(path, 'w') as f:
        json.dump(dict(sorted(led.items())), f, indent=0)
