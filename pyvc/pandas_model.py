"""pyvc.pandas_model -- *assumed* contracts of the pandas operations used on the slice/group/layer tables
(`table dialect`) and the abstract chunk object.

A table is a DataFrame with a RangeIndex 0..n-1 (metarize resets the index), symbolic row count n and named
columns; a column is a total function row -> scalar.  Every operation modelled here is listed in LIB_DOC and has a
conformance twin (label B).
"""
from __future__ import annotations

import z3

from . import smt, source
from .smt import lift, fresh, fresh_int, fresh_bool, fresh_real
from .values import (Sym, SInt, SBool, SFloat, SStr, Model, SList, Opaque, Unsupported, is_concrete, is_numlike,
                     is_intlike, is_floatlike, to_real_parts, to_int_term, to_bool_term, ite_val, raw, str_term,
                     BoolArr, cnt, cnt_def, BoundModelMethod)
from .lib import LIB_DOC, NOCTX

LIB_DOC['pandas.DataFrame.__getitem__(str)'] = "df['c']: the column c as a Series aligned with the frame's rows"
LIB_DOC['pandas.Series.__mul__(bool)'] = 'bool Series * bool Series (same index): element-wise AND'
LIB_DOC['pandas.Series.__lt__/__ge__(scalar)'] = 'Series <op> scalar: element-wise comparison, NaN compares False'
LIB_DOC['pandas.Series.__getitem__(bool Series)'] = ('s[mask] (same index): the elements of s at the True positions of mask, in '
                                                     'order; its length is the number of True; its k-th element is s at the '
                                                     'position of the k-th True')
LIB_DOC['pandas.Series.to_list'] = 's.to_list(): Python list of the elements in order (Python scalars)'
LIB_DOC['pandas.Series.any'] = 's.any(): True iff some element is True'
LIB_DOC['str.join'] = "' '.join(list of str): the elements separated by single blanks ('' for the empty list)"


class SSeries(Model):
    """column / Series over rows 0..n-1.  `arr` (z3 array) is set when the series is backed by an array term
    (bool columns used with cnt)."""
    pytype = 'Series'

    def __init__(self, n, at, dtype, arr=None):
        self.n = lift(n)
        self.at = at
        self.dtype = dtype
        self.arr = arr

    def __getitem__(self, j):          # contract level
        return raw(self.at(lift(j)))

    @property
    def len(self):
        return self.n

    def sym_len(self, ctx):
        return SInt(self.n)

    def materialize(self, ctx, name='m'):
        """bool series -> z3 array M with the defining schema  forall i. M[i] == at(i)"""
        if self.arr is not None:
            return self.arr
        if self.dtype != 'bool':
            raise Unsupported('materialize non-bool series')
        M = fresh(name, BoolArr)
        at = self.at
        ctx.assume(smt.Forall(0, self.n, lambda i, at=at, M=M: M[i] == to_bool_term(at(i)), name='mi'))
        self.arr = M
        return M

    def sym_binop(self, ctx, op, other, reflected):
        if op == 'Mult' and self.dtype == 'bool' and isinstance(other, SSeries) and other.dtype == 'bool':
            a, b = self.at, other.at
            out = SSeries(self.n, lambda i: SBool(z3.And(to_bool_term(a(i)), to_bool_term(b(i))), 'npbool'), 'bool')
            out.factors = (self, other)
            return out
        raise Unsupported(f'Series binop {op}')

    def sym_compare(self, ctx, op, other, reflected):
        from .engine import num_compare
        if not is_numlike(other):
            raise Unsupported('Series compare with non-scalar')
        a = self.at

        def g(i):
            r = num_compare(op, a(i), other)
            return SBool(lift(r), 'npbool') if isinstance(r, bool) else r
        return SSeries(self.n, g, 'bool')

    def sym_getitem(self, ctx, idx):
        if isinstance(idx, SSeries) and idx.dtype == 'bool':
            return SMasked(self, idx)
        raise Unsupported('Series index kind')

    def m_to_list(self, ctx):
        if self.dtype == 'int':
            arr = fresh('tl', z3.ArraySort(z3.IntSort(), z3.IntSort()))
            at = self.at
            ctx.assume(smt.Forall(0, self.n, lambda i: arr[i] == to_int_term(at(i)), name='ti'))
            return SList('int', self.n, arr, None, 'int')
        raise Unsupported('to_list of this dtype')

    def m_any(self, ctx):
        if self.dtype != 'bool':
            raise Unsupported('any() of non-bool series')
        b = fresh_bool('any')
        w = fresh_int('w')
        at = self.at
        ctx.schemas.append(smt.Forall(0, self.n, lambda j: z3.Implies(z3.Not(b), z3.Not(to_bool_term(at(j))))))
        ctx.assume(z3.Implies(b, z3.And(w >= 0, w < self.n, to_bool_term(at(w)))))
        ctx.hint(w)
        return SBool(b, 'npbool')


class SMasked(Model):
    """s[mask]"""
    pytype = 'Series'

    def __init__(self, base: SSeries, mask: SSeries):
        self.base, self.mask = base, mask

    def m_to_list(self, ctx):
        return SSelList(self.base, self.mask)


class SSelList(Model):
    """s[mask].to_list(): list of symbolic length count(mask)."""
    pytype = 'list'
    MAX_JOIN = 3

    def __init__(self, base, mask):
        self.base, self.mask = base, mask

    def join_with(self, interp, sep):
        ctx = interp.ctx
        mask, base = self.mask, self.base
        n = mask.n
        M = mask.materialize(ctx, 'report')
        ctx.note_cnt(M)
        ctx.hint(n)
        ctx.cnt_mono = True
        # a product mask is a subset of each factor: instance family of the proved lemma `cnt_subset`
        for f in getattr(mask, 'factors', ()):
            if f.arr is not None:
                ctx.note_cnt(f.arr)
                ctx.assume(smt.Forall(0, n + 1, lambda t, A=f.arr: cnt(M, t) <= cnt(A, t), name='sub'))
                ctx.used_lemmas.add('cnt_subset')
        count = cnt(M, n)
        K = self.MAX_JOIN
        if smt.quick_sat(ctx.hyps() + [count > K], 10000) != 'unsat':
            raise Unsupported(f"' '.join over a selection whose length is not provably <= {K}")
        ctx.assume(count <= K)
        ctx.assume(count >= 0)
        c = None
        for k in range(K + 1):
            if k == K or ctx.branch(count == k):
                c = k
                break
        ctx.assume(count == c)
        # positions of the selected rows: the k-th selected element sits where exactly k selected precede it
        sel = []
        for k in range(c):
            s = fresh_int(f'sel{k}')
            ctx.assume(z3.And(s >= 0, s < n, M[s], cnt(M, s) == k, cnt(M, s + 1) == k + 1))
            if sel:
                ctx.assume(sel[-1] < s)
            ctx.hint(s)
            sel.append(s)
        ctx.ghost['selected'] = sel          # ghost: which rows the groups stand for
        ctx.ghost['report_mask'] = M
        ctx.ghost['report_count'] = c
        parts = []
        for k, s in enumerate(sel):
            if k:
                parts.append(z3.StringVal(sep))
            parts.append(str_term(base.at(s)))
        if not parts:
            return ''
        return SStr(z3.Concat(*parts) if len(parts) > 1 else parts[0])


class STable(Model):
    pytype = 'DataFrame'

    def __init__(self, n, cols: dict):
        self.n = lift(n)
        self.cols = cols         # name -> SSeries

    def col(self, name):
        return self.cols[name]

    def sym_getitem(self, ctx, idx):
        if isinstance(idx, str):
            if idx not in self.cols:
                from .engine import PyRaise
                raise PyRaise('KeyError', idx)
            return self.cols[idx]
        raise Unsupported('DataFrame index kind')

    def sym_len(self, ctx):
        return SInt(self.n)


class SChunk(Model):
    """abstract CeiloChunk instance: real fields by name, properties / methods resolved in the real class"""
    pytype = 'CeiloChunk'

    def __init__(self, cls_qualname, fields: dict, ghost: dict = None):
        self.cls = cls_qualname
        self.fields = fields
        self.ghost = ghost or {}

    def interp_getattr(self, interp, name):
        from .engine import RepoFuncRef, PyRaise
        if name in self.fields:
            return self.fields[name]
        ci = source.find_class(self.cls)
        fi = source.find_method(ci, name)
        if fi is None:
            raise PyRaise('AttributeError', name)
        if fi.is_property:
            con = interp.reg.get(fi.qualname)
            if con is not None and not con.inline:
                return con.apply_modular(interp, {'self': self}, site=f'{fi.qualname.split(".")[-1]}')
            return interp.run_function(fi, {'self': self}, con)
        return RepoFuncRef(fi.qualname, bound_self=self)

    def sym_setattr(self, ctx, name, val):
        self.fields[name] = val
