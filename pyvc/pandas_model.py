"""pyvc.pandas_model -- *assumed* contracts of the pandas operations used on the slice/group/layer tables
(`table dialect`) and the abstract chunk object.

A table is a DataFrame with a RangeIndex 0..n-1 (metarize resets the index), symbolic row count n and named
columns; a column is a total function row -> scalar.  Every operation modelled here is listed in LIB_DOC and has a
conformance twin (label B).
"""
from __future__ import annotations

import z3

from . import smt, source
from .smt import lift, fresh, fresh_int, fresh_bool, fresh_real
from .values import (Sym, SInt, SBool, SFloat, SStr, Model, SList, Opaque, Unsupported, is_concrete, is_numlike,
                     is_intlike, is_floatlike, to_real_parts, to_int_term, to_bool_term, ite_val, raw, str_term,
                     BoolArr, cnt, cnt_def, BoundModelMethod)
from .lib import LIB_DOC, NOCTX

LIB_DOC['pandas.DataFrame.__getitem__(str)'] = "df['c']: the column c as a Series aligned with the frame's rows"
LIB_DOC['pandas.Series.__mul__(bool)'] = 'bool Series * bool Series (same index): element-wise AND'
LIB_DOC['pandas.Series.__lt__/__ge__(scalar)'] = 'Series <op> scalar: element-wise comparison, NaN compares False'
LIB_DOC['pandas.Series.__getitem__(bool Series)'] = ('s[mask] (same index): the elements of s at the True positions of mask, in '
                                                     'order; its length is the number of True; its k-th element is s at the '
                                                     'position of the k-th True')
LIB_DOC['pandas.Series.to_list'] = 's.to_list(): Python list of the elements in order (Python scalars)'
LIB_DOC['pandas.Series.any'] = 's.any(): True iff some element is True'
LIB_DOC['str.join'] = "' '.join(list of str): the elements separated by single blanks ('' for the empty list)"


class SSeries(Model):
    """column / Series over rows 0..n-1.  `arr` (z3 array) is set when the series is backed by an array term
    (bool columns used with cnt)."""
    pytype = 'Series'

    def __iter__(self):
        raise TypeError('symbolic sequence is not iterable natively')

    def __init__(self, n, at, dtype, arr=None):
        self.n = lift(n)
        self.at = at
        self.dtype = dtype
        self.arr = arr
        self.defd = None           # None: every cell holds a value; else closure row -> z3 Bool

    def m_astype(self, ctx, ty):
        from .engine import BuiltinRef
        want = ty.name if isinstance(ty, BuiltinRef) else None
        if want not in ('int', 'float', 'str', 'bool'):
            raise Unsupported('astype target')
        if self.dtype == 'unset':
            if want == 'bool':
                # object column holding NaN everywhere: bool(nan) is True
                return SSeries(self.n, lambda i: SBool(True, 'npbool'), 'bool')
            raise Unsupported(f'astype({want}) of a column of NaN objects')
        if want == self.dtype or (want == 'float' and self.dtype == 'int'):
            at = self.at
            if want == 'float' and self.dtype == 'int':
                out = SSeries(self.n, lambda i: SFloat(z3.ToReal(to_int_term(at(i))), False, 'npfloat'), 'float')
            elif want == 'int':
                out = SSeries(self.n, lambda i: SInt(to_int_term(at(i)), 'npint'), 'int')
            elif want == 'float':
                out = SSeries(self.n, lambda i: SFloat(*reversed(to_real_parts(at(i))), 'npfloat'), 'float')
            else:
                out = SSeries(self.n, at, self.dtype, self.arr)
            out.defd = self.defd
            return out
        raise Unsupported(f'astype({want}) of a {self.dtype} column')

    def __getitem__(self, j):          # contract level
        return raw(self.at(lift(j)))

    @property
    def len(self):
        return self.n

    def sym_len(self, ctx):
        return SInt(self.n)

    def materialize(self, ctx, name='m'):
        """bool series -> z3 array M with the defining schema  forall i. M[i] == at(i)"""
        if self.arr is not None:
            return self.arr
        if self.dtype != 'bool':
            raise Unsupported('materialize non-bool series')
        M = fresh(name, BoolArr)
        at = self.at
        ctx.assume(smt.Forall(0, self.n, lambda i, at=at, M=M: M[i] == to_bool_term(at(i)), name='mi'))
        self.arr = M
        return M

    def sym_binop(self, ctx, op, other, reflected):
        if op == 'Mult' and self.dtype == 'bool' and isinstance(other, SSeries) and other.dtype == 'bool':
            a, b = self.at, other.at
            out = SSeries(self.n, lambda i: SBool(z3.And(to_bool_term(a(i)), to_bool_term(b(i))), 'npbool'), 'bool')
            out.factors = (self, other)
            return out
        if op == 'Mult' and isinstance(other, SSeries) and 'bool' in (self.dtype, other.dtype) and {self.dtype, other.dtype} <= {'bool', 'float', 'int'} \
                and type(self) is SSeries and type(other) is SSeries:
            # bool Series * numeric Series (same rows): the number where the flag is set, 0 elsewhere -- and NaN stays NaN (0 * NaN)
            from .values import to_real_parts, is_intlike, to_int_term, SFloat, SInt
            m, v = (self.at, other.at) if self.dtype == 'bool' else (other.at, self.at)
            num_dtype = other.dtype if self.dtype == 'bool' else self.dtype

            def f(i):
                x = v(i)
                c = to_bool_term(m(i))
                if num_dtype == 'int' and is_intlike(x):
                    return SInt(z3.If(c, to_int_term(x), 0), 'npint')
                n_, r_ = to_real_parts(x)
                return SFloat(z3.If(c, r_, 0), n_, 'npfloat')
            return SSeries(self.n, f, num_dtype)
        raise Unsupported(f'Series binop {op}')

    def sym_compare(self, ctx, op, other, reflected):
        from .engine import num_compare
        if not is_numlike(other):
            raise Unsupported('Series compare with non-scalar')
        a = self.at

        def g(i):
            r = num_compare(op, a(i), other)
            return SBool(lift(r), 'npbool') if isinstance(r, bool) else r
        return SSeries(self.n, g, 'bool')

    def sym_getitem(self, ctx, idx):
        if isinstance(idx, SSeries) and idx.dtype == 'bool':
            return SMasked(self, idx)
        raise Unsupported('Series index kind')

    def a_iloc(self, ctx):
        return _SeriesILoc(self)

    def m_to_list(self, ctx):
        if self.dtype == 'int':
            arr = fresh('tl', z3.ArraySort(z3.IntSort(), z3.IntSort()))
            at = self.at
            ctx.assume(smt.Forall(0, self.n, lambda i: arr[i] == to_int_term(at(i)), name='ti'))
            return SList('int', self.n, arr, None, 'int')
        raise Unsupported('to_list of this dtype')

    def m_any(self, ctx):
        if self.dtype != 'bool':
            raise Unsupported('any() of non-bool series')
        b = fresh_bool('any')
        w = fresh_int('w')
        at = self.at
        ctx.schemas.append(smt.Forall(0, self.n, lambda j: z3.Implies(z3.Not(b), z3.Not(to_bool_term(at(j))))))
        ctx.assume(z3.Implies(b, z3.And(w >= 0, w < self.n, to_bool_term(at(w)))))
        ctx.hint(w)
        return SBool(b, 'npbool')


class _SeriesILoc(Model):
    def __init__(self, s):
        self.s = s

    def sym_getitem(self, ctx, idx):
        if not is_intlike(idx):
            raise Unsupported('Series.iloc index kind')
        j = to_int_term(idx)
        n = self.s.n
        ctx.safe('iloc_index', z3.And(j >= -n, j < n), exc='IndexError')
        jj = z3.simplify(z3.If(j < 0, j + n, j))
        ctx.hint(jj)
        if self.s.defd is not None:
            ctx.safe('cell_defined', self.s.defd(jj))
        return self.s.at(jj)


LIB_DOC['pandas.Series.iloc[int]'] = 's.iloc[k]: the k-th element by position (negative k from the end); IndexError outside'


class SMasked(Model):
    """s[mask]"""
    pytype = 'Series'

    def __init__(self, base: SSeries, mask: SSeries):
        self.base, self.mask = base, mask

    def m_to_list(self, ctx):
        return SSelList(self.base, self.mask)


class SSelList(Model):
    """s[mask].to_list(): list of symbolic length count(mask)."""
    pytype = 'list'
    MAX_JOIN = 3

    def __init__(self, base, mask):
        self.base, self.mask = base, mask

    def join_with(self, interp, sep):
        ctx = interp.ctx
        mask, base = self.mask, self.base
        n = mask.n
        M = mask.materialize(ctx, 'report')
        ctx.note_cnt(M)
        ctx.hint(n)
        ctx.cnt_mono = True
        # a product mask is a subset of each factor: instance family of the proved lemma `cnt_subset`
        for f in getattr(mask, 'factors', ()):
            if f.arr is not None:
                ctx.note_cnt(f.arr)
                ctx.assume(smt.Forall(0, n + 1, lambda t, A=f.arr: cnt(M, t) <= cnt(A, t), name='sub'))
                ctx.used_lemmas.add('cnt_subset')
        count = cnt(M, n)
        K = self.MAX_JOIN
        if smt.quick_sat(ctx.hyps() + [count > K], 10000) != 'unsat':
            raise Unsupported(f"' '.join over a selection whose length is not provably <= {K}")
        ctx.assume(count <= K)
        ctx.assume(count >= 0)
        c = None
        for k in range(K + 1):
            if k == K or ctx.branch(count == k):
                c = k
                break
        ctx.assume(count == c)
        # positions of the selected rows: the k-th selected element sits where exactly k selected precede it
        sel = []
        for k in range(c):
            s = fresh_int(f'sel{k}')
            ctx.assume(z3.And(s >= 0, s < n, M[s], cnt(M, s) == k, cnt(M, s + 1) == k + 1))
            if sel:
                ctx.assume(sel[-1] < s)
            ctx.hint(s)
            sel.append(s)
        ctx.ghost['selected'] = sel          # ghost: which rows the groups stand for
        ctx.ghost['report_mask'] = M
        ctx.ghost['report_count'] = c
        parts = []
        for k, s in enumerate(sel):
            if k:
                parts.append(z3.StringVal(sep))
            parts.append(str_term(base.at(s)))
        if not parts:
            return ''
        return SStr(z3.Concat(*parts) if len(parts) > 1 else parts[0])


LIB_DOC['pandas.DataFrame.iloc/loc/at[row, col]'] = ('cell read / write by row position (iloc, with columns.get_loc) or by row label on a '
                                                    'RangeIndex (loc, at); a write changes that cell only')
LIB_DOC['pandas.DataFrame.sort_values+reset_index'] = ('sort_values(col, inplace=True) then reset_index(drop=True, inplace=True): rows '
                                                       'permuted (a bijection) into ascending order of col, NaN last; RangeIndex restored')
LIB_DOC['pandas.Series.astype'] = 'astype(int|float|str|bool) on values already of that kind: same values'
LIB_DOC['pandas.DataFrame.loc[:, col] = list'] = 'assigns the list element-wise to the column (lengths must match)'


class ColRef:
    def __init__(self, name):
        self.name = name


def _kind_of(v):
    if isinstance(v, (bool, SBool)):
        return 'bool'
    if is_intlike(v):
        return 'int'
    if is_floatlike(v):
        return 'float'
    if isinstance(v, (str, SStr)):
        return 'str'
    raise Unsupported(f'cell value {v!r}')


class _Columns(Model):
    def __init__(self, table):
        self.table = table

    def m_get_loc(self, ctx, name):
        if not isinstance(name, str):
            raise Unsupported('get_loc of symbolic name')
        if name not in self.table.cols:
            from .engine import PyRaise
            raise PyRaise('KeyError', name)
        return ColRef(name)

    def sym_contains(self, ctx, name):
        return name in self.table.cols


class _CellIndexer(Model):
    def __init__(self, table, how):
        self.table, self.how = table, how

    def _parse(self, ctx, idx):
        if not (isinstance(idx, tuple) and len(idx) == 2):
            raise Unsupported(f'{self.how}[...] shape')
        row, col = idx
        if self.how == 'iloc':
            if not isinstance(col, ColRef):
                raise Unsupported('iloc with a column that is not columns.get_loc(name)')
            col = col.name
        else:
            if not isinstance(col, str):
                raise Unsupported(f'{self.how} with non-literal column')
            if not self.table.index_is_range:
                raise Unsupported(f'{self.how}[row, col] on a table whose index is not a RangeIndex')
        return row, col

    def sym_getitem(self, ctx, idx):
        row, col = self._parse(ctx, idx)
        return self.table.read_cell(ctx, row, col)

    def sym_setitem(self, ctx, idx, val):
        row, col = self._parse(ctx, idx)
        if isinstance(row, slice) and row == slice(None, None, None):
            return self.table.set_column_from_list(ctx, col, val)
        self.table.write_cell(ctx, row, col, val)


class STable(Model):
    """DataFrame with symbolic row count, RangeIndex (unless between sort_values and reset_index) and named columns.
    A column is an SSeries whose `defd(i)` says whether the cell holds a value (a fresh pd.DataFrame(index=..., columns=...)
    holds NaN objects everywhere: defd = False)."""
    pytype = 'DataFrame'

    def __init__(self, n, cols: dict):
        self.n = lift(n)
        self.cols = cols         # name -> SSeries
        self.index_is_range = True

    def col(self, name):
        return self.cols[name]

    def sym_getitem(self, ctx, idx):
        if isinstance(idx, str):
            if idx not in self.cols:
                from .engine import PyRaise
                raise PyRaise('KeyError', idx)
            c = self.cols[idx]
            if c.dtype == 'unset':
                return c          # a column of NaN objects: only astype(bool) is modelled on it
            if c.defd is not None:
                f = smt.Forall(0, self.n, lambda i, c=c: c.defd(i), name='cd')
                ctx.oblige(f'safe.column_defined.{idx}', f)
                ctx.assume(f)
            return c
        raise Unsupported('DataFrame index kind')

    def sym_setitem(self, ctx, idx, val):
        if isinstance(idx, str) and isinstance(val, SSeries):
            new = SSeries(self.n, val.at, val.dtype, val.arr)
            new.defd = val.defd
            self.cols[idx] = new
            return
        raise Unsupported('DataFrame column assignment kind')

    def sym_len(self, ctx):
        return SInt(self.n)

    def a_iloc(self, ctx):
        return _CellIndexer(self, 'iloc')

    def a_loc(self, ctx):
        return _CellIndexer(self, 'loc')

    def a_at(self, ctx):
        return _CellIndexer(self, 'at')

    def a_columns(self, ctx):
        return _Columns(self)

    def _row(self, ctx, row):
        if not is_intlike(row):
            raise Unsupported('row index kind')
        r = to_int_term(row)
        ctx.safe('row_index', z3.And(r >= 0, r < self.n), exc='IndexError')
        ctx.hint(r)
        return r

    def read_cell(self, ctx, row, col):
        r = self._row(ctx, row)
        c = self.cols[col]
        if c.defd is not None:
            ctx.safe(f'cell_defined.{col}', c.defd(r))
        return c.at(r)

    def write_cell(self, ctx, row, col, val):
        r = self._row(ctx, row)
        if col not in self.cols:
            raise Unsupported('cell write creating a column')
        c = self.cols[col]
        kind = _kind_of(val)
        old_at, old_defd = c.at, c.defd
        if c.dtype == 'unset':
            at = lambda i, val=val: val
            defd = lambda i, r=r: i == r
        else:
            if c.dtype != kind and not ({c.dtype, kind} <= {'int', 'float'}):
                raise Unsupported(f'cell write changes column kind {c.dtype} -> {kind}')
            at = lambda i, val=val, r=r, old_at=old_at: ite_val(i == r, val, old_at(i))
            defd = None if old_defd is None else (lambda i, r=r, old_defd=old_defd: z3.Or(i == r, old_defd(i)))
            if c.dtype == 'float':
                kind = 'float'
        new = SSeries(self.n, at, kind)
        new.defd = defd
        self.cols[col] = new

    def set_column_from_list(self, ctx, col, val):
        if isinstance(val, SList):
            ctx.safe('setcol_len', val.len == self.n, exc='ValueError')
            new = SSeries(self.n, val.elem, val.kind, arr=val.arr if val.kind == 'bool' else None)
            new.defd = None
            self.cols[col] = new
            return
        raise Unsupported('column assignment from this value')

    def m_sort_values(self, ctx, by, inplace=False, **kw):
        if kw or inplace is not True or not isinstance(by, str):
            raise Unsupported('sort_values shape')
        key = self.cols[by]
        if key.defd is not None:
            f = smt.Forall(0, self.n, lambda i: key.defd(i), name='cd')
            ctx.oblige(f'safe.column_defined.{by}', f)
            ctx.assume(f)
        k = next(_permno)
        pi = z3.Function(f'perm!{k}', z3.IntSort(), z3.IntSort())
        inv = z3.Function(f'perminv!{k}', z3.IntSort(), z3.IntSort())
        n = self.n
        ctx.assume(smt.Forall(0, n, lambda i: z3.And(pi(i) >= 0, pi(i) < n, inv(pi(i)) == i), name='p'))
        ctx.assume(smt.Forall(0, n, lambda i: z3.And(inv(i) >= 0, inv(i) < n, pi(inv(i)) == i), name='q'))
        ctx.term_maps.append(pi)
        old = dict(self.cols)
        for name, c in old.items():
            new = SSeries(n, (lambda i, c=c: c.at(pi(i))), c.dtype)
            new.defd = None if c.defd is None else (lambda i, c=c: c.defd(pi(i)))
            self.cols[name] = new
        nk = self.cols[by]

        def ordered(i, j):
            ni, vi = to_real_parts(nk.at(i))
            nj, vj = to_real_parts(nk.at(j))
            return z3.And(z3.Implies(ni, nj), z3.Implies(z3.And(z3.Not(ni), z3.Not(nj)), vi <= vj))
        ctx.assume(smt.Forall(0, n, ordered, arity=2, name='so'))
        self.index_is_range = False
        self.ghost_perm = (pi, inv)
        return None

    def m_reset_index(self, ctx, drop=False, inplace=False, **kw):
        if kw or drop is not True or inplace is not True:
            raise Unsupported('reset_index shape')
        self.index_is_range = True
        return None

    def havoc(self, ctx):
        n = self.n
        cols = {}
        for name, c in self.cols.items():
            cols[name] = fresh_column(n, name, c.dtype, getattr(c, 'ty', None), with_defd=True)
        t = STable(n, cols)
        t.index_is_range = self.index_is_range
        return t


import itertools as _it
_permno = _it.count()


def fresh_column(n, name, kind, ty=None, with_defd=False, prefix='col'):
    """column backed by fresh arrays"""
    if kind == 'unset':
        c = SSeries(n, lambda i: Opaque('unset cell'), 'unset')
        c.defd = (lambda i: z3.BoolVal(False))
        return c
    if kind == 'float':
        a = fresh(f'{prefix}_{name}', z3.ArraySort(z3.IntSort(), z3.RealSort()))
        an = fresh(f'{prefix}_{name}_nan', BoolArr)
        c = SSeries(n, lambda i: SFloat(a[i], an[i], ty or 'npfloat'), 'float')
        c.arrs = (a, an)
    elif kind == 'int':
        a = fresh(f'{prefix}_{name}', z3.ArraySort(z3.IntSort(), z3.IntSort()))
        c = SSeries(n, lambda i: SInt(a[i], ty or 'int'), 'int')
        c.arrs = (a,)
    elif kind == 'bool':
        a = fresh(f'{prefix}_{name}', BoolArr)
        c = SSeries(n, lambda i: SBool(a[i], ty or 'bool'), 'bool', arr=a)
        c.arrs = (a,)
    elif kind == 'str':
        a = fresh(f'{prefix}_{name}', z3.ArraySort(z3.IntSort(), z3.StringSort()))
        c = SSeries(n, lambda i: SStr(a[i]), 'str')
        c.arrs = (a,)
    else:
        raise Unsupported(f'column kind {kind}')
    c.ty = ty
    if with_defd:
        d = fresh(f'{prefix}_{name}_def', BoolArr)
        c.defd = (lambda i: d[i])
    return c


class SChunk(Model):
    """abstract CeiloChunk instance: real fields by name, properties / methods resolved in the real class"""
    pytype = 'CeiloChunk'

    def __init__(self, cls_qualname, fields: dict, ghost: dict = None):
        self.cls = cls_qualname
        self.fields = fields
        self.ghost = ghost or {}

    def interp_getattr(self, interp, name):
        from .engine import RepoFuncRef, PyRaise
        if name in self.fields:
            return self.fields[name]
        ci = source.find_class(self.cls)
        fi = source.find_method(ci, name)
        if fi is None:
            raise PyRaise('AttributeError', name)
        if fi.is_property:
            con = interp.reg.get(fi.qualname)
            if con is not None and not con.inline:
                return con.apply_modular(interp, {'self': self}, site=f'{fi.qualname.split(".")[-1]}')
            return interp.run_function(fi, {'self': self}, con)
        return RepoFuncRef(fi.qualname, bound_self=self)

    def sym_setattr(self, ctx, name, val):
        self.fields[name] = val


# ---------------------------------------------------------------------------------------------
# operations of the group-merging loop (C06): Series.apply(pure method), diff, Series < Series, fillna, table[mask],
# .index[0], Series.loc / iloc[k], drop(index=k), to_numpy
# ---------------------------------------------------------------------------------------------
LIB_DOC['pandas.Series.apply(pure method)'] = ('s.apply(f) with f a method proved pure by its frame contract: the Series of f(x); f is '
                                               'a function of x (A-DET), modelled by one uninterpreted function per method')
LIB_DOC['pandas.Series.diff()'] = 'NaN in row 0, s[k] - s[k-1] in row k >= 1'
LIB_DOC['pandas.Series < Series (same table)'] = 'element-wise comparison, False where either side is NaN'
LIB_DOC['pandas.Series.fillna(False) of a bool Series'] = 'the same Series'
LIB_DOC['pandas.DataFrame[bool Series]'] = 'the rows where the mask is True, in order, with their labels: len = number of True; .index[0] = label of the first'
LIB_DOC['pandas.DataFrame.drop(index=k, inplace=True)'] = 'removes the row labelled k (RangeIndex: the k-th row); the rows behind it move up by one'


def _series_apply_pure(self, ctx, fn):
    from .engine import RepoFuncRef, PyRaise
    interp = ctx.interp
    if not isinstance(fn, RepoFuncRef):
        raise Unsupported('Series.apply of this callable')
    con = interp.reg.get(fn.qualname)
    F = getattr(con, 'pure_function', None) if con is not None else None
    if F is None or self.dtype != 'float':
        raise Unsupported(f'Series.apply({fn.qualname}): the callee has no functional contract')
    if con.raises:
        # the callee may refuse (its raise condition does not depend on the element for the methods modelled here)
        if ctx.choose(f'apply-{fn.qualname.split(".")[-1]}-raises', [False, True]):
            raise PyRaise(next(iter(con.raises)), f'contract of {fn.qualname}')
    at = self.at
    ctx.used_expr_contracts.add(f'Series.apply({fn.qualname}) = element-wise the value the method returns (a function of its argument)')
    if self.defd is not None:
        f = smt.Forall(0, self.n, lambda i: self.defd(i), name='cd')
        ctx.oblige('safe.column_defined.apply', f)
    out = SSeries(self.n, lambda i: SFloat(F(to_real_parts(at(i))[1]), to_real_parts(at(i))[0], 'npfloat'), 'float')
    return out


def _series_diff(self, ctx):
    if self.dtype not in ('float', 'int'):
        raise Unsupported('diff of this dtype')
    at = self.at

    def g(i):
        i = lift(i)
        n0, v0 = to_real_parts(at(i))
        n1, v1 = to_real_parts(at(i - 1))
        return SFloat(v0 - v1, z3.Or(i <= 0, n0, n1), 'npfloat')
    return SSeries(self.n, g, 'float')


def _series_compare2(self, ctx, op, other, reflected):
    from .engine import num_compare
    if isinstance(other, SSeries):
        a, b = self.at, other.at
        ctx.safe('compare_same_length', self.n == other.n, exc='ValueError')

        def g2(i):
            r = num_compare(op, a(i), b(i))
            return SBool(lift(r), 'npbool') if isinstance(r, bool) else r
        return SSeries(self.n, g2, 'bool')
    return _series_compare1(self, ctx, op, other, reflected)


_series_compare1 = SSeries.sym_compare
SSeries.sym_compare = _series_compare2
SSeries.m_apply = _series_apply_pure
SSeries.m_diff = _series_diff


def _series_fillna(self, ctx, value):
    if self.dtype == 'bool' and value is False:
        return self
    raise Unsupported('fillna shape')


SSeries.m_fillna = _series_fillna


def _series_to_numpy(self, ctx):
    if self.dtype != 'int':
        raise Unsupported('to_numpy of this dtype')
    arr = fresh('tn', z3.ArraySort(z3.IntSort(), z3.IntSort()))
    at = self.at
    ctx.assume(smt.Forall(0, self.n, lambda i: arr[i] == to_int_term(at(i)), name='tn'))
    if self.defd is not None:
        f = smt.Forall(0, self.n, lambda i: self.defd(i), name='cd')
        ctx.oblige('safe.column_defined.to_numpy', f)
    return SList('int', self.n, arr, None, 'npint')


SSeries.m_to_numpy = _series_to_numpy


class _SeriesLoc(Model):
    """Series.loc[k] on a RangeIndex = the k-th element"""

    def __init__(self, s):
        self.s = s

    def sym_getitem(self, ctx, idx):
        return _SeriesILoc(self.s).sym_getitem(ctx, idx)


SSeries.a_loc = lambda self, ctx: _SeriesLoc(self)


class STableSel(Model):
    """table[bool Series]"""
    pytype = 'DataFrame'

    def __init__(self, table, mask):
        self.table, self.mask = table, mask
        self._M = None

    def M(self, ctx):
        if self._M is None:
            self._M = self.mask.materialize(ctx, 'rowsel')
            ctx.note_cnt(self._M)
            ctx.hint(self.table.n)
            # a positive count has a *first* selected row (least-number principle, assumed); count 0 means no selected row
            # (instances of the proved lemma cnt_mono with the defining equations of cnt)
            M, n = self._M, self.table.n
            f = fresh_int('firstsel')
            ctx.assume(z3.Implies(cnt(M, n) > 0, z3.And(f >= 0, f < n, M[f], cnt(M, f) == 0)))
            ctx.assume(smt.Forall(0, n, lambda j: z3.Implies(j < f, z3.Implies(cnt(M, n) > 0, z3.Not(M[j]))), name='fs'))
            ctx.assume(smt.Forall(0, n, lambda j: z3.Implies(cnt(M, n) == 0, z3.Not(M[j])), name='ns'))
            ctx.assume(cnt(M, n) >= 0)
            ctx.hint(f)
            self.first = f
            ctx.used_lemmas.add('cnt_mono')
        return self._M

    def sym_len(self, ctx):
        return SInt(cnt(self.M(ctx), self.table.n))

    def a_index(self, ctx):
        self.M(ctx)
        return _SelIndex(self)


class _SelIndex(Model):
    def __init__(self, sel):
        self.sel = sel

    def sym_getitem(self, ctx, idx):
        if idx != 0:
            raise Unsupported('index[k] of a row selection for k != 0')
        M, n = self.sel.M(ctx), self.sel.table.n
        ctx.safe('selection_not_empty', cnt(M, n) > 0, exc='IndexError')
        if not self.sel.table.index_is_range:
            raise Unsupported('labels of a table whose index is not a RangeIndex')
        return SInt(self.sel.first, 'npint')


def _table_getitem2(self, ctx, idx):
    if isinstance(idx, SSeries) and idx.dtype == 'bool':
        ctx.safe('mask_same_length', idx.n == self.n, exc='ValueError')
        return STableSel(self, idx)
    return _table_getitem1(self, ctx, idx)


_table_getitem1 = STable.sym_getitem
STable.sym_getitem = _table_getitem2


def _table_drop(self, ctx, index=None, inplace=False, **kw):
    if kw or inplace is not True or not is_intlike(index):
        raise Unsupported('drop shape')
    if not self.index_is_range:
        raise Unsupported('drop by label on a table whose index is not a RangeIndex')
    k = to_int_term(index)
    ctx.safe('drop_label_present', z3.And(k >= 0, k < self.n), exc='KeyError')
    ctx.hint(k)
    old = dict(self.cols)
    n1 = z3.simplify(self.n - 1)
    for name, c in old.items():
        new = SSeries(n1, (lambda i, c=c: c.at(z3.If(lift(i) < k, lift(i), lift(i) + 1))), c.dtype)
        new.defd = None if c.defd is None else (lambda i, c=c: c.defd(z3.If(lift(i) < k, lift(i), lift(i) + 1)))
        self.cols[name] = new
    self.n = n1
    self.index_is_range = False          # labels now have a gap at k
    ctx.term_maps.append(lambda t: z3.If(t < k, t, t + 1))
    return None


STable.m_drop = _table_drop


# ---- numeric Series <op> scalar, ~bool Series, np.floor / np.ceil of a Series -------------------------------------------------
LIB_DOC['pandas.Series <arith> scalar'] = 'element-wise arithmetic with a scalar; NaN stays NaN'
LIB_DOC['~ bool Series'] = 'element-wise negation'


def _series_binop2(self, ctx, op, other, reflected):
    from .engine import num_binop
    if self.dtype in ('float', 'int') and is_numlike(other) and op in ('Add', 'Sub', 'Mult', 'Div'):
        if op == 'Div' and not reflected:
            _, d = to_real_parts(other)
            ctx.safe('div', d != 0, exc='ZeroDivisionError')
        if op == 'Div' and reflected:
            raise Unsupported('Series as divisor')
        if self.defd is not None:
            f = smt.Forall(0, self.n, lambda i: self.defd(i), name='cd')
            ctx.oblige('safe.column_defined.arith', f)
        a = self.at
        g = (lambda i: num_binop(NOCTX, op, other, a(i))) if reflected else (lambda i: num_binop(NOCTX, op, a(i), other))
        return SSeries(self.n, g, 'float' if (op == 'Div' or self.dtype == 'float' or not is_concrete(other) or isinstance(other, float)) else 'int')
    return _series_binop1(self, ctx, op, other, reflected)


_series_binop1 = SSeries.sym_binop
SSeries.sym_binop = _series_binop2


def _series_unary(self, ctx, op):
    if op == 'Invert' and self.dtype == 'bool':
        a = self.at
        return SSeries(self.n, lambda i: SBool(z3.Not(to_bool_term(a(i))), 'npbool'), 'bool')
    raise Unsupported(f'Series unary {op}')


SSeries.sym_unary = _series_unary


def _wrap_unary_for_series(name):
    from .lib import LIB
    prev = LIB[name]

    def f(interp, args, kwargs):
        if len(args) == 1 and isinstance(args[0], SSeries) and args[0].dtype in ('float', 'int') and not kwargs:
            s = args[0]
            a = s.at
            out = SSeries(s.n, lambda i: prev(interp, [a(i)], {}), 'float')
            out.defd = s.defd
            return out
        return prev(interp, args, kwargs)
    LIB[name] = f


_wrap_unary_for_series('numpy.floor')
_wrap_unary_for_series('numpy.ceil')
