"""pyvc.engine -- symbolic executor over the real Python ASTs (full mode, label P).

Path exploration is by *re-execution with a forced decision prefix*: a function is interpreted from its first
statement once per path; at a symbolic branch both sides are tested for feasibility, the untaken one is queued.
Obligations are emitted only after the forced prefix is consumed (the ancestor run emitted the earlier ones).
Loops over symbolic-length sequences and `while` loops are cut with the contract's invariant (init / keep /
exit); calls to repository functions are replaced by the callee's contract, never its body, unless the callee
is declared `inline` (one-line property getters).
Any AST node / library call without a model raises Unsupported => the function is UNDECIDED (fail closed).
"""
from __future__ import annotations
import ast
import math
import time
from dataclasses import dataclass, field
from typing import Any, Callable, Optional

import z3

from . import smt, source
from .smt import Obligation, lift, fresh, fresh_int, fresh_bool, fresh_real
from .values import OpaqueSeq
from .values import (Sym, SInt, SBool, SFloat, SStr, Opaque, Model, BoundModelMethod, SList, SOpaqueObj,
                     Unsupported, HardUnsupported, is_concrete, pytype_tag, is_numlike, is_intlike, is_floatlike,
                     to_real_parts, to_int_term, to_bool_term, str_term, ite_val, raw, cnt, cnt_def,
                     real_floor, real_ceil, real_round_half_even)


# ---------------------------------------------------------------------------------------------
# control-flow signals of the interpreted program
# ---------------------------------------------------------------------------------------------

class ReturnSig(Exception):
    def __init__(self, value):
        self.value = value


class BreakSig(Exception):
    pass


class ContinueSig(Exception):
    pass


class PyRaise(Exception):
    """The interpreted program raises an exception of class `exc` (a name: 'AmpycloudError', 'IndexError'...)."""

    def __init__(self, exc, where=''):
        self.exc = exc
        self.where = where


class PathEnd(Exception):
    """Current path is cut (loop body verified up to the invariant, or path infeasible)."""

    def __init__(self, why=''):
        self.why = why


# ---------------------------------------------------------------------------------------------
# references to things that live outside the interpreted function
# ---------------------------------------------------------------------------------------------

class ExtRef:
    """external (library / builtin module) object by dotted name, e.g. numpy.floor"""

    def __init__(self, dotted):
        self.dotted = dotted

    def __repr__(self):
        return f'ExtRef({self.dotted})'


class RepoFuncRef:
    def __init__(self, qualname, bound_self=None):
        self.qualname = qualname
        self.bound_self = bound_self

    def __repr__(self):
        return f'RepoFuncRef({self.qualname})'


class RepoClassRef:
    def __init__(self, qualname):
        self.qualname = qualname

    @property
    def name(self):
        return self.qualname.rsplit('.', 1)[1]

    def __repr__(self):
        return f'RepoClassRef({self.qualname})'


class RepoModuleRef:
    def __init__(self, modname):
        self.modname = modname

    def __repr__(self):
        return f'RepoModuleRef({self.modname})'


class BuiltinRef:
    def __init__(self, name):
        self.name = name

    def __repr__(self):
        return f'BuiltinRef({self.name})'


EXC_CLASSES = {'Exception', 'ValueError', 'TypeError', 'IndexError', 'KeyError', 'ZeroDivisionError',
               'AssertionError', 'AttributeError', 'RuntimeError', 'NotImplementedError', 'BaseException', 'KeyboardInterrupt',
               'SystemExit', 'LookupError', 'ArithmeticError', 'NameError', 'GeneratorExit'}

BUILTINS = {'len', 'int', 'float', 'str', 'bool', 'isinstance', 'range', 'enumerate', 'list', 'tuple', 'dict',
            'set', 'getattr', 'setattr', 'hasattr', 'max', 'min', 'abs', 'zip', 'sum', 'any', 'all', 'type',
            'round', 'sorted', 'print', 'super'}


# ---------------------------------------------------------------------------------------------
# execution context of one path
# ---------------------------------------------------------------------------------------------

@dataclass
class Dropped:
    docstrings: int = 0
    annotations: int = 0
    log_calls: int = 0
    decorators: int = 0
    exc_messages: int = 0
    opaque_fstrings: int = 0

    def add(self, other):
        for k in self.__dataclass_fields__:
            setattr(self, k, getattr(self, k) + getattr(other, k))


def _schema_is_string(sch) -> bool:
    r = getattr(sch, '_is_string', None)
    if r is None:
        try:
            d = z3.Int('__probe')
            r = smt.involves_strings(sch.inst(d, d) if sch.arity == 2 else sch.inst(d))
        except Exception:
            r = False
        sch._is_string = r
    return r


class Ctx:
    def __init__(self, explorer, prefix):
        self.ex = explorer
        self.prefix = list(prefix)
        self.decisions = []          # decisions taken on this path (bool / str labels)
        self.pc = []                 # assumptions (z3, quantifier-free)
        self.schemas = []            # smt.Forall assumptions, instantiated at discharge time
        self.cnt_arrays = []         # bool arrays on which cnt() was used (for unfolding instances)
        self.hint_terms = []         # extra integer terms at which schemas / cnt are instantiated
        self.obligations = []
        self.effects = []            # ghost effect log: ('WARN', cls), ('LOG',) ...
        self.extractors = {}         # input name -> callable(model) -> python value  (for replay)
        self.used_lemmas = set()     # names of proved lemmas whose instances were used as hypotheses
        self.cnt_mono = False        # add cnt_mono instances over pairs of instantiation terms
        self.used_expr_contracts = set()
        self.used_frame_contracts = set()
        self.skel_absorbed = 0       # expressions absorbed as opaque values in skeleton mode
        self.underdetermined = False  # a library / callee contract returned a value it only constrains (cross-check: consistency)
        self.definitions = []        # definitional equations of opaque symbols applied on this path (for the CPython cross-check)
        self._hyps_cache = {}
        self.pair_terms = []         # explicit witness pairs for binary schemas (empty: all pairs of instantiation terms)
        self.term_maps = []          # unary z3 functions applied to the instantiation terms (e.g. a sort permutation)
        self.len_vars = []           # length variables of list / table inputs (for small counter-models)
        self.ghost = {}              # ghost values exposed to the contract (e.g. selected rows of a mask filter)
        self.fn_stack = []
        self.modular_site = None     # set while a callee's postcondition is evaluated for a call site
        self.used_model_ops = set()  # library methods answered by a dialect model on this path (evidence: trusted base)
        self.key_schemas = []        # smt.ForallKey assumptions (universals over dictionary keys)
        self.key_terms = []          # string terms at which they are instantiated

    # ---- path condition -------------------------------------------------------------------
    @property
    def live(self):
        """obligations are emitted only once the forced prefix is consumed"""
        return len(self.decisions) >= len(self.prefix)

    def hint_key(self, *terms):
        for t in terms:
            if not any(t.eq(u) for u in self.key_terms):
                self.key_terms.append(t)

    def assume(self, f):
        if isinstance(f, smt.ForallKey):
            self.key_schemas.append(f)
        elif isinstance(f, smt.Forall):
            self.schemas.append(f)
            if f.atom is not None:
                self.pc.append(f.atom)
        elif isinstance(f, smt.Exists):
            w = fresh_int(f.name)
            self.pc.append(f.at(w))
            self.hint(w)
        elif isinstance(f, smt.Sequent):
            # (premises => goal) as an assumption: an existential goal is skolemised under the premises
            prem = [lift(h) if isinstance(h, bool) else h for h in f.hyps]
            if any(not z3.is_expr(h) for h in prem):
                raise Unsupported('assumed sequent with non-formula premises')
            g = f.goal
            if isinstance(g, smt.Exists):
                w = fresh_int(g.name)
                self.pc.append(z3.Implies(z3.And(*prem) if prem else z3.BoolVal(True), g.at(w)))
                self.hint(w)
            elif isinstance(g, smt.Forall):
                self.assume(smt.Implies(z3.And(*prem) if prem else z3.BoolVal(True), g))
            else:
                self.pc.append(z3.Implies(z3.And(*prem) if prem else z3.BoolVal(True), smt._b(g)))
        elif isinstance(f, (list, tuple)):
            for g in f:
                self.assume(g)
        elif isinstance(f, dict):
            for g in f.values():
                self.assume(g)
        elif isinstance(f, bool):
            if not f:
                self.pc.append(z3.BoolVal(False))
        else:
            self.pc.append(f)

    def note_cnt(self, arr):
        if not any(arr.eq(a) for a in self.cnt_arrays):
            self.cnt_arrays.append(arr)

    def hint_pair(self, t, u):
        self.pair_terms.append((lift(t), lift(u)))
        self.hint(t, u)

    def hint(self, *terms):
        for t in terms:
            t = lift(t)
            if not any(t.eq(u) for u in self.hint_terms):
                self.hint_terms.append(t)

    def path_id(self):
        return ''.join('T' if d is True else 'F' if d is False else f'[{d}]' for d in self.decisions)

    def hyps(self, extra_terms=(), snap=None):
        """quantifier-free hypothesis set: pc + schema instances + cnt unfoldings at the instantiation terms.
        snap = (len pc, len schemas, len hints, len cnt arrays): the state of the path when an obligation was emitted."""
        if snap is not None:
            pc_, schemas_, hints_, cnts_ = self.pc[:snap[0]], self.schemas[:snap[1]], self.hint_terms[:snap[2]], self.cnt_arrays[:snap[3]]
        else:
            pc_, schemas_, hints_, cnts_ = self.pc, self.schemas, self.hint_terms, self.cnt_arrays
        if self.key_schemas or any(z3.is_expr(t) and t.sort() == z3.StringSort() for t in extra_terms):
            # (paths using the dictionary dialect are small: no caching, no snapshots)
            keys = list(self.key_terms)
            for t in extra_terms:
                if z3.is_expr(t) and t.sort() == z3.StringSort() and not any(t.eq(u) for u in keys):
                    keys.append(t)
            ints = [t for t in extra_terms if not (z3.is_expr(t) and t.sort() == z3.StringSort())]
            inst = self._instances(ints, schemas_, hints_, cnts_)
            # two rounds: instances may mention new key terms only through the registered ones, so one round per schema suffices
            kinst = [sch.inst(k) for sch in self.key_schemas for k in keys]
            return list(pc_) + inst + kinst
        # the instance part depends only on (schemas, hint terms, cnt arrays, term maps, pairs, extra terms): cache it
        ckey = (len(schemas_), len(hints_), len(cnts_), len(self.term_maps), len(self.pair_terms), self.cnt_mono,
                tuple(lift(t).get_id() for t in extra_terms))
        hit = self._hyps_cache.get(ckey)
        if hit is not None:
            return list(pc_) + hit[1]
        inst = self._instances(extra_terms, schemas_, hints_, cnts_)
        self._hyps_cache[ckey] = ([lift(t) for t in extra_terms], inst)       # extra terms kept alive: their ids stay valid
        return list(pc_) + inst

    def _instances(self, extra_terms, schemas_, hints_, cnts_):
        pc_ = []
        terms = list(hints_)
        for t in extra_terms:
            t = lift(t)
            if not any(t.eq(u) for u in terms):
                terms.append(t)
        for f in self.term_maps:
            for t in list(terms):
                u = f(t)
                if not any(u.eq(w) for w in terms):
                    terms.append(u)
        # close under +-1 once (unfoldings at k-1, k, k+1 are what inductions over prefixes need)
        base = list(terms)
        for t in base:
            for u in (t - 1, t + 1):
                u = z3.simplify(u)
                if not any(u.eq(w) for w in terms):
                    terms.append(u)
        hy = list(pc_)
        for sch in schemas_:
            if sch.arity == 2:
                if self.pair_terms:
                    # explicit pair mode: binary schemas are instantiated at the registered witness pairs (both orders) and at
                    # all pairs of the obligation's own extra terms (its skolem constants)
                    ext = [lift(t) for t in extra_terms]
                    pairs = list(self.pair_terms) + [(a, b) for a in ext for b in ext]
                    for (t, u) in pairs:
                        hy.append(sch.inst(t, u))
                        hy.append(sch.inst(u, t))
                    continue
                for t in base:
                    for u in base:
                        hy.append(sch.inst(t, u))
                continue
            # string-valued schemas (e.g. code[i] == abbr ++ digits) are instantiated at the primary terms only
            for t in (base if _schema_is_string(sch) else terms):
                hy.append(sch.inst(t))
        arrays = []

        def add_arr(a):
            if any(a.eq(b) for b in arrays):
                return
            arrays.append(a)
            if z3.is_store(a):
                add_arr(a.arg(0))
        for a in cnts_:
            add_arr(a)
        for a in arrays:
            if self.cnt_mono:
                # instances of the proved lemma `cnt_mono`: 0 <= t <= u  =>  cnt(a, t) <= cnt(a, u)
                for t in terms:
                    for u in base:
                        if not t.eq(u):
                            hy.append(z3.Implies(z3.And(0 <= t, t <= u), cnt(a, t) <= cnt(a, u)))
                self.used_lemmas.add('cnt_mono')
            for t in terms:
                hy.append(cnt_def(a, t))
                if z3.is_store(a):
                    # instance of the proved lemma `cnt_frame` (contracts/lemmas.py):
                    #   0 <= k <= n  =>  cnt(store(a, n, v), k) == cnt(a, k)
                    base, n = a.arg(0), a.arg(1)
                    hy.append(z3.Implies(z3.And(t >= 0, t <= n), cnt(a, t) == cnt(base, t)))
                    self.used_lemmas.add('cnt_frame')
        return hy

    def branch(self, cond) -> bool:
        """decide a symbolic condition; returns the side taken on this path"""
        if isinstance(cond, bool):
            return cond
        cond = z3.simplify(cond)
        if z3.is_true(cond):
            return True
        if z3.is_false(cond):
            return False
        pos = len(self.decisions)
        if pos < len(self.prefix):
            d = self.prefix[pos]
        else:
            hy = self.hyps()
            if not smt.has_string_terms(cond):
                # relevance filter: over-approximates feasibility (sound), keeps branch tests out of the string solver
                hy = [h for h in hy if not smt.involves_strings(h)]
            can_t = smt.quick_sat(hy + [cond], self.ex.branch_timeout_ms) != 'unsat'
            can_f = smt.quick_sat(hy + [z3.Not(cond)], self.ex.branch_timeout_ms) != 'unsat'
            if can_t and can_f:
                self.ex.queue(self.decisions + [False])
                d = True
            elif can_t:
                d = True
            elif can_f:
                d = False
            else:
                raise PathEnd('infeasible')
        self.decisions.append(d)
        self.pc.append(cond if d else z3.Not(cond))
        return d

    def choose(self, label, options):
        """non-deterministic choice among labelled options (loop cut: 'body' / 'exit')."""
        pos = len(self.decisions)
        if pos < len(self.prefix):
            d = self.prefix[pos]
        else:
            for o in options[1:]:
                self.ex.queue(self.decisions + [o])
            d = options[0]
        self.decisions.append(d)
        return d

    # ---- obligations ------------------------------------------------------------------------
    def oblige(self, kind_clause, goal, expect='valid', extra_terms=(), fn=None):
        if not self.live:
            return
        fn = fn or (self.fn_stack[0] if self.fn_stack else '?')
        name = f'{fn}::{kind_clause}'
        goals = goal if isinstance(goal, (list, tuple)) else [goal]
        for g in goals:
            local = []
            isolate = False
            seq = None
            if isinstance(g, smt.Sequent):
                seq, isolate = g, g.isolate
                g = g.goal
            skolems = []
            if isinstance(g, smt.Forall) and g.arity == 2:
                j, j2 = fresh_int(g.name), fresh_int(g.name + 'b')
                gg = g.inst(j, j2)
                skolems = [j, j2]
            elif isinstance(g, smt.Forall):
                j = fresh_int(g.name)
                gg = g.inst(j)
                skolems = [j]
            elif isinstance(g, smt.ForallKey):
                kk = fresh(g.name, z3.StringSort())
                gg = g.inst(kk)
                skolems = [kk]
            elif isinstance(g, smt.Exists):
                cands = list(self.hint_terms) + [lift(t) for t in extra_terms if not (z3.is_expr(t) and t.sort() == z3.StringSort())]
                cands += [f(t) for f in self.term_maps for t in list(cands)]       # images under registered term maps (e.g. positions)
                gg = z3.Or(*[g.at(t) for t in cands]) if cands else z3.BoolVal(False)
            elif isinstance(g, bool):
                gg = z3.BoolVal(g)
            else:
                gg = g
            if seq is not None:
                for k, h in enumerate(seq.hyps):
                    if isinstance(h, smt.LemmaInst):
                        self.used_lemmas.add(h.name)
                        # (a callable formula is instantiated at the skolem constants of a universal goal)
                        local.append(h.formula(*skolems) if callable(h.formula) else h.formula)
                        continue
                    if isinstance(h, smt.Forall):
                        # a universal local hypothesis: proved as such (cut), used at the skolem constants of the goal
                        if h.arity != 1:
                            raise Unsupported('binary universal local hypothesis')
                        if isolate:
                            jc = fresh_int(h.name)
                            self.obligations.append(Obligation(f'{name}.cut{k}', self.hyps(list(extra_terms) + [jc]), h.inst(jc), 'valid', self.path_id()))
                        local.extend(h.inst(t) for t in skolems)
                        continue
                    h = lift(h) if isinstance(h, bool) else h
                    if isolate:
                        # cut: the local hypothesis is itself an obligation under the full path hypotheses
                        self.obligations.append(Obligation(f'{name}.cut{k}', self.hyps(extra_terms), h, 'valid', self.path_id()))
                    local.append(h)
            et = list(extra_terms) + skolems
            hy = self.hyps(et)
            ob = Obligation(name, (local if isolate else hy + local), gg, expect, self.path_id())
            ob.info = dict(self.extractors)
            if not isolate:
                snap = (len(self.pc), len(self.schemas), len(self.hint_terms), len(self.cnt_arrays))
                ob.rehyp = (lambda more, et=et, local=local, snap=snap: self.hyps(et + list(more), snap) + local)
                ob.len_vars = list(self.len_vars)
            self.obligations.append(ob)

    def safe(self, what, cond, exc='Exception'):
        """a partial operation: on this path it must be safe (obligation), then assumed -- unless an enclosing `try` of the code
        catches this very exception: then failing is ordinary control flow and the path forks."""
        if isinstance(cond, bool):
            if cond:
                return
            cond = z3.BoolVal(False)
        cond = z3.simplify(cond)
        if z3.is_true(cond):
            return
        if any(exc_matches(exc, caught) for caught in getattr(self, 'try_stack', ())):
            if self.branch(z3.Not(cond)):
                raise PyRaise(exc, f'caught partial operation {what}')
            return
        self.oblige(f'safe.{what}', cond)
        self.pc.append(cond)

    def effect(self, *e):
        self.effects.append(tuple(e))


# ---------------------------------------------------------------------------------------------
# the interpreter
# ---------------------------------------------------------------------------------------------

#: exception class -> its bases (only what the repository's except clauses and the modelled partial operations need)
EXC_BASES = {'BaseException': (), 'Exception': ('BaseException',), 'KeyboardInterrupt': ('BaseException',), 'SystemExit': ('BaseException',),
             'GeneratorExit': ('BaseException',), 'ArithmeticError': ('Exception',), 'LookupError': ('Exception',),
             'ZeroDivisionError': ('ArithmeticError',), 'IndexError': ('LookupError',), 'KeyError': ('LookupError',),
             'ValueError': ('Exception',), 'TypeError': ('Exception',), 'AttributeError': ('Exception',), 'NameError': ('Exception',),
             'RuntimeError': ('Exception',), 'AssertionError': ('Exception',), 'AmpycloudError': ('Exception',), 'Warning': ('Exception',),
             'AmpycloudWarning': ('Warning',)}


def exc_matches(exc, caught_names):
    """would `except <caught_names>` catch an exception of class exc?"""
    seen, todo = set(), [exc.rsplit('.', 1)[-1]]
    while todo:
        e = todo.pop()
        if e in seen:
            continue
        seen.add(e)
        if e in caught_names:
            return True
        if e not in EXC_BASES:
            todo.append('Exception')       # unknown classes are ordinary exceptions
        else:
            todo.extend(EXC_BASES[e])
    return False


class Frame:
    def __init__(self, fi: source.FuncInfo, env: dict):
        self.fi = fi
        self.mod = source.load_module(fi.module)
        self.env = env
        self.loop_ordinal = 0
        self.call_ordinals = {}


class EnvView:
    """contract-level view of the local variables (raw z3 terms for int/bool/str scalars)."""

    def __init__(self, env):
        object.__setattr__(self, '_env', env)

    def __getattr__(self, k):
        try:
            return raw(self._env[k])
        except KeyError:
            # a contract clause (invariant, ...) speaks about a local variable the code no longer has: the clause cannot be stated
            raise Unsupported(f'the contract refers to the local variable `{k}`, which is not defined at this point of the code')

    def __contains__(self, k):
        return k in self._env


PREFIX_LOCAL = object()       # marker: local defined by the dropped prefix of a block contract


class Interp:
    def __init__(self, ctx: Ctx, registry, lib):
        self.ctx = ctx
        ctx.interp = self
        self.reg = registry      # contracts registry
        self.lib = lib           # external models: dotted name -> callable(ctx, interp, args, kwargs)
        self.dropped = Dropped()
        self.skeleton = False
        from .lib import EXT_VALUES
        self.ext_values = EXT_VALUES
        self.interpreted = set()  # qualnames whose bodies were interpreted on this path

    # ---- functions --------------------------------------------------------------------------
    def run_function(self, fi: source.FuncInfo, args: dict, contract=None):
        """interpret the body of fi with the given argument environment; returns the returned value or raises PyRaise"""
        self.interpreted.add(fi.qualname)
        for d in fi.decorators:
            if d.startswith('log_func_call') or d == 'property' or d.startswith('wraps') \
                    or d == 'abstractmethod' or d == 'contextlib.contextmanager':
                self.dropped.decorators += 1
            else:
                raise Unsupported(f'decorator {d} on {fi.qualname}')
        frame = Frame(fi, dict(args))
        frame.contract = contract if contract is not None else self.reg.get(fi.qualname)
        if not self.ctx.fn_stack and frame.contract is not None and getattr(frame.contract, 'skeleton', False):
            self.skeleton = True
        self.ctx.fn_stack.append(fi.qualname)
        try:
            body = fi.node.body
            if body and isinstance(body[0], ast.Expr) and isinstance(body[0].value, ast.Constant) \
                    and isinstance(body[0].value.value, str):
                self.dropped.docstrings += 1
                body = body[1:]
            cut = getattr(frame.contract, 'entry_cut', None) if len(self.ctx.fn_stack) <= 2 and self.ctx.fn_stack[0] == fi.qualname else None
            if cut is not None:
                want = cut['first_assigns']
                k = next((j for j, st in enumerate(body) if isinstance(st, ast.Assign) and any(
                    isinstance(t, ast.Name) and t.id == want for t in st.targets)), None)
                if k is None:
                    raise Unsupported(f'block contract: no top-level statement assigns `{want}`')
                self.ctx.ghost['entry_cut'] = {'function': fi.qualname, 'verified_from_line': body[k].lineno,
                                               'unverified_lines': [body[0].lineno, body[k].lineno - 1] if k else None}
                described = cut['state'](self.ctx, frame.env)
                for st_ in body[:k]:
                    for nd in ast.walk(st_):
                        if isinstance(nd, ast.Name) and isinstance(nd.ctx, ast.Store) and nd.id not in described:
                            frame.env[nd.id] = PREFIX_LOCAL        # (parameters rebound by the prefix included: their value is unknown)
                frame.env.update(described)
                body = body[k:]
            try:
                self.exec_block(body, frame)
            except ReturnSig as r:
                return r.value
            return None
        finally:
            if len(self.ctx.fn_stack) <= 2 and self.ctx.fn_stack[0] == fi.qualname:
                self.ctx.ghost['locals_at_exit'] = frame.env        # (postconditions may speak about the final locals)
            self.ctx.fn_stack.pop()

    def bind_args(self, fi: source.FuncInfo, pos: list, kw: dict, frame_for_defaults=None) -> dict:
        a = fi.node.args
        names = [x.arg for x in a.posonlyargs + a.args]
        env = {}
        if len(pos) > len(names) and a.vararg is None:
            raise PyRaise('TypeError', 'too many positional args')
        for n, v in zip(names, pos):
            env[n] = v
        kw = dict(kw)
        extra = {}
        for k, v in kw.items():
            if k in names or k in [x.arg for x in a.kwonlyargs]:
                if k in env:
                    raise PyRaise('TypeError', f'multiple values for {k}')
                env[k] = v
            elif a.kwarg is not None:
                extra[k] = v
            else:
                raise PyRaise('TypeError', f'unexpected keyword {k}')
        defaults = a.defaults
        for n, d in zip(names[len(names) - len(defaults):], defaults):
            if n not in env:
                env[n] = self.eval_const_default(d)
        for n, d in zip([x.arg for x in a.kwonlyargs], a.kw_defaults):
            if n not in env and d is not None:
                env[n] = self.eval_const_default(d)
        for n in names:
            if n not in env:
                raise PyRaise('TypeError', f'missing argument {n}')
        if a.kwarg is not None:
            env[a.kwarg.arg] = extra
        return env

    def eval_const_default(self, node):
        try:
            return ast.literal_eval(node)
        except Exception:
            raise Unsupported(f'default value {ast.unparse(node)}')

    # ---- statements -------------------------------------------------------------------------
    def exec_block(self, stmts, fr: Frame):
        for s in stmts:
            self.exec_stmt(s, fr)

    def exec_stmt(self, s, fr: Frame):
        m = getattr(self, 'stmt_' + type(s).__name__, None)
        if m is None:
            raise Unsupported(f'statement {type(s).__name__} at {fr.fi.qualname}:{s.lineno}')
        return m(s, fr)

    def stmt_Pass(self, s, fr):
        pass

    def stmt_Expr(self, s, fr):
        v = s.value
        if isinstance(v, ast.Constant):
            return
        if isinstance(v, ast.Call) and self._is_logger_call(v):
            self.dropped.log_calls += 1
            self.ctx.effect('LOG')
            return
        self.eval(v, fr)

    def _is_logger_call(self, call: ast.Call) -> bool:
        f = call.func
        return isinstance(f, ast.Attribute) and isinstance(f.value, ast.Name) and f.value.id == 'logger' \
            and f.attr in ('debug', 'info', 'warning', 'error', 'critical')

    def stmt_Return(self, s, fr):
        raise ReturnSig(self.eval(s.value, fr) if s.value is not None else None)

    def stmt_Break(self, s, fr):
        raise BreakSig()

    def stmt_Continue(self, s, fr):
        raise ContinueSig()

    def stmt_Assign(self, s, fr):
        con = getattr(fr, 'contract', None)
        if con is not None and con.expr_contracts and len(s.targets) == 1 and isinstance(s.targets[0], ast.Name) \
                and s.targets[0].id in con.expr_contracts:
            # assumed contract on one expression, pinned by its exact AST: if the code's expression differs from the
            # pinned text the assumption does not apply any more (fail closed -> UNDECIDED, the bounded run decides)
            ec = con.expr_contracts[s.targets[0].id]
            want = ast.dump(ast.parse(ec['source'].strip(), mode='eval').body)
            if ast.dump(s.value) != want:
                raise Unsupported(f'pinned expression for `{s.targets[0].id}` changed: the assumed contract '
                                  f'"{ec["doc"]}" no longer applies')
            self.ctx.used_expr_contracts.add(f'{fr.fi.qualname}: {s.targets[0].id} = {" ".join(ec["source"].split())}  ==>  {ec["doc"]}')
            fr.env[s.targets[0].id] = ec['value'](self, fr)
            return
        v = self.eval(s.value, fr)
        for t in s.targets:
            self.assign(t, v, fr)

    def stmt_AnnAssign(self, s, fr):
        self.dropped.annotations += 1
        if s.value is not None:
            self.assign(s.target, self.eval(s.value, fr), fr)

    def stmt_AugAssign(self, s, fr):
        cur = self.eval(_as_load(s.target), fr)
        rhs = self.eval(s.value, fr)
        op = type(s.op).__name__
        if isinstance(cur, SList) and op == 'Add':
            new = cur.iadd_list(self.ctx, rhs)      # in-place, like list.__iadd__
        elif isinstance(cur, list) and op == 'Add' and isinstance(rhs, list):
            cur.extend(rhs)
            new = cur
        elif isinstance(cur, Model) and isinstance(s.target, ast.Name) and getattr(cur, 'pytype', None) in ('Series', 'ndarray', 'DataFrame'):
            # numpy arrays and pandas objects implement the augmented operators *in place*: every alias of the object sees the
            # change.  The symbolic object itself takes the new state (aliases share it, as in CPython).
            new = self.binop(op, cur, rhs)
            if getattr(cur, 'column_of', None) is not None:
                raise Unsupported('in-place operator on a column handed out by a frame (write-through depends on the pandas version)')
            if not (isinstance(new, Model) and type(new) is type(cur)):
                raise Unsupported(f'in-place operator {op} changes the representation of {type(cur).__name__}')
            cur.__dict__.clear()
            cur.__dict__.update(new.__dict__)
            new = cur
        else:
            new = self.binop(op, cur, rhs)
        self.assign(s.target, new, fr)

    def assign(self, target, v, fr):
        if isinstance(target, ast.Name):
            con = getattr(fr, 'contract', None)
            if isinstance(v, list) and len(v) == 0 and con is not None and target.id in (con.local_models or {}):
                v = con.local_models[target.id]()
            fr.env[target.id] = v
        elif isinstance(target, (ast.Tuple, ast.List)):
            vals = self.unpack(v, len(target.elts))
            for t, x in zip(target.elts, vals):
                self.assign(t, x, fr)
        elif isinstance(target, ast.Subscript):
            obj = self.eval(target.value, fr)
            idx = self.eval_index(target.slice, fr)
            self.setitem(obj, idx, v)
        elif isinstance(target, ast.Attribute):
            obj = self.eval(target.value, fr)
            if isinstance(obj, Model):
                obj.sym_setattr(self.ctx, target.attr, v)
            elif isinstance(obj, RepoModuleRef) and f'{obj.modname}.{target.attr}' in (self.ctx.ghost.get('globals') or {}):
                key = f'{obj.modname}.{target.attr}'
                self.ctx.ghost['globals'][key] = v           # rebinding of a modelled module attribute
                self.ctx.ghost.setdefault('global_rebinds', []).append((key, v))
            else:
                raise Unsupported(f'attribute assignment on {obj!r}')
        else:
            raise Unsupported(f'assignment target {type(target).__name__}')

    def unpack(self, v, n):
        if self.skeleton and isinstance(v, Opaque):
            return [Opaque('skel') for _ in range(n)]
        if isinstance(v, (tuple, list)):
            if len(v) != n:
                raise PyRaise('ValueError', 'unpack')
            return list(v)
        raise Unsupported(f'unpack of {v!r}')

    def setitem(self, obj, idx, v):
        if self.skeleton and isinstance(obj, Opaque):
            return None          # a local object the executor does not track (fresh table / array): no effect on tracked state
        if isinstance(obj, Model):
            return obj.sym_setitem(self.ctx, idx, v)
        if isinstance(obj, dict):
            if is_concrete(idx):
                obj[idx] = v
                return
            raise Unsupported('dict store with symbolic key')
        if isinstance(obj, list):
            if isinstance(idx, int):
                if not -len(obj) <= idx < len(obj):
                    raise PyRaise('IndexError')
                obj[idx] = v
                return
            raise Unsupported('list store with symbolic index')
        raise Unsupported(f'setitem on {obj!r}')

    def stmt_If(self, s, fr):
        if self.skeleton:
            t = self.eval(s.test, fr)
            if isinstance(t, Opaque) and _local_only(s.body) and _local_only(s.orelse):
                # opaque condition guarding nothing but assignments to local names: no fork, the names become opaque
                for n in _modified_names(s.body) | _modified_names(s.orelse):
                    fr.env[n] = Opaque('skel')
                return
            if self.truth(t):
                self.exec_block(s.body, fr)
            else:
                self.exec_block(s.orelse, fr)
            return
        if self.truth(self.eval(s.test, fr)):
            self.exec_block(s.body, fr)
        else:
            self.exec_block(s.orelse, fr)

    def stmt_Raise(self, s, fr):
        if s.exc is None:
            cur = getattr(fr, 'handling', None)
            if cur is None:
                raise Unsupported('bare raise outside an except block')
            raise cur
        e = s.exc
        if isinstance(e, ast.Call):
            cls = self.eval(e.func, fr)
            self.dropped.exc_messages += 1       # message arguments are not evaluated
        else:
            cls = self.eval(e, fr)
        name = cls.name if isinstance(cls, RepoClassRef) else cls.name if isinstance(cls, BuiltinRef) else None
        if name is None:
            raise Unsupported(f'raise of {cls!r}')
        raise PyRaise(name, f'{fr.fi.qualname}:{s.lineno}')

    def stmt_Assert(self, s, fr):
        c = self.eval(s.test, fr)
        t = to_bool_term(c) if not isinstance(c, bool) else z3.BoolVal(c)
        self.ctx.oblige('assert.line_in_body', t)
        self.ctx.assume(t)

    def _handler_names(self, h, fr):
        if h.type is None:
            return ('BaseException',)
        ts = h.type.elts if isinstance(h.type, ast.Tuple) else [h.type]
        out = []
        for t in ts:
            cls = self.eval(t, fr)
            nm = cls.name if isinstance(cls, (RepoClassRef, BuiltinRef)) else None
            if nm is None:
                raise Unsupported(f'except clause for {cls!r}')
            out.append(nm.rsplit('.', 1)[-1])
        return tuple(out)

    def stmt_Try(self, s, fr):
        ctx = self.ctx
        if not hasattr(ctx, 'try_stack'):
            ctx.try_stack = []
        caught = [self._handler_names(h, fr) for h in s.handlers]
        try:
            if s.handlers:
                ctx.try_stack.append(tuple(n for hn in caught for n in hn))
            try:
                try:
                    self.exec_block(s.body, fr)
                finally:
                    if s.handlers:
                        ctx.try_stack.pop()
            except PyRaise as r:
                kind = r.exc
                if kind == 'BodyException':      # raised by the body of a with statement: any exception class
                    kind = 'Exception' if ctx.ghost.get('body_exc_is_Exception', True) else 'BaseException'
                for h, names in zip(s.handlers, caught):
                    if any(exc_matches(kind, (n,)) for n in names):
                        if h.name:
                            fr.env[h.name] = Opaque('exception object')
                        prev = getattr(fr, 'handling', None)
                        fr.handling = r
                        try:
                            self.exec_block(h.body, fr)
                        finally:
                            fr.handling = prev
                        break
                else:
                    raise
            else:
                self.exec_block(s.orelse, fr)
        finally:
            # NB: Python semantics -- finalbody runs on every exit (normal, return, raise, break)
            self.exec_block(s.finalbody, fr)

    def stmt_For(self, s, fr):
        if s.orelse:
            raise Unsupported('for/else')
        k = fr.loop_ordinal
        fr.loop_ordinal += 1
        it = self.eval(s.iter, fr)
        if self.skeleton and (isinstance(it, Opaque) or (isinstance(it, Model) and not hasattr(it, 'sym_iter_ok'))):
            # opaque sequence: the body runs zero times or (abstractly) once -- ghost versions only record *whether* something
            # was written, and a raise in a later iteration looks like one in the first
            ne = getattr(it, 'nonempty', None)
            which_ = 'once' if ne is True else 'zero' if ne is False else self.ctx.choose(f'loop{k}', ['once', 'zero'])
            if which_ == 'once':
                self.assign_opaque(s.target, fr)
                try:
                    self.exec_block(s.body, fr)
                except (BreakSig, ContinueSig):
                    pass
            return
        seq = self.as_iterable(it)
        if seq[0] == 'concrete':
            for x in seq[1]:
                self.assign(s.target, x, fr)
                try:
                    self.exec_block(s.body, fr)
                except BreakSig:
                    break
                except ContinueSig:
                    continue
            return
        _, n, getter = seq
        self.cut_loop(s, fr, k, n=n, getter=getter)

    def stmt_While(self, s, fr):
        if s.orelse:
            raise Unsupported('while/else')
        k = fr.loop_ordinal
        fr.loop_ordinal += 1
        if self.skeleton:
            c = self.eval(s.test, fr)
            if isinstance(c, Opaque):
                if self.ctx.choose(f'loop{k}', ['once', 'zero']) == 'once':
                    try:
                        self.exec_block(s.body, fr)
                    except (BreakSig, ContinueSig):
                        pass
                return
        self.cut_loop(s, fr, k)

    def assign_opaque(self, target, fr):
        if isinstance(target, ast.Name):
            fr.env[target.id] = Opaque('skel')
        elif isinstance(target, (ast.Tuple, ast.List)):
            for t in target.elts:
                self.assign_opaque(t, fr)
        else:
            raise HardUnsupported('opaque assignment to a non-name target')

    def cut_loop(self, s, fr, k, n=None, getter=None):
        """invariant-based cut of `for x in <symbolic seq>` (n, getter given) or `while`."""
        ctx = self.ctx
        con = fr.contract
        spec = (con.loops or {}).get(k) if con is not None else None
        if spec is None:
            raise Unsupported(f'loop #{k} of {fr.fi.qualname} over a symbolic sequence has no invariant')
        is_for = n is not None
        i0 = z3.IntVal(0)
        inv = spec['invariant']

        def inv_at(i):
            r = inv(EnvView(fr.env), i) if is_for else inv(EnvView(fr.env))
            return r if isinstance(r, dict) else {'inv': r}

        for cname, f in inv_at(i0).items():
            ctx.oblige(f'inv.init#{k}.{cname}', f, extra_terms=[i0])
        which = ctx.choose(f'loop{k}', ['body', 'exit'])
        # havoc everything the body may modify
        mods = spec['modifies'] if spec.get('modifies') is not None else sorted(_modified_names(s.body) | ({t.id for t in ast.walk(s.target) if isinstance(t, ast.Name)} if is_for else set()))
        mcols = spec.get('modifies_cols') or {}
        col_snap = {}
        for name in mods:
            if name in fr.env:
                if name in mcols:
                    # only the listed columns of this table are havocked; that the body writes no other column is
                    # checked after the body (column objects are replaced on every write)
                    tab = fr.env[name]
                    for cn in mcols[name]:
                        if cn not in tab.cols:
                            continue          # a column this table does not have (frame lists the columns of every variant)
                        c = tab.cols[cn]
                        tab.cols[cn] = spec['col_models'][cn](tab.n) if 'col_models' in spec and cn in spec['col_models'] \
                            else _fresh_like(tab.n, cn, c)
                    col_snap[name] = {cn: c for cn, c in tab.cols.items() if cn not in mcols[name]}
                else:
                    fr.env[name] = self.havoc_value(fr.env[name], name)
        if 'havoc' in spec:
            spec['havoc'](fr.env, ctx)          # contract-supplied havoc of values whose shape changes (e.g. a table losing rows)
        for oname, flds in (spec.get('modifies_fields') or {}).items():
            obj = fr.env.get(oname)
            for fld in flds:
                obj.fields[fld] = self.havoc_value(obj.fields[fld], fld)
        for gname in spec.get('modifies_globals', ()):
            gl = ctx.ghost.get('globals') or {}
            if gname in gl:
                gl[gname] = self.havoc_value(gl[gname], gname.rsplit('.', 1)[-1])
        i = fresh_int('i') if is_for else None
        if is_for:
            ctx.assume(z3.And(i >= 0, i <= n))
            ctx.hint(i)
        for f in inv_at(i).values():
            ctx.assume(f)
        if which == 'body':
            if is_for:
                ctx.assume(i < n)
                self.assign(s.target, getter(i), fr)
            else:
                c = self.eval(s.test, fr)
                ctx.assume(to_bool_term(c) if not isinstance(c, bool) else z3.BoolVal(c))
                var0 = spec['variant'](EnvView(fr.env)) if 'variant' in spec else None
            if 'assume_in_body' in spec:
                ctx.assume(list(spec['assume_in_body'](EnvView(fr.env), i)))
            try:
                self.exec_block(s.body, fr)
            except ContinueSig:
                pass
            except BreakSig:
                raise Unsupported('break inside an invariant-cut loop')
            for name, snap in col_snap.items():
                tab = fr.env.get(name)
                for cn, c in snap.items():
                    if tab is None or tab.cols.get(cn) is not c:
                        raise Unsupported(f'loop #{k} writes column {cn} of {name}, which its frame does not list')
            if 'body_obligations' in spec:
                for cname, f in spec['body_obligations'](EnvView(fr.env), i).items():
                    ctx.oblige(f'iter#{k}.{cname}', f, extra_terms=[i] if is_for else [])
            nxt = (i + 1) if is_for else None
            for cname, f in (inv(EnvView(fr.env), nxt) if is_for else inv(EnvView(fr.env))).items():
                ctx.oblige(f'inv.keep#{k}.{cname}', f, extra_terms=[nxt] if is_for else [])
            if not is_for and var0 is not None:
                var1 = spec['variant'](EnvView(fr.env))
                ctx.oblige(f'var#{k}.decreases', z3.And(var0 >= 0, var1 < var0))
            # vacuity guard: the end of the body must be reachable under the invariant (else its obligations hold vacuously);
            # recorded per path, judged per loop (some branch of the body must reach its end)
            ctx.oblige(f'cover.body#{k}', z3.BoolVal(True), expect='sat')
            raise PathEnd('loop body verified')
        else:
            if is_for:
                ctx.assume(i == n)
            else:
                c = self.eval(s.test, fr)
                ctx.assume(z3.Not(to_bool_term(c)) if not isinstance(c, bool) else z3.BoolVal(not c))

    def havoc_value(self, v, name):
        if isinstance(v, SInt):
            return SInt(fresh_int(name), v.ty)
        if isinstance(v, SBool):
            return SBool(fresh_bool(name), v.ty)
        if isinstance(v, SFloat):
            return SFloat(fresh_real(name), fresh_bool(name + '_nan'), v.ty)
        if isinstance(v, SStr):
            return SStr(fresh(name, z3.StringSort()))
        if isinstance(v, bool):
            return SBool(fresh_bool(name))
        if isinstance(v, int):
            return SInt(fresh_int(name))
        if isinstance(v, float):
            return SFloat(fresh_real(name), fresh_bool(name + '_nan'))
        if isinstance(v, Model):
            return v.havoc(self.ctx)
        if isinstance(v, list) and len(v) == 0:
            raise Unsupported(f'havoc of empty concrete list {name}: give it a typed model via contract locals')
        raise Unsupported(f'havoc of {v!r}')

    def stmt_With(self, s, fr):
        raise Unsupported('with statement (no model registered)')

    # ---- expressions ------------------------------------------------------------------------
    def eval(self, e, fr: Frame):
        m = getattr(self, 'expr_' + type(e).__name__, None)
        if m is None:
            if self.skeleton:
                return Opaque('skel')
            raise Unsupported(f'expression {type(e).__name__} at {fr.fi.qualname}:{getattr(e, "lineno", "?")}')
        if not self.skeleton:
            return m(e, fr)
        # skeleton mode (label F/typestate): a *pure* expression the executor has no model for evaluates to an opaque
        # value; constructs that may hide an effect on tracked state raise HardUnsupported and are never absorbed
        try:
            return m(e, fr)
        except HardUnsupported:
            raise
        except Unsupported as u:
            self.ctx.skel_absorbed += 1
            return Opaque('skel')

    def expr_Constant(self, e, fr):
        return e.value

    def expr_Name(self, e, fr):
        n = e.id
        if n in fr.env:
            v = fr.env[n]
            if v is PREFIX_LOCAL:
                # block contract: the name is assigned by the dropped (unverified) prefix and the assumed mid-condition says nothing
                # about it -- the suffix cannot be executed (not a NameError of the code)
                raise Unsupported(f'block contract: `{n}` is defined in the unverified prefix and not described by the mid-condition')
            return v
        return self.global_name(n, fr)

    def global_name(self, n, fr):
        mod = fr.mod
        if n in mod.functions:
            return RepoFuncRef(mod.functions[n].qualname)
        if n in mod.classes:
            return RepoClassRef(mod.classes[n].qualname)
        if n in mod.imports:
            imp = mod.imports[n]
            if imp[0] == 'ext':
                return ExtRef(imp[1])
            if imp[0] == 'repo_mod':
                return RepoModuleRef(imp[1])
            if imp[0] == 'repo_obj':
                return self.repo_attr(imp[1], imp[2])
        if n in mod.assigns:
            if n == 'logger':
                return SOpaqueObj('logger')
            return self.module_constant(mod, n)
        if n in EXC_CLASSES:
            return BuiltinRef(n)
        if n in BUILTINS:
            return BuiltinRef(n)
        raise PyRaise('NameError', n)

    def module_constant(self, mod, n):
        mc = getattr(self.reg, 'module_constants', {})
        key = f'{mod.name}.{n}'
        gl = self.ctx.ghost.get('globals')
        if gl is not None and key in gl:
            return gl[key]           # a mutable module attribute modelled by the contract (ghost store of module state)
        if key in mc:
            src_expected, value = mc[key]
            # a modelled module constant is pinned by its source text
            if ast.dump(mod.assigns[n]) != ast.dump(ast.parse(src_expected, mode='eval').body):
                raise HardUnsupported(f'module constant {key} changed: its model no longer applies')
            return value() if callable(value) else value
        try:
            return ast.literal_eval(mod.assigns[n])
        except Exception:
            raise Unsupported(f'module-level name {mod.name}.{n}')

    def repo_attr(self, modname, name):
        mi = source.load_module(modname)
        if name in mi.functions:
            return RepoFuncRef(mi.functions[name].qualname)
        if name in mi.classes:
            return RepoClassRef(mi.classes[name].qualname)
        if name in mi.imports:
            imp = mi.imports[name]
            if imp[0] == 'ext':
                return ExtRef(imp[1])
            if imp[0] == 'repo_mod':
                return RepoModuleRef(imp[1])
            return self.repo_attr(imp[1], imp[2])
        if name in mi.assigns:
            return self.module_constant(mi, name)
        raise PyRaise('AttributeError', f'{modname}.{name}')

    def expr_Attribute(self, e, fr):
        obj = self.eval(e.value, fr)
        return self.getattr(obj, e.attr, fr)

    def getattr(self, obj, name, fr=None):
        if self.skeleton and isinstance(obj, Opaque):
            return Opaque('skel')
        if isinstance(obj, ExtRef):
            d = obj.dotted + '.' + name
            if d in self.ext_values:
                return self.ext_values[d]
            return ExtRef(d)
        if isinstance(obj, RepoModuleRef):
            return self.repo_attr(obj.modname, name)
        if isinstance(obj, Model):
            return obj.sym_getattr(self.ctx, name) if not hasattr(obj, 'interp_getattr') \
                else obj.interp_getattr(self, name)
        if isinstance(obj, (list, dict, str, tuple)) and is_concrete(obj) or isinstance(obj, (list, dict)):
            return PyMethod(obj, name)
        raise Unsupported(f'attribute {name} of {obj!r}')

    def expr_Subscript(self, e, fr):
        obj = self.eval(e.value, fr)
        idx = self.eval_index(e.slice, fr)
        return self.getitem(obj, idx)

    def eval_index(self, sl, fr):
        if isinstance(sl, ast.Slice):
            return slice(self.eval(sl.lower, fr) if sl.lower else None,
                         self.eval(sl.upper, fr) if sl.upper else None,
                         self.eval(sl.step, fr) if sl.step else None)
        if isinstance(sl, ast.Tuple):
            return tuple(self.eval_index(x, fr) for x in sl.elts)
        return self.eval(sl, fr)

    def getitem(self, obj, idx):
        if self.skeleton and isinstance(obj, Opaque):
            return Opaque('skel')
        if isinstance(obj, Model):
            return obj.sym_getitem(self.ctx, idx)
        if isinstance(obj, dict):
            if is_concrete(idx):
                if idx not in obj:
                    raise PyRaise('KeyError', str(idx))
                return obj[idx]
            raise Unsupported('dict lookup with symbolic key')
        if isinstance(obj, (list, tuple, str)):
            if isinstance(idx, int) and not isinstance(idx, bool):
                if not -len(obj) <= idx < len(obj):
                    raise PyRaise('IndexError')
                return obj[idx]
            if isinstance(idx, slice) and is_concrete([idx.start, idx.stop, idx.step]):
                return obj[idx]
            if isinstance(idx, SInt) and isinstance(obj, (list, tuple)) and len(obj) > 0:
                # concrete-shape list, symbolic index: case split via ite (elements must be mergeable)
                j = idx.t
                n = len(obj)
                self.ctx.safe('index', z3.And(j >= -n, j < n), exc='IndexError')
                jj = z3.If(j < 0, j + n, j)
                out = obj[n - 1]
                for k in range(n - 2, -1, -1):
                    out = ite_val(jj == k, obj[k], out)
                return out
            raise Unsupported(f'index {idx!r} into concrete sequence')
        raise Unsupported(f'getitem on {obj!r}')

    def expr_Tuple(self, e, fr):
        return tuple(self.eval(x, fr) for x in e.elts)

    def expr_List(self, e, fr):
        return [self.eval(x, fr) for x in e.elts]

    def expr_Dict(self, e, fr):
        out = {}
        for k, v in zip(e.keys, e.values):
            if k is None:
                d = self.eval(v, fr)
                if not isinstance(d, dict):
                    raise Unsupported('** of non-dict')
                out.update(d)
            else:
                kk = self.eval(k, fr)
                if not is_concrete(kk):
                    raise Unsupported('symbolic dict key')
                out[kk] = self.eval(v, fr)
        return out

    def expr_JoinedStr(self, e, fr):
        r = self._joinedstr(e, fr)
        if isinstance(r, Opaque) and r.what == 'fstring':
            first = next((p.value for p in e.values if isinstance(p, ast.Constant)), '')
            return Opaque('fstring:' + str(first)[:40])
        return r

    def _joinedstr(self, e, fr):
        parts = []
        for p in e.values:
            if isinstance(p, ast.Constant):
                parts.append(p.value)
            elif isinstance(p, ast.FormattedValue):
                spec = None
                if p.format_spec is not None:
                    if len(p.format_spec.values) == 1 and isinstance(p.format_spec.values[0], ast.Constant):
                        spec = p.format_spec.values[0].value
                    else:
                        self.dropped.opaque_fstrings += 1
                        return Opaque('fstring')
                try:
                    v = self.eval(p.value, fr)
                except Unsupported:
                    self.dropped.opaque_fstrings += 1
                    return Opaque('fstring')
                if spec == '03' and is_intlike(v) and p.conversion == -1:
                    if isinstance(v, Sym):
                        self.ctx.definitions.append(reveal_fmt03(to_int_term(v)))
                    parts.append(SStr(fmt03(to_int_term(v))) if isinstance(v, Sym) else format(int(v), '03'))
                elif spec is None and isinstance(v, (str, SStr)) and p.conversion == -1:
                    parts.append(v)
                else:
                    self.dropped.opaque_fstrings += 1
                    return Opaque('fstring')
        if all(isinstance(p, str) for p in parts):
            return ''.join(parts)
        t = z3.Concat(*[str_term(p) for p in parts]) if len(parts) > 1 else str_term(parts[0])
        return SStr(t)

    def expr_UnaryOp(self, e, fr):
        v = self.eval(e.operand, fr)
        op = type(e.op).__name__
        if op == 'Not':
            t = self.truth_term(v)
            return (not t) if isinstance(t, bool) else SBool(z3.Not(t))
        if isinstance(v, Model):
            return v.sym_unary(self.ctx, op)
        if is_concrete(v):
            return {'USub': lambda x: -x, 'UAdd': lambda x: +x, 'Invert': lambda x: ~x}[op](v)
        if op == 'USub':
            if isinstance(v, SInt):
                return SInt(-v.t, v.ty)
            if isinstance(v, SFloat):
                return SFloat(-v.v, v.nan, v.ty)
        if op == 'Invert' and isinstance(v, SBool) and v.ty == 'npbool':
            return SBool(z3.Not(v.t), 'npbool')
        raise Unsupported(f'unary {op} on {v!r}')

    def expr_BoolOp(self, e, fr):
        # Python semantics: short-circuit, value of the deciding operand.  We support boolean-valued use.
        is_and = isinstance(e.op, ast.And)
        acc = None
        for i, sub in enumerate(e.values):
            v = self.eval(sub, fr)
            last = i == len(e.values) - 1
            if last:
                if acc is None:
                    return v
                t = self.truth_term(v)
                return self._mk_bool(z3.And(acc, _bt(t)) if is_and else z3.Or(acc, _bt(t)))
            t = self.truth_term(v)
            if isinstance(t, bool):
                if is_and and not t:
                    return v if acc is None else self._mk_bool(z3.And(acc, z3.BoolVal(False)))
                if (not is_and) and t:
                    return v if acc is None else self._mk_bool(z3.Or(acc, z3.BoolVal(True)))
                continue
            # symbolic operand: later operands are evaluated only if this one does not decide -> branch to
            # preserve evaluation order (later operands may be partial operations)
            if self._pure_expr(e.values[i + 1:]):
                acc = t if acc is None else (z3.And(acc, t) if is_and else z3.Or(acc, t))
            else:
                d = self.ctx.branch(t)
                if is_and and not d:
                    return False
                if (not is_and) and d:
                    return True
        return acc

    def _mk_bool(self, t):
        t = z3.simplify(t)
        if z3.is_true(t):
            return True
        if z3.is_false(t):
            return False
        return SBool(t)

    def _pure_expr(self, nodes) -> bool:
        """True if evaluating the expressions cannot raise / have effects in our models (names, constants,
        comparisons, arithmetic without division, method calls count/len)."""
        for n in nodes:
            for sub in ast.walk(n):
                if isinstance(sub, (ast.Subscript, ast.Div, ast.FloorDiv, ast.Mod, ast.Await, ast.Yield,
                                    ast.NamedExpr)):
                    return False
                if isinstance(sub, ast.Call):
                    f = sub.func
                    ok = (isinstance(f, ast.Attribute) and f.attr in ('count', 'any', 'all')) or \
                         (isinstance(f, ast.Name) and f.id in ('len', 'isinstance'))
                    if not ok:
                        return False
        return True

    def expr_IfExp(self, e, fr):
        if self.truth(self.eval(e.test, fr)):
            return self.eval(e.body, fr)
        return self.eval(e.orelse, fr)

    def expr_NamedExpr(self, e, fr):
        v = self.eval(e.value, fr)
        self.assign(e.target, v, fr)
        return v

    def expr_BinOp(self, e, fr):
        a = self.eval(e.left, fr)
        b = self.eval(e.right, fr)
        return self.binop(type(e.op).__name__, a, b)

    def expr_Compare(self, e, fr):
        left = self.eval(e.left, fr)
        acc = None
        for op, rhs_node in zip(e.ops, e.comparators):
            right = self.eval(rhs_node, fr)
            r = self.compare(type(op).__name__, left, right)
            if acc is None:
                acc = r
            else:
                ta, tb = self.truth_term(acc), self.truth_term(r)
                acc = self._mk_bool(z3.And(_bt(ta), _bt(tb)))
            left = right
        return acc

    def expr_Yield(self, e, fr):
        """`yield` of a contextlib.contextmanager generator: the with-body runs here.  It may change every ghost
        location arbitrarily (havoc) and may raise (the exception is re-raised at the yield)."""
        if 'contextlib.contextmanager' not in fr.fi.decorators:
            raise Unsupported('yield outside a contextmanager generator')
        from .lib import RngState, rng_now
        rng_now(self.ctx)
        self.ctx.ghost['RNG'] = fresh('RNG_after_body', RngState)
        how = self.ctx.choose('with-body', ['returns', 'raises', 'raises-non-Exception'])
        if how != 'returns':
            # the body may raise anything: an ordinary Exception, or a BaseException that is not one (KeyboardInterrupt, SystemExit, ...)
            self.ctx.ghost['body_raises'] = True
            self.ctx.ghost['body_exc_is_Exception'] = (how == 'raises')
            raise PyRaise('BodyException', 'raised by the body of the with statement')
        self.ctx.ghost['body_raises'] = False
        return None

    def expr_Lambda(self, e, fr):
        return LambdaVal(e, fr)

    def expr_ListComp(self, e, fr):
        if len(e.generators) != 1 or e.generators[0].is_async:
            raise Unsupported('nested comprehension')
        g = e.generators[0]
        seq = self.as_iterable(self.eval(g.iter, fr))
        if seq[0] != 'concrete':
            raise Unsupported('list comprehension over a symbolic-length sequence')
        out = []
        saved = dict(fr.env)
        for x in seq[1]:
            self.assign(g.target, x, fr)
            if all(self.truth(self.eval(c, fr)) for c in g.ifs):
                out.append(self.eval(e.elt, fr))
        # comprehension variables do not leak
        for t in ast.walk(g.target):
            if isinstance(t, ast.Name):
                if t.id in saved:
                    fr.env[t.id] = saved[t.id]
                else:
                    fr.env.pop(t.id, None)
        return out

    # ---- truth / iteration --------------------------------------------------------------------
    def truth_term(self, v):
        """-> Python bool or z3 Bool"""
        if isinstance(v, bool):
            return v
        if v is None:
            return False
        if isinstance(v, Model):
            r = v.sym_truth(self.ctx)
            return self.truth_term(r)
        if isinstance(v, Sym):
            if isinstance(v, SStr):
                return z3.Length(v.t) > 0
            return to_bool_term(v)
        if isinstance(v, Opaque):
            if self.skeleton:
                return self.ctx.choose('opaque-condition', [True, False])
            raise Unsupported('truth of opaque value')
        if isinstance(v, (int, float, str, list, tuple, dict)):
            return bool(v)
        import numpy as np
        if isinstance(v, (np.bool_, np.integer, np.floating)):
            return bool(v)
        raise Unsupported(f'truth of {v!r}')

    def truth(self, v) -> bool:
        t = self.truth_term(v)
        if isinstance(t, bool):
            return t
        return self.ctx.branch(t)

    def as_iterable(self, it):
        if isinstance(it, (list, tuple)):
            return ('concrete', list(it))
        if isinstance(it, range):
            return ('concrete', list(it))
        if isinstance(it, dict):
            return ('concrete', list(it.keys()))
        if isinstance(it, Model):
            return it.sym_iter(self.ctx)
        raise Unsupported(f'iteration over {it!r}')

    # ---- operators ------------------------------------------------------------------------------
    def binop(self, op, a, b):
        if isinstance(a, Model):
            return a.sym_binop(self.ctx, op, b, False)
        if isinstance(b, Model):
            return b.sym_binop(self.ctx, op, a, True)
        if isinstance(a, Opaque) or isinstance(b, Opaque):
            return Opaque('binop')
        if is_concrete(a) and is_concrete(b):
            return self.concrete_binop(op, a, b)
        # strings
        if op == 'Add' and isinstance(a, (SStr, str)) and isinstance(b, (SStr, str)):
            return SStr(z3.Concat(str_term(a), str_term(b)))
        if op == 'Add' and (a is None or b is None):
            raise PyRaise('TypeError', 'None + ...')
        if op == 'Add' and isinstance(a, list) and isinstance(b, list):
            return a + b
        if not (is_numlike(a) and is_numlike(b)):
            raise Unsupported(f'binop {op} on {a!r}, {b!r}')
        return num_binop(self.ctx, op, a, b)

    def concrete_binop(self, op, a, b):
        import operator as o
        f = {'Add': o.add, 'Sub': o.sub, 'Mult': o.mul, 'Div': o.truediv, 'FloorDiv': o.floordiv, 'Mod': o.mod,
             'Pow': o.pow, 'BitAnd': o.and_, 'BitOr': o.or_}.get(op)
        if f is None:
            raise Unsupported(f'binop {op}')
        try:
            return f(a, b)
        except ZeroDivisionError:
            raise PyRaise('ZeroDivisionError')
        except TypeError:
            raise PyRaise('TypeError')

    def compare(self, op, a, b):
        if op in ('Is', 'IsNot'):
            if a is None or b is None or isinstance(a, bool) or isinstance(b, bool):
                other = b if a is None or isinstance(a, bool) and not isinstance(b, bool) else a
                const = a if other is b else b
                if isinstance(other, (Sym, Model)):
                    same = False      # a symbolic scalar / model object is never None / True / False *object*
                    if isinstance(other, SBool) and other.ty == 'bool' and isinstance(const, bool):
                        t = other.t if const else z3.Not(other.t)
                        return SBool(t if op == 'Is' else z3.Not(t))
                else:
                    same = other is const
                return same if op == 'Is' else not same
            raise Unsupported('is-comparison of non-singletons')
        if op in ('In', 'NotIn'):
            r = self.contains(b, a)
            if op == 'In':
                return r
            t = self.truth_term(r)
            return (not t) if isinstance(t, bool) else SBool(z3.Not(t))
        if self.skeleton and (isinstance(a, Opaque) or isinstance(b, Opaque)):
            return Opaque('skel')
        if isinstance(a, Model):
            return a.sym_compare(self.ctx, op, b, False)
        if isinstance(b, Model):
            return b.sym_compare(self.ctx, _FLIP[op], a, False)
        if is_concrete(a) and is_concrete(b):
            import operator as o
            try:
                return {'Eq': o.eq, 'NotEq': o.ne, 'Lt': o.lt, 'LtE': o.le, 'Gt': o.gt, 'GtE': o.ge}[op](a, b)
            except TypeError:
                raise PyRaise('TypeError')
        if isinstance(a, (SStr, str)) and isinstance(b, (SStr, str)) and op in ('Eq', 'NotEq'):
            t = str_term(a) == str_term(b)
            return SBool(t if op == 'Eq' else z3.Not(t))
        if (isinstance(a, (SStr, str)) != isinstance(b, (SStr, str))) and op in ('Eq', 'NotEq'):
            return op == 'NotEq'
        if (a is None or b is None) and op in ('Eq', 'NotEq'):
            return op == 'NotEq'
        if isinstance(a, list) or isinstance(b, list):
            if op in ('Eq', 'NotEq') and isinstance(a, list) and isinstance(b, list):
                if len(a) != len(b):
                    return op == 'NotEq'
                ts = [self.truth_term(self.compare('Eq', x, y)) for x, y in zip(a, b)]
                t = z3.And(*[_bt(x) for x in ts]) if ts else z3.BoolVal(True)
                return self._mk_bool(t if op == 'Eq' else z3.Not(t))
            raise Unsupported('list comparison')
        if not (is_numlike(a) and is_numlike(b)):
            raise Unsupported(f'compare {op} on {a!r}, {b!r}')
        return num_compare(op, a, b)

    def contains(self, container, x):
        if isinstance(container, Model):
            m = getattr(container, 'sym_contains', None)
            if m is None:
                raise Unsupported(f'in {type(container).__name__}')
            return m(self.ctx, x)
        if isinstance(container, (list, tuple)):
            if is_concrete(x) and is_concrete(container):
                return x in container
            ts = [self.truth_term(self.compare('Eq', x, c)) for c in container]
            return self._mk_bool(z3.Or(*[_bt(t) for t in ts]) if ts else z3.BoolVal(False))
        if isinstance(container, dict):
            if is_concrete(x):
                return x in container
            raise Unsupported('symbolic key membership')
        if isinstance(container, DictKeys):
            return self.contains(container.d, x)
        raise Unsupported(f'membership in {container!r}')

    # ---- calls ----------------------------------------------------------------------------------
    def expr_Call(self, e, fr):
        if self._is_logger_call(e):
            self.dropped.log_calls += 1
            return None
        fn = self.eval(e.func, fr)
        args = []
        pins = getattr(getattr(fr, 'contract', None), 'arg_pins', None) or {}
        callee_name = e.func.attr if isinstance(e.func, ast.Attribute) else (e.func.id if isinstance(e.func, ast.Name) else None)
        for k_arg, a in enumerate(e.args):
            pin = pins.get((callee_name, k_arg))
            if pin is not None:
                # assumed contract on one argument expression, pinned by its exact AST (see stmt_Assign / expr_contracts)
                want = ast.dump(ast.parse(pin['source'].strip(), mode='eval').body)
                if ast.dump(a) != want:
                    raise HardUnsupported(f'pinned argument {k_arg} of {callee_name}() changed: the assumed contract "{pin["doc"]}" no longer applies')
                self.ctx.used_expr_contracts.add(f'{fr.fi.qualname}: argument {k_arg} of {callee_name}() = {" ".join(pin["source"].split())}  ==>  {pin["doc"]}')
                args.append(pin['value'](self, fr))
                continue
            if isinstance(a, ast.Starred):
                v = self.eval(a.value, fr)
                if not isinstance(v, (list, tuple)):
                    raise Unsupported('* of non-sequence')
                args.extend(v)
            else:
                args.append(self.eval(a, fr))
        kwargs = {}
        for k in e.keywords:
            if k.arg is None:
                d = self.eval(k.value, fr)
                if not isinstance(d, dict):
                    if self.skeleton:
                        continue          # opaque keyword dictionary: the keywords are unknown, the call itself is still made
                    raise Unsupported('** of non-dict')
                kwargs.update(d)
            else:
                kwargs[k.arg] = self.eval(k.value, fr)
        return self.call(fn, args, kwargs, fr, e)

    def call(self, fn, args, kwargs, fr=None, node=None):
        if self.skeleton and isinstance(fn, Opaque):
            return Opaque('skel')          # method of an untracked local object: pure by A-LIBPURE
        if self.skeleton and isinstance(fn, ExtRef) and self.lib.get(fn.dotted) is None:
            from .frames import EXT, PURE_PREFIXES
            if fn.dotted in EXT and (EXT[fn.dotted].get('writes') or EXT[fn.dotted].get('mut_args')):
                raise HardUnsupported(f'external call {fn.dotted} has effects')
            if fn.dotted.startswith(PURE_PREFIXES) or fn.dotted in EXT:
                return Opaque('skel')
            raise HardUnsupported(f'external call {fn.dotted}: effect unknown')
        if isinstance(fn, BoundModelMethod):
            return fn(self.ctx, args, kwargs)
        if isinstance(fn, PyMethod):
            return fn.call(self, args, kwargs)
        if isinstance(fn, BuiltinRef):
            return self.call_builtin(fn.name, args, kwargs, fr)
        if isinstance(fn, ExtRef):
            m = self.lib.get(fn.dotted)
            if m is None:
                raise Unsupported(f'external call {fn.dotted} has no library contract')
            try:
                return m(self, args, kwargs)
            except (TypeError, ValueError, KeyError, AttributeError) as e:
                # the call shape is outside what the assumed contract covers
                raise Unsupported(f'external call {fn.dotted}: call shape not covered by its library contract ({type(e).__name__}: {e})')
        if isinstance(fn, RepoFuncRef):
            return self.call_repo(fn, args, kwargs, fr, node)
        if isinstance(fn, LambdaVal):
            return fn.call(self, args, kwargs)
        if isinstance(fn, Model):
            return fn.sym_call(self.ctx, args, kwargs)
        if isinstance(fn, RepoClassRef):
            raise Unsupported(f'instantiation of {fn.qualname}')
        raise Unsupported(f'call of {fn!r}')

    def call_repo(self, ref: RepoFuncRef, args, kwargs, fr, node):
        fi = source.find_function(ref.qualname)
        con = self.reg.get(ref.qualname)
        if ref.bound_self is not None:
            args = [ref.bound_self] + list(args)
        if con is not None and con.inline:
            env = self.bind_args(fi, args, kwargs)
            return self.run_function(fi, env, con)
        if con is None and self.skeleton:
            from contracts.frames_spec import analysis
            an, _ = analysis()
            s_ = an.summaries.get(ref.qualname)
            harmless = {'ghost:LOG', 'ghost:WARN'}
            if s_ is not None and not s_.unknown and all(w in harmless or (w.startswith('param:') and not w.startswith('param:self'))
                                                         for w in s_.writes):
                # frame contract of the callee (proved by the frame back end): it writes nothing of the chunk -> opaque result.
                # A refusal by such a helper needs parameters outside their documented meaning (assumption A-PRMS).
                self.ctx.used_frame_contracts.add(ref.qualname)
                return Opaque('skel')
            raise HardUnsupported(f'call of {ref.qualname}: callee writes tracked state and has no typestate contract')
        if con is None:
            raise Unsupported(f'call of {ref.qualname}: callee has no contract')
        # modular: callee replaced by its contract
        caller = fr.fi.qualname if fr is not None else '?'
        k = 0
        if fr is not None:
            k = fr.call_ordinals.get(ref.qualname, 0)
            fr.call_ordinals[ref.qualname] = k + 1
        env = self.bind_args(fi, args, kwargs)
        return con.apply_modular(self, env, site=f'{short(ref.qualname)}#{k}')

    def call_builtin(self, name, args, kwargs, fr):
        ctx = self.ctx
        if name == 'len':
            (x,) = args
            if isinstance(x, Model):
                return x.sym_len(ctx)
            if isinstance(x, (list, tuple, dict, str)):
                return len(x)
            if isinstance(x, SStr):
                return SInt(z3.Length(x.t))
            raise Unsupported(f'len of {x!r}')
        if name == 'isinstance':
            x, cls = args
            return self.isinstance_(x, cls)
        if name == 'int':
            (x,) = args
            if isinstance(x, Model) and hasattr(x, 'to_python_int'):
                return x.to_python_int(ctx)
            if is_concrete(x):
                try:
                    return int(x)
                except (ValueError, OverflowError):
                    raise PyRaise('ValueError')
            if isinstance(x, SInt):
                return SInt(x.t, 'int')
            if isinstance(x, SBool):
                return SInt(to_int_term(x), 'int')
            if isinstance(x, SFloat):
                ctx.safe('int_of_nan', z3.Not(x.nan), exc='ValueError')
                # int() truncates toward zero
                t = z3.If(x.v >= 0, real_floor(x.v), real_ceil(x.v))
                return SInt(t, 'int')
            raise Unsupported(f'int({x!r})')
        if name == 'float':
            (x,) = args
            if is_concrete(x):
                return float(x)
            if isinstance(x, SFloat):
                return SFloat(x.v, x.nan, 'float')
            if is_intlike(x):
                return SFloat(z3.ToReal(to_int_term(x)), False, 'float')
            raise Unsupported(f'float({x!r})')
        if name == 'bool':
            (x,) = args
            t = self.truth_term(x)
            return t if isinstance(t, bool) else SBool(t)
        if name == 'str':
            (x,) = args
            if isinstance(x, str):
                return x
            if is_concrete(x):
                return str(x)
            return Opaque('str()')
        if name == 'range':
            if all(isinstance(a, int) for a in args):
                return range(*args)
            return SRange(self, args)
        if name in ('enumerate', 'list', 'reversed', 'sorted') and args and isinstance(args[0], OpaqueSeq):
            return OpaqueSeq(args[0].nonempty)
        if name == 'enumerate':
            (x,) = args
            if isinstance(x, (list, tuple)):
                return [(i, v) for i, v in enumerate(x)]
            if isinstance(x, Model) and hasattr(x, 'items') and isinstance(getattr(x, 'items'), list):
                return [(i, v) for i, v in enumerate(x.items)]      # array of concrete length: iteration over its elements
            if isinstance(x, Model):
                kind, n, getter = x.sym_iter(ctx)
                return SEnum(n, getter)
            raise Unsupported('enumerate')
        if name == 'list':
            if not args:
                return []
            (x,) = args
            if isinstance(x, (list, tuple, range)):
                return list(x)
            if isinstance(x, Model) and hasattr(x, 'to_pylist'):
                return x.to_pylist(ctx)
            raise Unsupported(f'list({x!r})')
        if name == 'getattr':
            obj, nm = args[0], args[1]
            if not isinstance(nm, str):
                raise Unsupported('getattr with symbolic name')
            return self.getattr(obj, nm, fr)
        if name == 'setattr':
            obj, nm, val = args
            if not isinstance(nm, str) or not isinstance(obj, Model):
                raise Unsupported('setattr with symbolic name')
            obj.sym_setattr(ctx, nm, val)
            return None
        if name in ('max', 'min'):
            xs = args[0] if len(args) == 1 else args
            if isinstance(xs, (list, tuple)) and xs:
                if is_concrete(xs):
                    return (max if name == 'max' else min)(xs)
                out = xs[0]
                for y in xs[1:]:
                    c = self.truth_term(self.compare('Gt' if name == 'max' else 'Lt', y, out))
                    out = ite_val(c, y, out)
                return out
            raise Unsupported(f'{name} of {xs!r}')
        if name == 'abs':
            (x,) = args
            if is_concrete(x):
                return abs(x)
            if isinstance(x, SInt):
                return SInt(z3.If(x.t >= 0, x.t, -x.t), x.ty)
            if isinstance(x, SFloat):
                return SFloat(z3.If(x.v >= 0, x.v, -x.v), x.nan, x.ty)
        if name == 'type':
            return Opaque('type()')
        if name == 'set':
            (x,) = args
            if isinstance(x, (list, tuple)) and is_concrete(x):
                return PySet(x)
        if name == 'zip' and all(isinstance(a, (list, tuple)) for a in args):
            return list(zip(*args))
        if name == 'dict' and not args:
            return dict(kwargs)
        raise Unsupported(f'builtin {name}({args!r})')

    def isinstance_(self, x, cls):
        names = []
        for c in (cls if isinstance(cls, tuple) else (cls,)):
            if isinstance(c, BuiltinRef):
                names.append(c.name)
            elif isinstance(c, ExtRef):
                names.append(c.dotted)
            elif isinstance(c, RepoClassRef):
                names.append(c.qualname)
            else:
                raise Unsupported(f'isinstance against {c!r}')
        if isinstance(x, Model) and hasattr(x, 'sym_isinstance'):
            return x.sym_isinstance(self.ctx, names)
        tag = pytype_tag(x) if not isinstance(x, Model) else getattr(x, 'pytype', type(x).__name__)
        table = {
            'int': {'int', 'bool'}, 'float': {'float', 'npfloat'}, 'bool': {'bool'}, 'str': {'str'},
            'dict': {'dict'}, 'list': {'list', 'SList'}, 'tuple': {'tuple'},
            'pandas.DataFrame': {'DataFrame'}, 'numpy.ndarray': {'ndarray'}, 'pathlib.Path': {'Path'},
        }
        res = False
        for n in names:
            if n not in table:
                raise Unsupported(f'isinstance(..., {n})')
            if tag in table[n]:
                res = True
        known = set().union(*table.values()) | {'npint', 'npbool', 'none', 'Opaque'}
        if tag not in known:
            raise Unsupported(f'isinstance on value with tag {tag}')
        return res


def _fresh_like(n, name, c):
    from .pandas_model import fresh_column
    return fresh_column(n, name, c.dtype if c.dtype != 'unset' else 'unset', getattr(c, 'ty', None), with_defd=True)


_FLIP = {'Eq': 'Eq', 'NotEq': 'NotEq', 'Lt': 'Gt', 'LtE': 'GtE', 'Gt': 'Lt', 'GtE': 'LtE'}


def _bt(t):
    return z3.BoolVal(t) if isinstance(t, bool) else t


def short(qualname):
    return qualname.replace('ampycloud.', '', 1)


def _as_load(node):
    import copy
    n = copy.deepcopy(node)
    for sub in ast.walk(n):
        if hasattr(sub, 'ctx'):
            sub.ctx = ast.Load()
    return n


def _local_only(stmts) -> bool:
    """statements that only (aug-)assign local names from call-free expressions (or pass)"""
    for st in stmts:
        if isinstance(st, ast.Pass):
            continue
        if isinstance(st, (ast.Assign, ast.AugAssign)):
            tg = st.targets if isinstance(st, ast.Assign) else [st.target]
            if not all(isinstance(t, ast.Name) for t in tg):
                return False
            if any(isinstance(n, (ast.Call, ast.Yield, ast.Await, ast.NamedExpr)) for n in ast.walk(st.value)):
                return False
            continue
        return False
    return True


def _modified_names(body) -> set:
    """syntactic over-approximation of the local names a loop body may modify (assigned, aug-assigned,
    subscript/attribute-assigned roots, receivers of expression-statement method calls)."""
    out = set()
    for stmt in body:
        for n in ast.walk(stmt):
            if isinstance(n, (ast.Assign, ast.AugAssign, ast.AnnAssign)):
                targets = n.targets if isinstance(n, ast.Assign) else [n.target]
                for t in targets:
                    for sub in ast.walk(t):
                        if isinstance(sub, ast.Name):
                            out.add(sub.id)
            elif isinstance(n, ast.NamedExpr):
                out.add(n.target.id)
            elif isinstance(n, ast.For):
                for sub in ast.walk(n.target):
                    if isinstance(sub, ast.Name):
                        out.add(sub.id)
            elif isinstance(n, ast.Expr) and isinstance(n.value, ast.Call) and isinstance(n.value.func, ast.Attribute):
                r = n.value.func.value
                while isinstance(r, (ast.Attribute, ast.Subscript)):
                    r = r.value
                if isinstance(r, ast.Name) and r.id != 'logger':
                    out.add(r.id)
    return out


# ---------------------------------------------------------------------------------------------
# numeric semantics (A-REAL: floats are reals + NaN flag)
# ---------------------------------------------------------------------------------------------

def _res_ty(a, b, floaty):
    tys = {pytype_tag(a), pytype_tag(b)}
    if floaty:
        return 'npfloat' if tys & {'npfloat', 'npint', 'npbool'} else 'float'
    return 'npint' if tys & {'npint', 'npbool'} else 'int'


def num_binop(ctx, op, a, b):
    floaty = is_floatlike(a) or is_floatlike(b) or op == 'Div'
    if not floaty:
        x, y = to_int_term(a), to_int_term(b)
        ty = _res_ty(a, b, False)
        if op == 'Add':
            return SInt(x + y, ty)
        if op == 'Sub':
            return SInt(x - y, ty)
        if op == 'Mult':
            return SInt(x * y, ty)
        if op in ('FloorDiv', 'Mod'):
            ctx.safe('div', y != 0, exc='ZeroDivisionError')
            # Python floor division / modulo (sign of the divisor); z3 div/mod is Euclidean
            q = py_floordiv(x, y)
            return SInt(q if op == 'FloorDiv' else x - q * y, ty)
        raise Unsupported(f'int binop {op}')
    na, x = to_real_parts(a)
    nb, y = to_real_parts(b)
    nan = z3.Or(na, nb)
    ty = _res_ty(a, b, True)
    if op == 'Add':
        return SFloat(x + y, nan, ty)
    if op == 'Sub':
        return SFloat(x - y, nan, ty)
    if op == 'Mult':
        return SFloat(x * y, nan, ty)
    if op == 'Div':
        ctx.safe('div', z3.Or(nan, y != 0), exc='ZeroDivisionError')
        return SFloat(x / y, nan, ty)
    raise Unsupported(f'float binop {op}')


def py_floordiv(x, y):
    """Python's floor division on z3 Ints (z3's `/` on Ints is Euclidean division: remainder >= 0)."""
    q = x / y
    # Euclidean: x = q*y + r, 0 <= r < |y|.  floor(x/y) = q if y > 0 else (q if r == 0 else q - 1)... derive:
    r = x - q * y
    return z3.If(y > 0, q, z3.If(r == 0, q, q - 1))


def num_compare(op, a, b):
    import numpy as np
    # concrete infinities are supported in comparisons only
    for (u, v, flipped) in ((a, b, False), (b, a, True)):
        if isinstance(v, (float, np.floating)) and math.isinf(float(v)):
            nan_u, _ = to_real_parts(u)
            pos = float(v) > 0
            o = _FLIP[op] if flipped else op      # u <o> inf
            # u is finite-or-nan
            if o == 'Eq':
                return False
            if o == 'NotEq':
                return True
            truth = (o in ('Lt', 'LtE')) if pos else (o in ('Gt', 'GtE'))
            t = z3.simplify(z3.And(z3.Not(nan_u), z3.BoolVal(truth)))
            return True if z3.is_true(t) else False if z3.is_false(t) else SBool(t, 'npbool')
    if is_intlike(a) and is_intlike(b):
        x, y = to_int_term(a), to_int_term(b)
        nan = z3.BoolVal(False)
    else:
        na, x = to_real_parts(a)
        nb, y = to_real_parts(b)
        nan = z3.Or(na, nb)
    t = {'Eq': x == y, 'NotEq': x != y, 'Lt': x < y, 'LtE': x <= y, 'Gt': x > y, 'GtE': x >= y}[op]
    if op == 'NotEq':
        t = z3.Or(nan, t)
    else:
        t = z3.And(z3.Not(nan), t)
    tags = {pytype_tag(a), pytype_tag(b)}
    ty = 'npbool' if tags & {'npfloat', 'npint', 'npbool'} else 'bool'
    t = z3.simplify(t)
    if z3.is_true(t):
        return True
    if z3.is_false(t):
        return False
    return SBool(t, ty)


_DIGITS = [z3.StringVal(str(d)) for d in range(10)]


def _digit(d):
    out = _DIGITS[9]
    for k in range(8, -1, -1):
        out = z3.If(d == k, _DIGITS[k], out)
    return out


#: opaque symbol for Python's f'{n:03}'; its definition fmt03_def is revealed only where the digits matter
fmt03F = z3.Function('fmt03F', z3.IntSort(), z3.StringSort())


def fmt03(n):
    return fmt03F(lift(n))


def reveal_fmt03(n):
    n = lift(n)
    return fmt03F(n) == fmt03_def(n)


def fmt03_def(n):
    """Python's f'{n:03}' for an int n, as a z3 string term (exact: sign counts in the width)."""
    n = lift(n)
    three = z3.Concat(_digit(n / 100), _digit((n / 10) % 10), _digit(n % 10))
    neg = z3.If(-n <= 9, z3.Concat(z3.StringVal('-0'), z3.IntToStr(-n)), z3.Concat(z3.StringVal('-'), z3.IntToStr(-n)))
    return z3.If(z3.And(n >= 0, n <= 999), three, z3.If(n >= 1000, z3.IntToStr(n), neg))


# ---------------------------------------------------------------------------------------------
# small helper values
# ---------------------------------------------------------------------------------------------

class PyMethod:
    """method of a concrete-shape Python container (list / dict / str)"""

    def __init__(self, obj, name):
        self.obj, self.name = obj, name

    def call(self, interp, args, kwargs):
        o, n = self.obj, self.name
        if isinstance(o, dict):
            if n == 'items':
                return list(o.items())
            if n == 'keys':
                return DictKeys(o)
            if n == 'values':
                return list(o.values())
            if n == 'pop' and is_concrete(args[0]):
                if args[0] in o:
                    return o.pop(args[0])
                if len(args) > 1:
                    return args[1]
                raise PyRaise('KeyError')
            if n == 'get' and is_concrete(args[0]):
                return o.get(args[0], args[1] if len(args) > 1 else None)
        if isinstance(o, list):
            if n == 'append':
                o.append(args[0])
                return None
            if n == 'count' and is_concrete(o) and is_concrete(args[0]):
                return o.count(args[0])
            if n == 'count':
                ts = [interp.truth_term(interp.compare('Eq', x, args[0])) for x in o]
                return SInt(z3.Sum(*[z3.If(_bt(t), 1, 0) for t in ts]) if ts else 0)
        if isinstance(o, str):
            if n == 'join':
                (xs,) = args
                if isinstance(xs, list):
                    if all(isinstance(x, str) for x in xs):
                        return o.join(xs)
                    parts = []
                    for i, x in enumerate(xs):
                        if i:
                            parts.append(z3.StringVal(o))
                        parts.append(str_term(x))
                    if not parts:
                        return ''
                    return SStr(z3.Concat(*parts) if len(parts) > 1 else parts[0])
                if isinstance(xs, Model) and hasattr(xs, 'join_with'):
                    return xs.join_with(interp, o)
        raise Unsupported(f'method {type(o).__name__}.{n}')


class DictKeys:
    def __init__(self, d):
        self.d = d


class PySet(Model):
    def __init__(self, items):
        self.items = list(items)

    def m_isdisjoint(self, ctx, other):
        if isinstance(other, (list, tuple)) and is_concrete(other):
            return set(self.items).isdisjoint(other)
        raise Unsupported('set.isdisjoint symbolic')


class LambdaVal:
    def __init__(self, node, fr):
        self.node, self.fr = node, fr

    def call(self, interp, args, kwargs):
        names = [a.arg for a in self.node.args.args]
        if kwargs or len(args) != len(names):
            raise Unsupported('lambda call shape')
        sub = Frame(self.fr.fi, dict(self.fr.env))
        sub.contract = getattr(self.fr, 'contract', None)
        sub.env.update(dict(zip(names, args)))
        return interp.eval(self.node.body, sub)


class SRange(Model):
    """range(...) with symbolic bounds: iterable with symbolic length"""

    def __init__(self, interp, args):
        ts = [to_int_term(a) for a in args]
        if len(ts) == 1:
            self.lo, self.hi = z3.IntVal(0), ts[0]
        elif len(ts) == 2:
            self.lo, self.hi = ts
        else:
            raise Unsupported('range with step')

    def sym_iter(self, ctx):
        n = z3.If(self.hi > self.lo, self.hi - self.lo, 0)
        return ('seq', n, lambda i: SInt(self.lo + i))


class SEnum(Model):
    def __init__(self, n, getter):
        self.n, self.getter = n, getter

    def sym_iter(self, ctx):
        return ('seq', self.n, lambda i: (SInt(i), self.getter(i)))
