"""pyvc.smt -- obligations, discharge (z3 primary, cvc5 / z3-4.8 CLI for z3's unknowns), dual-use logic helpers.

Everything sent to a solver is quantifier-free unless a contract explicitly builds a quantifier:
universal facts are kept as Python *schemas* (callables term -> formula) and instantiated at explicit
terms (goal skolem constants + hint terms).  This is deliberate: verdicts must not flip between runs.
"""
from __future__ import annotations
import itertools
import os
import shutil
import subprocess
import tempfile
import time
from dataclasses import dataclass, field
from fractions import Fraction
from typing import Any, Callable, Optional

import z3

# ---------------------------------------------------------------------------------------------
# dual-use logic: the same clause text works on z3 terms (verification) and Python values (replay)
# ---------------------------------------------------------------------------------------------

def is_sym(x) -> bool:
    return isinstance(x, z3.ExprRef)


def _any_sym(xs) -> bool:
    return any(is_sym(x) for x in xs)


class Conj(list):
    """conjunction with quantified members: a list of goals (each proved on its own) / of assumptions (each assumed)"""

    def __bool__(self):
        return all(bool(x) for x in self)        # members raise unless they can be evaluated natively


def _is_q(x):
    return isinstance(x, (Forall, Exists, ForallKey, Sequent, Conj))


def _symbolic_q(x):
    """a quantified member that cannot be evaluated natively (symbolic bounds / bodies)"""
    if isinstance(x, (Forall, Exists)):
        return not (isinstance(x.lo, int) and isinstance(x.hi, int))
    return _is_q(x)


def And(*xs):
    xs = _flat(xs)
    if any(_symbolic_q(x) for x in xs) or (any(_is_q(x) for x in xs) and _any_sym([x for x in xs if not _is_q(x)])):
        plain = [x for x in xs if not _is_q(x)]
        out = Conj()
        if plain:
            out.append(And(*plain))
        for x in xs:
            if isinstance(x, Conj):
                out.extend(x)
            elif _is_q(x):
                out.append(x)
        return out
    if _any_sym(xs):
        return z3.And(*[_b(x) for x in xs]) if xs else z3.BoolVal(True)
    return all(xs)


def Or(*xs):
    xs = _flat(xs)
    qs = [x for x in xs if _is_q(x)]
    if qs and (any(_symbolic_q(x) for x in qs) or _any_sym([x for x in xs if not _is_q(x)])):
        plain = [x for x in xs if not _is_q(x)]
        if len(qs) != 1:
            raise TypeError('disjunction of several quantified statements is outside the contract language')
        q = qs[0]
        if isinstance(q, Forall):
            if q.arity == 2:
                return Forall(q.lo, q.hi, lambda i, k, b=q.body: Or(*plain, b(i, k)), q.name, 2)
            return Forall(q.lo, q.hi, lambda j, b=q.body: Or(*plain, b(j)), q.name)
        if isinstance(q, Exists):
            # as a goal: from the negated other disjuncts, find a witness
            return Sequent([Not(p) for p in plain], q) if plain else q
        raise TypeError(f'{type(q).__name__} inside a disjunction is outside the contract language')
    if _any_sym(xs):
        return z3.Or(*[_b(x) for x in xs]) if xs else z3.BoolVal(False)
    return any(xs)


def Not(x):
    if isinstance(x, Forall):
        return Exists(x.lo, x.hi, lambda j, b=x.body: Not(b(j)), x.name)
    if isinstance(x, Exists):
        return Forall(x.lo, x.hi, lambda j, b=x.body: Not(b(j)), x.name)
    return z3.Not(x) if is_sym(x) else (not x)


def Implies(a, b):
    if _is_q(a) and _symbolic_q(a):
        raise TypeError('a quantified premise is outside the contract language (state it as a local hypothesis of a Sequent)')
    if _is_q(b) and (_symbolic_q(b) or is_sym(a)):
        if isinstance(b, Forall):
            if b.arity == 2:
                return Forall(b.lo, b.hi, lambda i, k, bb=b.body: Implies(a, bb(i, k)), b.name, 2)
            return Forall(b.lo, b.hi, lambda j, bb=b.body: Implies(a, bb(j)), b.name)
        if isinstance(b, ForallKey):
            return ForallKey(lambda k, bb=b.body: Implies(a, bb(k)), b.name)
        if isinstance(b, Exists):
            return Sequent([a], b)
        if isinstance(b, Conj):
            return Conj([Implies(a, x) for x in b])
        if isinstance(b, Sequent):
            return Sequent([a] + list(b.hyps), b.goal, b.isolate)
    if is_sym(a) or is_sym(b):
        return z3.Implies(_b(a), _b(b))
    return (not a) or bool(b)


def Iff(a, b):
    if (_is_q(a) and _symbolic_q(a)) or (_is_q(b) and _symbolic_q(b)):
        raise TypeError('equivalence with a quantified side is outside the contract language (state the two implications)')
    if is_sym(a) or is_sym(b):
        return _b(a) == _b(b)
    return bool(a) == bool(b)


def If(c, a, b):
    if is_sym(c):
        a, b = _coerce_pair(a, b)
        return z3.If(c, a, b)
    return a if c else b


def _flat(xs):
    out = []
    for x in xs:
        if isinstance(x, (list, tuple)):
            out.extend(_flat(x))
        else:
            out.append(x)
    return out


def _b(x):
    if is_sym(x):
        return x
    return z3.BoolVal(bool(x))


def _coerce_pair(a, b):
    if is_sym(a) and not is_sym(b):
        b = lift(b, a.sort())
    elif is_sym(b) and not is_sym(a):
        a = lift(a, b.sort())
    elif is_sym(a) and is_sym(b) and a.sort() != b.sort():
        if a.sort() == z3.RealSort() and b.sort() == z3.IntSort():
            b = z3.ToReal(b)
        elif b.sort() == z3.RealSort() and a.sort() == z3.IntSort():
            a = z3.ToReal(a)
    return a, b


def lift(v, sort=None):
    """Python constant -> z3 term of the given (or natural) sort."""
    if is_sym(v):
        if sort is not None and v.sort() != sort:
            if sort == z3.RealSort() and v.sort() == z3.IntSort():
                return z3.ToReal(v)
        return v
    if isinstance(v, bool):
        return z3.BoolVal(v)
    if isinstance(v, int):
        if sort is not None and sort == z3.RealSort():
            return z3.RealVal(v)
        return z3.IntVal(v)
    if isinstance(v, float):
        fr = Fraction(v)  # exact value of the double
        return z3.RealVal(fr.numerator) / z3.RealVal(fr.denominator) if fr.denominator != 1 \
            else z3.RealVal(fr.numerator)
    if isinstance(v, Fraction):
        return z3.RealVal(v.numerator) / z3.RealVal(v.denominator)
    if isinstance(v, str):
        return z3.StringVal(v)
    raise TypeError(f'cannot lift {v!r}')


class Forall:
    """Bounded universal `for all integers j with lo <= j < hi: body(j)` -- dual use.

    natively: all(body(j) for j in range(lo, hi));  as a goal: skolemised;  as an assumption: a schema that the
    prover instantiates at explicit terms."""

    def __init__(self, lo, hi, body: Callable[..., Any], name: str = 'j', arity: int = 1, atom=None):
        """arity 2: for all lo <= i <= k < hi: body(i, k)   (ordered pairs -- what sortedness needs).
        atom: optional z3 Bool *defined* as this universal statement; it is asserted together with the schema when
        the statement is assumed, so that instances of proved lemmas can use it as a premise."""
        self.lo, self.hi, self.body, self.name, self.arity, self.atom = lo, hi, body, name, arity, atom

    def native(self) -> bool:
        if self.arity == 2:
            return all(bool(self.body(i, k)) for i in range(int(self.lo), int(self.hi)) for k in range(i, int(self.hi)))
        return all(bool(self.body(j)) for j in range(int(self.lo), int(self.hi)))

    def __bool__(self):
        """truth value: only in native (run-time) use with concrete bounds.  A quantifier object nested inside a connective of a
        symbolic formula would silently count as True -- that is a contract error, never a proof."""
        if isinstance(self.lo, int) and isinstance(self.hi, int):
            return self.native()
        raise TypeError(f'{type(self).__name__} nested inside a connective / used as a truth value: state it as a goal of its own (Sequent)')

    def inst(self, t, u=None):
        if self.arity == 2:
            return z3.Implies(z3.And(lift(self.lo) <= t, t <= u, u < lift(self.hi)), _b(self.body(t, u)))
        return z3.Implies(z3.And(lift(self.lo) <= t, t < lift(self.hi)), _b(self.body(t)))


class ForallKey:
    """Universal statement over all strings (dictionary keys): as a goal it is skolemised with a fresh string constant, as
    an assumption it is a schema instantiated at the key terms known on the path (Ctx.key_terms) and at the skolem keys of
    the goal."""
    arity = 1
    atom = None

    def __init__(self, body, name='key'):
        self.body, self.name = body, name

    def inst(self, k):
        return _b(self.body(k))

    def __bool__(self):
        raise TypeError('ForallKey nested inside a connective / used as a truth value: state it as a goal of its own')


class Sequent:
    """goal with obligation-local extra hypotheses (`reveal` of opaque definitions, instances of proved lemmas)"""

    def __init__(self, hyps, goal, isolate=False):
        """isolate=True: the goal is proved from the local hypotheses *only* (keeps hard string goals small); every
        local hypothesis that is not a LemmaInst is itself proved from the full path hypotheses as `<name>.cut<k>`."""
        self.hyps, self.goal, self.isolate = list(hyps), goal, isolate

    def __bool__(self):
        raise TypeError('Sequent used as a truth value / nested inside a connective')


class LemmaInst:
    """an instance of a lemma proved elsewhere in the same check (by name), usable as a hypothesis"""

    def __init__(self, name, formula):
        self.name, self.formula = name, formula


class Exists:
    """Bounded existential -- dual use.  As an assumption it is skolemised (fresh witness); as a goal it is
    proved by the disjunction over the candidate terms the prover knows (hint terms / witnesses on the path)."""

    def __init__(self, lo, hi, body, name='w'):
        self.lo, self.hi, self.body, self.name = lo, hi, body, name

    def native(self) -> bool:
        return any(bool(self.body(j)) for j in range(int(self.lo), int(self.hi)))

    def __bool__(self):
        """truth value: only in native (run-time) use with concrete bounds.  A quantifier object nested inside a connective of a
        symbolic formula would silently count as True -- that is a contract error, never a proof."""
        if isinstance(self.lo, int) and isinstance(self.hi, int):
            return self.native()
        raise TypeError(f'{type(self).__name__} nested inside a connective / used as a truth value: state it as a goal of its own (Sequent)')

    def at(self, t):
        return z3.And(lift(self.lo) <= t, t < lift(self.hi), _b(self.body(t)))


_fresh_counter = itertools.count()


def reset_fresh():
    global _fresh_counter
    _fresh_counter = itertools.count()


def fresh(prefix: str, sort) -> z3.ExprRef:
    return z3.Const(f'{prefix}!{next(_fresh_counter)}', sort)


def fresh_int(p='i'):
    return fresh(p, z3.IntSort())


def fresh_real(p='r'):
    return fresh(p, z3.RealSort())


def fresh_bool(p='b'):
    return fresh(p, z3.BoolSort())


# ---------------------------------------------------------------------------------------------
# obligations
# ---------------------------------------------------------------------------------------------

@dataclass
class Obligation:
    name: str                       # <module>.<func>::<kind>.<clause>
    hyps: list                      # list of z3 BoolRef (quantifier-free)
    goal: Any                       # z3 BoolRef
    expect: str = 'valid'           # 'valid' (hyps => goal must be unsat-negated) | 'sat' (cover / canary: hyps & goal sat)
    path: str = ''                  # human-readable path id (decisions taken)
    info: dict = field(default_factory=dict)   # e.g. inputs for replay: name -> z3 term
    rehyp: Any = None                # callable(extra_terms) -> hypotheses re-instantiated at more terms (small counter-models)
    len_vars: list = field(default_factory=list)   # z3 Int length variables of list / table inputs

    def formula_for_check(self, relevance=True):
        hy = list(self.hyps)
        if relevance and self.expect == 'valid' and not has_string_terms(self.goal):
            hy = [p for h in hy for p in split_conj(h)]
            # relevance filter (sound: dropping hypotheses only weakens what can be proved): a goal without string
            # terms is proved from the string-free hypotheses, which keeps the query out of the string solver
            hy = [h for h in hy if not involves_strings(h)]
        if self.expect == 'valid':
            return hy + [z3.Not(self.goal)]
        return hy + [self.goal]


def split_conj(h, depth=0):
    """split  A and B  /  P => (A and B)  into separate hypotheses (equivalent set), so that the relevance filter can
    keep the string-free conjuncts of a mixed hypothesis"""
    if isinstance(h, bool) or depth > 6:
        return [h]
    if z3.is_and(h):
        return [p for c in h.children() for p in split_conj(c, depth + 1)]
    if z3.is_implies(h):
        a, b = h.children()
        parts = split_conj(b, depth + 1)
        if len(parts) > 1:
            return [z3.Implies(a, p) for p in parts]
    return [h]


def has_string_terms(f) -> bool:
    """does the formula contain any term of string / regex sort (the test applied to *goals*: a goal that mentions strings at
    all keeps every hypothesis)"""
    if isinstance(f, bool):
        return False
    seen = set()
    stack = [f]
    while stack:
        e = stack.pop()
        i = e.get_id()
        if i in seen:
            continue
        seen.add(i)
        if e.sort().kind() in (z3.Z3_SEQ_SORT, z3.Z3_RE_SORT):
            return True
        if z3.is_app(e):
            stack.extend(e.children())
        elif z3.is_quantifier(e):
            stack.append(e.body())
    return False


def involves_strings(f) -> bool:
    """does the formula contain a heavy string operation?  (DAG traversal; no caching across calls, because z3
    AST ids are recycled after garbage collection)"""
    if isinstance(f, bool):
        return False
    k0 = f.get_id()
    hit = _str_cache.get(k0)
    if hit is not None and hit[0].eq(f):
        return hit[1]
    r = _involves_strings(f)
    if len(_str_cache) > 100000:
        _str_cache.clear()
    _str_cache[k0] = (f, r)        # the term is kept alive by the cache, so its id cannot be recycled while cached
    return r


_str_cache = {}


_HEAVY_STR_OPS = {z3.Z3_OP_SEQ_CONCAT, z3.Z3_OP_SEQ_LENGTH, z3.Z3_OP_SEQ_IN_RE, z3.Z3_OP_INT_TO_STR, z3.Z3_OP_STR_TO_INT,
                  z3.Z3_OP_SEQ_AT, z3.Z3_OP_SEQ_EXTRACT, z3.Z3_OP_SEQ_REPLACE, z3.Z3_OP_SEQ_PREFIX, z3.Z3_OP_SEQ_SUFFIX,
                  z3.Z3_OP_SEQ_CONTAINS, z3.Z3_OP_SEQ_INDEX}


def _involves_strings(f) -> bool:
    """string *operations* (concatenation, length, regex, int<->str ...); plain equalities between string constants, array
    cells and uninterpreted applications are cheap and do not count"""
    seen = set()
    stack = [f]
    while stack:
        e = stack.pop()
        i = e.get_id()
        if i in seen:
            continue
        seen.add(i)
        k = e.sort().kind()
        if k == z3.Z3_RE_SORT:
            return True
        if z3.is_app(e) and e.decl().kind() in _HEAVY_STR_OPS:
            return True
        if z3.is_app(e):
            stack.extend(e.children())
        elif z3.is_quantifier(e):
            stack.append(e.body())
    return False


@dataclass
class Verdict:
    name: str
    status: str        # 'discharged' | 'refuted' | 'unknown'   (for expect='sat': discharged means sat as expected)
    backend: str
    seconds: float
    model: Optional[dict] = None     # name -> python value / string, when a model exists
    reason: str = ''
    smt_size: int = 0
    path: str = ''
    expect: str = 'valid'


def _model_to_dict(m: z3.ModelRef, info: dict) -> dict:
    out = {}
    for k, t in (info or {}).items():
        try:
            if callable(t) and not z3.is_expr(t):
                out[k] = t(m)
                continue
            v = m.eval(t, model_completion=True)
            out[k] = z3val_to_py(v)
        except Exception as e:  # pragma: no cover
            out[k] = f'<eval error {e}>'
    return out


def z3val_to_py(v):
    if z3.is_int_value(v):
        return v.as_long()
    if z3.is_rational_value(v):
        fr = Fraction(v.numerator_as_long(), v.denominator_as_long())
        return fr
    if z3.is_algebraic_value(v):
        return float(v.approx(20).as_fraction())
    if z3.is_true(v):
        return True
    if z3.is_false(v):
        return False
    if z3.is_string_value(v):
        return v.as_string()
    return str(v)


def find_cli(name):
    return shutil.which(name)


def _cli_check(smt2: str, timeout_s: float):
    """Try the other installed solvers on an SMT-LIB2 dump. Returns (status, backend)."""
    with tempfile.NamedTemporaryFile('w', suffix='.smt2', delete=False, dir=os.environ.get('PYVC_TMP')) as f:
        f.write(smt2)
        if '(check-sat)' not in smt2:
            f.write('\n(check-sat)\n')
        fn = f.name
    try:
        for backend, cmd in (('cvc5', ['/usr/bin/cvc5', '--strings-exp', f'--tlimit={int(timeout_s*1000)}', fn]),
                             ('z3-4.8', ['/usr/bin/z3', f'-T:{int(timeout_s)+1}', fn])):
            if not os.path.exists(cmd[0]):
                continue
            try:
                r = subprocess.run(cmd, capture_output=True, text=True, timeout=timeout_s + 5)
            except subprocess.TimeoutExpired:
                continue
            out = r.stdout.strip().splitlines()
            if out and out[0] in ('sat', 'unsat'):
                return out[0], backend
        return 'unknown', 'none'
    finally:
        try:
            os.unlink(fn)
        except OSError:
            pass


def discharge(ob: Obligation, timeout_ms: int = 10000, use_cli: bool = True) -> Verdict:
    t0 = time.time()
    s = z3.Solver()
    s.set('timeout', timeout_ms)
    fs = ob.formula_for_check()
    for f in fs:
        s.add(f)
    size = len(fs)            # number of assertions in the query
    r = s.check()
    backend = 'z3'
    res = str(r)
    reason = ''
    if r == z3.unknown:
        reason = s.reason_unknown()
        if use_cli:
            res, backend2 = _cli_check(s.to_smt2(), max(5.0, timeout_ms / 1000.0))
            if res != 'unknown':
                backend = backend2
    if res == 'sat' and ob.expect == 'valid':
        full = ob.formula_for_check(relevance=False)
        if len(full) != size:
            # the counter-model was found with hypotheses dropped by the relevance filter: it proves nothing.  Decide the
            # complete query; only a model of *all* hypotheses is a refutation
            s = z3.Solver()
            s.set('timeout', timeout_ms)
            for f in full:
                s.add(f)
            size = len(full)
            r = s.check()
            res, backend = str(r), 'z3'
            if r == z3.unknown:
                reason = 'counter-model only under the relevance filter; complete query: ' + s.reason_unknown()
                if use_cli:
                    res, backend2 = _cli_check(s.to_smt2(), max(5.0, timeout_ms / 1000.0))
                    if res != 'unknown':
                        backend = backend2
    dt = time.time() - t0
    model = None
    if res == 'sat' and r == z3.sat:
        m = s.model()
        if ob.expect == 'valid' and ob.rehyp is not None and ob.len_vars:
            # prefer a small counter-model in which the universal facts hold on *every* row: bound the lengths and
            # instantiate the schemas at all concrete indices below the bound
            t_small = time.time()
            for bound in (1, 2, 3, 4, 6):
                if time.time() - t_small > 4.0:
                    break          # building the re-instantiated hypotheses is itself costly for big path conditions
                s2 = z3.Solver()
                s2.set('timeout', min(timeout_ms, 5000))
                try:
                    for f in ob.rehyp(list(range(0, bound + 1))):
                        s2.add(f)
                except Exception:
                    break
                s2.add(z3.Not(ob.goal))
                for v in ob.len_vars:
                    s2.add(v <= bound)
                if s2.check() == z3.sat:
                    m = s2.model()
                    break
        model = _model_to_dict(m, ob.info)
    if ob.expect == 'valid':
        status = {'unsat': 'discharged', 'sat': 'refuted'}.get(res, 'unknown')
    else:
        status = {'sat': 'discharged', 'unsat': 'refuted'}.get(res, 'unknown')
    return Verdict(ob.name, status, backend, dt, model, reason, size, ob.path, ob.expect)


def quick_sat(fs, timeout_ms=2000) -> str:
    s = z3.Solver()
    s.set('timeout', timeout_ms)
    for f in fs:
        s.add(f)
    return str(s.check())


discharge_with_extract = discharge


def memo1(f):
    """memoise a closure  z3 index term -> value  (closures over rows are re-evaluated at the same terms many times)"""
    cache = {}

    def g(i):
        i = lift(i)
        k = i.get_id()
        hit = cache.get(k)
        if hit is not None and hit[0].eq(i):
            return hit[1]
        v = f(i)
        cache[k] = (i, v)        # the term is kept alive, so its id cannot be recycled while cached
        return v
    return g
