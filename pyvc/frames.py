"""pyvc.frames -- frame back end (label F): modular inference and checking of read / write / alias effects.

For every function of /repo/src/ampycloud (real ASTs, re-read each run) a *summary* is inferred by a flow-insensitive
may-analysis over abstract values, callee summaries being applied at call sites (a caller never looks into a callee's
body; summaries are iterated to a fixed point over the call graph).  Frame contracts (sidecar) are then checked
against the summaries; each check is one named obligation with back end `frame`.

Abstract values (AV), X ranging over roots  param:<p> | self.<field> | global:<qualified name> :
    ('F',)        fresh object, shares nothing with a root
    ('R', X)      X itself or something reachable from X            (a write through it is a write of X)
    ('S', X)      a fresh *container* whose contents may be shared with X   (shallow copy: a top-level store is
                  private, but what is loaded from it is ('R', X))
    ('M', q)      module,  ('Fn', q) function,  ('Cls', q) class,  ('Meth', q, frozenset(AV)) bound method,
    ('Ext', dotted) external module / function
Ghost locations: ghost:RNG (global NumPy generator), ghost:RC (matplotlib rcParams), ghost:FIGS (open figures),
ghost:FS (files), ghost:WARN, ghost:LOG, ghost:CLOCK, ghost:ENV.

Soundness notes (listed as assumption A-FRAME in the evidence): may-analysis, flow-insensitive, field-sensitive only
one level below `self`; objects of library types are handled through method-name tables (mutators / pure); library
functions are effect-free on the roots unless listed; reflection is limited to getattr/setattr on self with names that
are literals or f-strings over literals (treated as any field).
"""
from __future__ import annotations
import ast
from dataclasses import dataclass, field
from typing import Optional

from . import source

F = ('F', None)
GLOBAL_PRMS = 'global:ampycloud.dynamic.AMPYCLOUD_PRMS'

# ---- external effect table ------------------------------------------------------------------------------
#: dotted name -> dict(writes=[ghost...], reads=[ghost...], ret='F'|'deep'|'shallow'|'arg0'|'view', mut_args=[idx...])
EXT = {
    'copy.deepcopy': dict(ret='deep'),
    'copy.copy': dict(ret='shallow'),
    'warnings.warn': dict(writes=['ghost:WARN']),
    'numpy.random.get_state': dict(reads=['ghost:RNG']),
    'numpy.random.set_state': dict(writes=['ghost:RNG']),
    'numpy.random.seed': dict(writes=['ghost:RNG']),
    'numpy.random.normal': dict(reads=['ghost:RNG'], writes=['ghost:RNG']),
    'numpy.random.random': dict(reads=['ghost:RNG'], writes=['ghost:RNG']),
    'numpy.random.rand': dict(reads=['ghost:RNG'], writes=['ghost:RNG']),
    'numpy.random.randn': dict(reads=['ghost:RNG'], writes=['ghost:RNG']),
    'numpy.random.randint': dict(reads=['ghost:RNG'], writes=['ghost:RNG']),
    'numpy.random.uniform': dict(reads=['ghost:RNG'], writes=['ghost:RNG']),
    'numpy.random.choice': dict(reads=['ghost:RNG'], writes=['ghost:RNG']),
    'numpy.random.shuffle': dict(reads=['ghost:RNG'], writes=['ghost:RNG'], mut_args=[0]),
    'numpy.random.permutation': dict(reads=['ghost:RNG'], writes=['ghost:RNG']),
    'numpy.random.default_rng': dict(reads=['ghost:ENV']),
    'random.random': dict(reads=['ghost:RNG2'], writes=['ghost:RNG2']),
    'random.seed': dict(writes=['ghost:RNG2']),
    'datetime.datetime.now': dict(reads=['ghost:CLOCK']),
    'time.time': dict(reads=['ghost:CLOCK']),
    'os.environ': dict(reads=['ghost:ENV']),
    'os.getenv': dict(reads=['ghost:ENV']),
    'shutil.copy': dict(writes=['ghost:FS']),
    'matplotlib.pyplot.figure': dict(writes=['ghost:FIGS']),
    'matplotlib.pyplot.close': dict(writes=['ghost:FIGS']),
    'matplotlib.pyplot.show': dict(writes=['ghost:FIGS']),
    'matplotlib.pyplot.savefig': dict(writes=['ghost:FS']),
    'matplotlib.pyplot.style.context': dict(restores=['ghost:RC']),
    # the warning filters / showwarning hook are process-wide state of the stdlib module (not thread-local in CPython <= 3.13)
    'warnings.catch_warnings': dict(restores=['ghost:WARNFILTERS']),
    'warnings.simplefilter': dict(writes=['ghost:WARNFILTERS']),
    'warnings.filterwarnings': dict(writes=['ghost:WARNFILTERS']),
    'warnings.resetwarnings': dict(writes=['ghost:WARNFILTERS']),
    'matplotlib.pyplot.style.use': dict(writes=['ghost:RC']),
    'matplotlib.pyplot.rc': dict(writes=['ghost:RC']),
    'matplotlib.pyplot.rcdefaults': dict(writes=['ghost:RC']),
    'matplotlib.rc': dict(writes=['ghost:RC']),
    'matplotlib.rcdefaults': dict(writes=['ghost:RC']),
    'matplotlib.use': dict(writes=['ghost:RC']),
    'matplotlib.style.use': dict(writes=['ghost:RC']),
    'matplotlib.rcParams': dict(ret='rc'),
    'matplotlib.pyplot.rcParams': dict(ret='rc'),
}
#: external name prefixes whose functions are effect-free on the roots and return fresh objects (A-LIBPURE)
PURE_PREFIXES = ('numpy.', 'pandas.', 'sklearn.', 'statsmodels.', 'scipy.', 'logging.', 'typing.', 'pathlib.', 'abc.',
                 'functools.', 'inspect.', 'contextlib.', 'ruamel.', 'yaml', 'matplotlib.', 'datetime.', 'argparse.',
                 'importlib.', 'warnings.', 'math.', 're.', 'itertools.', 'shutil.', 'os.', 'sys.', 'copy.', 'cycler.')
#: method names that mutate their receiver (library objects and builtin containers)
MUTATORS = {'append', 'extend', 'insert', 'pop', 'remove', 'clear', 'update', 'setdefault', 'sort', 'reverse', 'popitem',
            'add', 'discard', 'fill', 'put', 'resize', 'itemset', 'setflags', 'fit', 'partial_fit', 'set_params',
            '__setitem__', '__delitem__', 'seed', 'shuffle'}
#: pandas-style methods that mutate only with inplace=True
INPLACE_METHODS = {'drop', 'sort_values', 'reset_index', 'fillna', 'dropna', 'rename', 'replace', 'set_index', 'sort_index',
                   'drop_duplicates', 'interpolate', 'clip', 'where', 'mask', 'ffill', 'bfill', 'eval', 'query'}
#: methods returning a deep-fresh object irrespective of the receiver
FRESH_METHODS = {'astype', 'to_list', 'tolist', 'to_string', 'to_numpy_copy', 'sum', 'mean', 'std', 'min', 'max', 'any', 'all',
                 'count', 'mode', 'isna', 'notna', 'isin', 'duplicated', 'merge', 'diff', 'apply', 'unique', 'nunique', 'keys',
                 'join', 'format', 'split', 'strip', 'lower', 'upper', 'startswith', 'endswith', 'exists', 'is_dir',
                 'is_file', 'glob', 'resolve', 'isdisjoint', 'argsort', 'flatten', 'predict', 'aic', 'bic', 'total_seconds',
                 'index', 'get_loc', 'sample'}


@dataclass
class Summary:
    qualname: str
    writes: set = field(default_factory=set)     # roots / ghosts possibly written
    reads: set = field(default_factory=set)      # global roots and ghosts possibly read
    ret: set = field(default_factory=set)        # AVs the result may be
    stores: set = field(default_factory=set)     # (X, AV): X may come to contain AV
    unknown: set = field(default_factory=set)    # calls whose effect is not known (fail closed)
    calls: set = field(default_factory=set)      # repo callees
    ghost_sites: dict = field(default_factory=dict)   # ghost -> list of (lineno, how)
    flows: dict = field(default_factory=dict)    # taint label -> set of sink descriptions (C16)
    direct_reads: set = field(default_factory=set)     # reads / writes performed by the function's own body (not via callees)
    direct_writes: set = field(default_factory=set)
    param_calls: set = field(default_factory=set)      # (param name, frozenset of ghosts restored around the call): calls of a callable parameter
    cols_written: dict = field(default_factory=dict)   # root -> set of column names written through a subscript store ('*' = unknown)
    transient: set = field(default_factory=set)        # ghosts / module state changed *temporarily* inside a restoring context (visible to
    #                                                    other threads while the context is open)

    def key(self):
        return (frozenset(self.writes), frozenset(self.reads), frozenset(self.ret), frozenset(self.stores),
                frozenset(self.unknown), frozenset(self.calls), frozenset(self.param_calls),
                frozenset((k, frozenset(v)) for k, v in self.cols_written.items()), frozenset(self.transient))


def _root_of(av):
    return av[1] if av[0] in ('R', 'S') else None


class Analyzer:
    def __init__(self):
        self.summaries: dict = {}
        self.funcs: dict = {}      # qualname -> FuncInfo
        self.mutable_globals: set = set()
        for mod in source.all_modules():
            mi = source.load_module(mod)
            for fi in mi.functions.values():
                self.funcs[fi.qualname] = fi
            for ci in mi.classes.values():
                for fi in ci.methods.values():
                    self.funcs[fi.qualname] = fi
            for name, val in mi.assigns.items():
                if name == 'logger' or name.startswith('__'):
                    continue
                try:
                    v = ast.literal_eval(val)
                    if isinstance(v, (int, float, str, bool, tuple, type(None))):
                        continue
                except Exception:
                    pass
                self.mutable_globals.add(f'global:{mod}.{name}')

    # ---- fixed point over the call graph --------------------------------------------------------------
    def run(self):
        for q in self.funcs:
            self.summaries[q] = Summary(q)
        for _ in range(12):
            changed = False
            for q, fi in self.funcs.items():
                new = FuncAnalysis(self, fi).analyze()
                for d in fi.decorators:
                    if d.startswith(('log_func_call', 'wraps', 'functools.wraps')) or d in ('property', 'abstractmethod', 'staticmethod',
                                                                                          'classmethod', 'contextlib.contextmanager'):
                        continue
                    if 'lru_cache' in d or d in ('cache', 'functools.cache', 'cached_property', 'functools.cached_property'):
                        # memoised: the result object is module-level state shared by all callers
                        g = f'global:{q}#cache'
                        new.ret = {('R', g)}
                        new.writes.add(g)
                        new.reads.add(g)
                        new.direct_writes.add(g)
                        self.mutable_globals.add(g)
                    else:
                        # a repository decorator: the decorated function runs where the decorator calls its argument
                        dq = self._resolve_decorator(fi, d)
                        ds = self.summaries.get(dq) if dq else None
                        if ds is None or not ds.param_calls:
                            new.unknown.add(f'decorator {d}')
                            continue
                        masked = None
                        for (pn, mk) in ds.param_calls:
                            masked = set(mk) if masked is None else (masked & set(mk))
                        for g in (masked or ()):
                            new.writes.discard(g)
                            new.reads.discard(g)
                        new.writes |= {w for w in ds.writes if not w.startswith('param:')}
                        new.reads |= ds.reads
                        new.direct_reads |= ds.direct_reads
                        new.unknown |= ds.unknown
                if new.key() != self.summaries[q].key():
                    changed = True
                self.summaries[q] = new
            if not changed:
                break
        return self.summaries

    def _resolve_decorator(self, fi, d):
        name = d.split('(')[0]
        mi = source.load_module(fi.module)
        if name in mi.functions:
            return mi.functions[name].qualname
        if name in mi.imports and mi.imports[name][0] == 'repo_obj':
            return f'{mi.imports[name][1]}.{mi.imports[name][2]}'
        if '.' in name:
            head, attr = name.split('.', 1)
            if head in mi.imports and mi.imports[head][0] == 'repo_mod':
                return f'{mi.imports[head][1]}.{attr}'
        return None

    def method_lookup(self, cls_qual, name) -> Optional[source.FuncInfo]:
        try:
            ci = source.find_class(cls_qual)
        except Exception:
            return None
        return source.find_method(ci, name)


class FuncAnalysis:
    def __init__(self, an: Analyzer, fi: source.FuncInfo):
        self.an, self.fi = an, fi
        self.mod = source.load_module(fi.module)
        self.sum = Summary(fi.qualname)
        self.env: dict = {}
        self.contents: dict = {}          # allocation site -> AVs stored into that fresh object (may-contents)
        self.write_sites: dict = {}
        self.icontents: dict = {}         # (instance site, field) -> AVs held by that field of a fresh instance
        self.masked: list = []            # stack of ghost sets restored by enclosing context managers
        self.taint: dict = {}             # local name -> set of taint labels (C16 ceilo flow)
        a = fi.node.args
        self.params = [x.arg for x in a.posonlyargs + a.args + a.kwonlyargs]
        if a.vararg:
            self.params.append(a.vararg.arg)
        if a.kwarg:
            self.params.append(a.kwarg.arg)
        self.is_method = fi.cls is not None and self.params[:1] == ['self']
        for p in self.params:
            self.env[p] = {('R', f'param:{p}')}
        self.globals_declared = set()

    # ---- driver ---------------------------------------------------------------------------------------------
    def analyze(self) -> Summary:
        """flow-sensitive on local names (strong updates in straight-line code, joins at branches, fixed points at
        loops); heap effects are may-effects"""
        self.block(self.fi.node.body)
        return self.sum

    def block(self, stmts):
        for s in stmts:
            self.stmt(s)

    def _snapshot(self):
        return {k: set(v) for k, v in self.env.items()}, {k: set(v) for k, v in self.taint.items()}

    def _join(self, a, b):
        out = {}
        for k in set(a) | set(b):
            out[k] = set(a.get(k, set())) | set(b.get(k, set()))
        return out

    def _state_key(self):
        return (repr(sorted((k, sorted(v, key=repr)) for k, v in self.env.items())), sum(len(v) for v in self.contents.values()), self.sum.key(),
                repr(sorted((k, sorted(v)) for k, v in self.taint.items())))

    # ---- effects ----------------------------------------------------------------------------------------------
    def write(self, root, node=None, how=''):
        if not how.startswith('via '):
            self.sum.direct_writes.add(root)
        if root.startswith('ghost:'):
            for m in self.masked:
                if root in m:
                    return
        sites = self.sum.ghost_sites.setdefault(root, [])
        if len(sites) < 8 and (getattr(node, 'lineno', 0), how) not in sites:
            sites.append((getattr(node, 'lineno', 0), how))
        self.sum.writes.add(root)

    def read(self, root, node=None, how=''):
        if not how.startswith('via '):
            self.sum.direct_reads.add(root)
        if root.startswith('ghost:'):
            for m in self.masked:
                if root in m:
                    return
            self.sum.ghost_sites.setdefault(root, []).append((getattr(node, 'lineno', 0), 'read ' + how))
        self.sum.reads.add(root)

    def write_through(self, avs, node=None, how=''):
        for av in avs:
            if av[0] == 'R':
                self.write(self.norm_root(av[1]), node, how)
            elif av[0] == 'F' or av[0] == 'S':
                pass

    def norm_root(self, x):
        """param:self of a method is split per field where known; param:self itself -> self.*"""
        if x == 'param:self' and self.is_method:
            return 'self.*'
        return x

    def fresh(self, node, kind='F'):
        """a fresh object allocated at this expression"""
        site = (getattr(node, 'lineno', 0), getattr(node, 'col_offset', 0), type(node).__name__)
        return ('F', site)

    def reach_contents(self, site, seen=None):
        """root-sharing AVs transitively contained in the fresh object allocated at `site`"""
        seen = seen if seen is not None else set()
        out = set()
        if site in seen:
            return out
        seen.add(site)
        items = set(self.contents.get(site, ()))
        for (st, f2), vals in self.icontents.items():
            if st == site:
                items |= vals
        for av in items:
            if av[0] in ('R', 'S'):
                out.add(av)
            elif av[0] in ('F', 'I') and av[-1] is not None:
                out |= self.reach_contents(av[-1], seen)
        return out

    def inst_field(self, inst, fld):
        """objects held by field `fld` (may be a pattern ending in *) of a fresh instance"""
        site = inst[-1]
        out = set()
        if fld.endswith('*'):
            pre = fld[:-1]
            for (st, f2), vals in self.icontents.items():
                if st == site and f2.startswith(pre):
                    out |= vals
        else:
            out |= self.icontents.get((site, fld), set())
        return out or {F}

    def store_into(self, avs, vals, node=None):
        keep = {v for v in vals if v[0] in ('R', 'S') or (v[0] in ('F', 'I') and v[-1] is not None)}
        for av in avs:
            if av[0] == 'R':
                r = self.norm_root(av[1])
                self.write(r, node, 'store')
                for v in vals:
                    if v[0] in ('R', 'S'):
                        self.sum.stores.add((r, v))
                    elif v[0] in ('F', 'I') and v[-1] is not None:
                        for c in self.reach_contents(v[-1]):
                            self.sum.stores.add((r, ('S', c[1])))
            elif av[0] in ('F', 'I') and av[-1] is not None:
                self.contents.setdefault(av[-1], set()).update(keep)
            elif av[0] == 'S':
                pass      # top level of a shallow copy: private

    def load_from(self, avs):
        """abstract values obtained by one dereference (attribute / subscript / iteration / view-returning method)"""
        out = set()
        for av in avs:
            if av[0] == 'R':
                out.add(av)
            elif av[0] == 'S':
                out.add(('R', av[1]))
            elif av[0] in ('F', 'I'):
                out.add(F)
                if av[-1] is not None:
                    out |= set(self.contents.get(av[-1], ()))
            else:
                out.add(F)
        return out or {F}

    # ---- statements ----------------------------------------------------------------------------------------------
    def stmt(self, s):
        m = getattr(self, 's_' + type(s).__name__, None)
        if m is None:
            for sub in ast.iter_child_nodes(s):
                if isinstance(sub, ast.stmt):
                    self.stmt(sub)
                elif isinstance(sub, ast.expr):
                    self.expr(sub)
            return
        m(s)

    def s_Expr(self, s):
        self.expr(s.value)

    def s_Return(self, s):
        if s.value is not None:
            self.sum.ret |= self.export(self.expr(s.value))
            self._flow_sink(s.value, 'return')

    def export(self, avs):
        """abstract values as seen by a caller: fresh objects lose their site; what they contain is reported as
        shallow sharing"""
        out = set()
        for av in avs:
            if av[0] in ('R', 'S'):
                out.add(av)
            elif av[0] in ('F', 'I'):
                out.add(('F',))
                if av[-1] is not None:
                    out |= {('S', c[1]) for c in self.reach_contents(av[-1])}
        return out

    def s_Global(self, s):
        self.globals_declared |= set(s.names)

    def s_Assign(self, s):
        vals = self.expr(s.value)
        for t in s.targets:
            self.assign(t, vals, s, s.value)

    def s_AnnAssign(self, s):
        if s.value is not None:
            self.assign(s.target, self.expr(s.value), s, s.value)

    def s_AugAssign(self, s):
        vals = self.expr(s.value)
        if isinstance(s.target, ast.Name):
            cur = self.lookup(s.target.id, s.target)
            # in-place operators mutate lists / arrays: a root-aliased name is written
            self.write_through(cur, s, 'augmented assignment')
            self.env.setdefault(s.target.id, set()).update(cur | {F})
            self.store_into(cur, vals, s)
            self._taint_assign(s.target.id, s.value, add=True)
        else:
            base = self.expr(s.target.value)
            self.store_into(self.targets_of(s.target, base), vals, s)

    def targets_of(self, target, base):
        """objects written by a store `base.attr = ...` / `base[...] = ...`"""
        # writing through .loc / .iloc / .at / .iat / .values writes the frame they were taken from: handled because
        # attribute loads of library objects keep the ('R', X) of their base
        return base

    def assign(self, t, vals, node, value_node=None):
        if isinstance(t, ast.Name):
            if t.id in self.globals_declared:
                self.write(f'global:{self.fi.module}.{t.id}', node, 'global rebind')
            self.env[t.id] = set(vals)          # strong update
            if value_node is not None:
                self.taint.pop(t.id, None)
                self._taint_assign(t.id, value_node)
        elif isinstance(t, (ast.Tuple, ast.List)):
            for e in t.elts:
                self.assign(e, self.load_from(vals), node, value_node)
        elif isinstance(t, ast.Starred):
            self.assign(t.value, vals, node, value_node)
        elif isinstance(t, ast.Attribute):
            base = self.expr(t.value)
            handled = False
            for av in base:
                if av[0] == 'M':
                    self.write(f'global:{av[1]}.{t.attr}', node, 'module attribute rebind')
                    handled = True
                elif av == ('R', 'param:self') and self.is_method:
                    self.write(f'self.{t.attr}', node, 'field assignment')
                    for v in self.export(vals):
                        if v[0] in ('R', 'S'):
                            self.sum.stores.add((f'self.{t.attr}', v))
                    handled = True
                elif av[0] == 'Ext':
                    self.write('ghost:EXTMOD', node, f'assignment to {av[1]}.{t.attr}')
                    handled = True
            rest = {av for av in base if not (av[0] in ('M', 'Ext') or (av == ('R', 'param:self') and self.is_method))}
            if rest:
                self.store_into(rest, vals, node)
        elif isinstance(t, ast.Subscript):
            base = self.expr(t.value)
            self.expr(t.slice)
            self.store_into(base, vals, node)
            cols = self._literal_cols(t)
            for av in base:
                if av[0] == 'R':
                    self.sum.cols_written.setdefault(self.norm_root(av[1]), set()).update(cols)
            self._flow_sink(t.slice, 'subscript-store index')
        else:
            self.expr(t)

    def _literal_cols(self, t):
        """column names written by `X[...] = v`, `X.loc[rows, cols] = v`, `X.at[row, col] = v` when they are literals"""
        sl = t.slice
        is_indexer = isinstance(t.value, ast.Attribute) and t.value.attr in ('loc', 'iloc', 'at', 'iat')

        def names(n):
            if isinstance(n, ast.Constant) and isinstance(n.value, str):
                return {n.value}
            if isinstance(n, (ast.List, ast.Tuple)) and all(isinstance(e, ast.Constant) and isinstance(e.value, str) for e in n.elts):
                return {e.value for e in n.elts}
            if isinstance(n, ast.Call) and isinstance(n.func, ast.Attribute) and n.func.attr == 'get_loc' and n.args \
                    and isinstance(n.args[0], ast.Constant):
                return {n.args[0].value}
            return {'*'}
        if is_indexer:
            if isinstance(sl, ast.Tuple) and len(sl.elts) == 2:
                return names(sl.elts[1])
            return {'*'}
        return names(sl)

    def s_For(self, s):
        it = self.expr(s.iter)
        for _ in range(4):
            k0 = self._state_key()
            e0, t0 = self._snapshot()
            self.assign(s.target, self.load_from(it), s)
            self._taint_for(s.target, s.iter)
            self.block(s.body)
            self.env = self._join(e0, self.env)
            self.taint = self._join(t0, self.taint)
            if self._state_key() == k0:
                break
        self.block(s.orelse)

    def s_While(self, s):
        for _ in range(4):
            k0 = self._state_key()
            e0, t0 = self._snapshot()
            self.expr(s.test)
            self.block(s.body)
            self.env = self._join(e0, self.env)
            self.taint = self._join(t0, self.taint)
            if self._state_key() == k0:
                break
        self.block(s.orelse)

    def s_If(self, s):
        self.expr(s.test)
        self._flow_sink(s.test, 'branch condition')
        e0, t0 = self._snapshot()
        self.block(s.body)
        e1, t1 = self.env, self.taint
        self.env, self.taint = {k: set(v) for k, v in e0.items()}, {k: set(v) for k, v in t0.items()}
        self.block(s.orelse)
        self.env = self._join(e1, self.env)
        self.taint = self._join(t1, self.taint)

    def s_With(self, s):
        restored = set()
        for item in s.items:
            v = self.expr(item.context_expr, as_cm=True)
            restored |= getattr(self, '_last_restores', set())
            self._last_restores = set()
            if item.optional_vars is not None:
                self.assign(item.optional_vars, v, s)
        self.masked.append(restored)
        self.sum.transient |= restored
        self.block(s.body)
        self.masked.pop()

    def s_Try(self, s):
        e0, t0 = self._snapshot()
        self.block(s.body)
        self.block(s.orelse)
        e1, t1 = self._snapshot()
        for h in s.handlers:
            self.env = self._join(e0, e1)
            self.block(h.body)
            e1 = self._join(e1, self.env)
        self.env = self._join(e0, e1)
        self.block(s.finalbody)

    def s_Raise(self, s):
        if s.exc is not None:
            self.expr(s.exc)

    def s_FunctionDef(self, s):
        # nested function: analyse its body in the same environment (closures share locals)
        for b in s.body:
            self.stmt(b)
        self.env.setdefault(s.name, set()).add(F)

    def s_Delete(self, s):
        for t in s.targets:
            if isinstance(t, (ast.Subscript, ast.Attribute)):
                self.write_through(self.expr(t.value), s, 'del')

    # ---- expressions ------------------------------------------------------------------------------------------------
    def lookup(self, name, node=None):
        if name in self.env:
            return set(self.env[name])
        mod = self.mod
        if name in mod.functions:
            return {('Fn', mod.functions[name].qualname)}
        if name in mod.classes:
            return {('Cls', mod.classes[name].qualname)}
        if name in mod.imports:
            imp = mod.imports[name]
            if imp[0] == 'ext':
                return {('Ext', imp[1])}
            if imp[0] == 'repo_mod':
                return {('M', imp[1])}
            return self.module_attr(imp[1], imp[2], node)
        if name in mod.assigns:
            g = f'global:{mod.name}.{name}'
            if g in self.an.mutable_globals:
                self.read(g, node, name)
                return {('R', g)}
            return {F}
        return {F}     # builtins / unknown names

    def module_attr(self, modname, name, node=None):
        mi = source.load_module(modname)
        if name in mi.functions:
            return {('Fn', mi.functions[name].qualname)}
        if name in mi.classes:
            return {('Cls', mi.classes[name].qualname)}
        if name in mi.imports:
            imp = mi.imports[name]
            if imp[0] == 'ext':
                return {('Ext', imp[1])}
            if imp[0] == 'repo_mod':
                return {('M', imp[1])}
            return self.module_attr(imp[1], imp[2], node)
        if name in mi.assigns:
            g = f'global:{modname}.{name}'
            if g in self.an.mutable_globals:
                self.read(g, node, name)
                return {('R', g)}
            return {F}
        return {F}

    def expr(self, e, as_cm=False):
        if e is None:
            return {F}
        m = getattr(self, 'e_' + type(e).__name__, None)
        if m is None:
            out = set()
            for sub in ast.iter_child_nodes(e):
                if isinstance(sub, ast.expr):
                    out |= self.expr(sub)
            return {F}
        if isinstance(e, ast.Call):
            return m(e, as_cm)
        return m(e)

    def e_Constant(self, e):
        return {F}

    def e_Name(self, e):
        return self.lookup(e.id, e)

    def e_Attribute(self, e):
        base = self.expr(e.value)
        out = set()
        for av in base:
            if av[0] == 'M':
                out |= self.module_attr(av[1], e.attr, e)
            elif av[0] == 'Ext':
                d = av[1] + '.' + e.attr
                ent = EXT.get(d)
                if ent and ent.get('ret') == 'rc':
                    out.add(('R', 'ghost:RC'))
                    self.read('ghost:RC', e, d)
                else:
                    if ent:
                        for r in ent.get('reads', []):
                            self.read(r, e, d)
                    out.add(('Ext', d))
            elif av[0] == 'Cls':
                fi = self.an.method_lookup(av[1], e.attr)
                if fi is not None:
                    out.add(('Fn', fi.qualname))
                else:
                    g = f'global:{av[1]}.{e.attr}'
                    self.read(g, e, e.attr)
                    out.add(('R', g))
            elif av == ('R', 'param:self') and self.is_method:
                out |= self.self_attr(e.attr, e)
            elif av[0] == 'R':
                out.add(av)
                if av[1] == 'ghost:RC':
                    pass
            elif av[0] == 'S':
                out |= self.load_from({av})
            elif av[0] == 'I':
                fi = self.an.method_lookup(av[1], e.attr)
                if fi is not None and fi.is_property:
                    out |= self.apply_summary(fi.qualname, {'self': {av}}, e)
                elif fi is not None:
                    out.add(('Meth', fi.qualname, frozenset({av})))
                else:
                    out |= self.inst_field(av, e.attr)
            elif av[0] == 'F':
                out |= self.load_from({av})
            else:
                out.add(F)
        return out or {F}

    def self_attr(self, attr, node):
        cls_q = f'{self.fi.module}.{self.fi.cls}'
        fi = self.an.method_lookup(cls_q, attr)
        if fi is not None:
            if fi.is_property:
                return self.apply_summary(fi.qualname, {'self': {('R', 'param:self')}}, node)
            return {('Meth', fi.qualname, frozenset({('R', 'param:self')}))}
        ci = source.find_class(cls_q)
        if attr in ci.class_assigns or any(attr in source.find_class(f'{self.fi.module}.{b}').class_assigns
                                          for b in ci.bases if b in self.mod.classes):
            g = f'global:{cls_q}.{attr}'
            self.read(g, node, attr)
            return {('R', g)}
        return {('R', f'self.{attr}')}

    def e_Subscript(self, e):
        base = self.expr(e.value)
        self.expr(e.slice)
        return self.load_from(base)

    def e_Slice(self, e):
        for x in (e.lower, e.upper, e.step):
            if x is not None:
                self.expr(x)
        return {F}

    def e_Tuple(self, e):
        out = set()
        for x in e.elts:
            out |= self.expr(x)
        return self._container(out, e)

    e_List = e_Tuple
    e_Set = e_Tuple

    def _container(self, elts, node=None):
        """a fresh container holding the given values"""
        f = self.fresh(node) if node is not None else F
        if f[-1] is not None:
            self.store_into({f}, elts, node)
            return {f}
        out = {F}
        for av in elts:
            if av[0] in ('R', 'S'):
                out.add(('S', av[1]))
        return out

    def e_Dict(self, e):
        out = set()
        for k, v in zip(e.keys, e.values):
            if k is not None:
                self.expr(k)
            vv = self.expr(v)
            out |= vv if k is None else self._container(vv, e)
        return out or {self.fresh(e)}

    def e_BinOp(self, e):
        self.expr(e.left)
        self.expr(e.right)
        return {F}

    def e_UnaryOp(self, e):
        self.expr(e.operand)
        return {F}

    def e_BoolOp(self, e):
        out = set()
        for v in e.values:
            out |= self.expr(v)
        return out

    def e_Compare(self, e):
        self.expr(e.left)
        for c in e.comparators:
            self.expr(c)
        return {F}

    def e_IfExp(self, e):
        self.expr(e.test)
        return self.expr(e.body) | self.expr(e.orelse)

    def e_NamedExpr(self, e):
        v = self.expr(e.value)
        self.assign(e.target, v, e, e.value)
        return v

    def e_JoinedStr(self, e):
        for v in e.values:
            if isinstance(v, ast.FormattedValue):
                self.expr(v.value)
        return {F}

    def e_FormattedValue(self, e):
        self.expr(e.value)
        return {F}

    def e_Lambda(self, e):
        saved = {a.arg: self.env.get(a.arg) for a in e.args.args}
        for a in e.args.args:
            self.env[a.arg] = {F}
        self.expr(e.body)
        for k, v in saved.items():
            if v is None:
                self.env.pop(k, None)
            else:
                self.env[k] = v
        return {F}

    def _comp(self, e, elts):
        for g in e.generators:
            it = self.expr(g.iter)
            self.assign(g.target, self.load_from(it), e)
            self._taint_for(g.target, g.iter)
            for c in g.ifs:
                self.expr(c)
                self._flow_sink(c, 'comprehension filter')
        out = set()
        for x in elts:
            out |= self.expr(x)
        return self._container(out, e)

    def e_ListComp(self, e):
        return self._comp(e, [e.elt])

    e_SetComp = e_ListComp
    e_GeneratorExp = e_ListComp

    def e_DictComp(self, e):
        return self._comp(e, [e.key, e.value])

    def e_Starred(self, e):
        return self.expr(e.value)

    def e_Yield(self, e):
        if e.value is not None:
            self.expr(e.value)
        return {F}

    def e_Await(self, e):
        return self.expr(e.value)

    # ---- calls -------------------------------------------------------------------------------------------------------
    def e_Call(self, e, as_cm=False):
        self._last_restores = set()
        args = [self.expr(a.value if isinstance(a, ast.Starred) else a) for a in e.args]
        kwargs = {k.arg: self.expr(k.value) for k in e.keywords}
        kwnodes = {k.arg: k.value for k in e.keywords}
        f = e.func
        # logger calls: LOG only
        if isinstance(f, ast.Attribute) and isinstance(f.value, ast.Name) and f.value.id == 'logger':
            self.write('ghost:LOG', e, 'logger')
            return {F}
        # builtins with reflection / copying
        if isinstance(f, ast.Name) and f.id not in self.env:
            nm = f.id
            if nm in ('getattr',) and args:
                out = set()
                for av in args[0]:
                    if av == ('R', 'param:self') and self.is_method:
                        name = self._literal_name(e.args[1]) if len(e.args) > 1 else None
                        if name is None and len(e.args) > 1 and isinstance(e.args[1], ast.Name) and e.args[1].id in self.params:
                            name = '{' + e.args[1].id + '}'
                        if name is not None and not name.endswith('*') and '{' not in name:
                            out |= self.self_attr(name, e)
                        elif name is not None and '{' in name:
                            out.add(('R', f'self.{name}'))
                        else:
                            out |= self.any_self_attr(name, e)
                    else:
                        out |= self.load_from({av})
                return out or {F}
            if nm in ('setattr',) and len(args) >= 3:
                for av in args[0]:
                    if av == ('R', 'param:self') and self.is_method:
                        name = self._literal_name(e.args[1])
                        self.write(f'self.{name}' if name else 'self.*', e, 'setattr')
                        for v in args[2]:
                            if v[0] in ('R', 'S'):
                                self.sum.stores.add((f'self.{name}' if name else 'self.*', v))
                    else:
                        self.store_into({av}, args[2], e)
                return {F}
            if nm in ('list', 'dict', 'set', 'tuple', 'sorted', 'reversed', 'zip', 'enumerate', 'iter', 'map', 'filter') and args:
                f = self.fresh(e)
                for a in args:
                    self.store_into({f}, self.load_from(a), e)
                return {f}
            if nm in ('super',):
                return {('Super',)}
            if nm in ('print',):
                self.write('ghost:STDOUT', e, 'print')
                return {F}
            if nm in ('open',):
                self.write('ghost:FS', e, 'open')
                return {F}
            if nm in ('hash', 'id'):
                self.read('ghost:ENV', e, nm + '()')
                return {F}
            if nm in self.mod.functions or nm in self.mod.classes or nm in self.mod.imports:
                pass
            else:
                return {F}
        fv = self.expr(f)
        out = set()
        for av in fv:
            if av[0] == 'Fn':
                out |= self.call_repo(av[1], args, kwargs, e, None)
            elif av[0] == 'Meth':
                out |= self.call_repo(av[1], args, kwargs, e, set(av[2]))
            elif av[0] == 'Cls':
                inst = ('I', av[1], self.fresh(e)[-1])
                init = self.an.method_lookup(av[1], '__init__')
                if init is not None:
                    self.call_repo(init.qualname, args, kwargs, e, {inst}, constructing=True)
                out.add(inst)
            elif av[0] == 'Ext':
                out |= self.call_ext(av[1], args, kwargs, kwnodes, e)
            elif av[0] == 'Super':
                out.add(F)
            elif av[0] == 'R' and av[1].startswith('param:') and isinstance(f, ast.Name):
                # call of a callable parameter (decorators): effect = the callee's, under the currently restored ghosts
                masked = frozenset(g for m in self.masked for g in m)
                self.sum.param_calls.add((av[1][6:], masked))
                out.add(self.fresh(e))
            else:
                # method of a library object / builtin container, receiver = base of the attribute
                if isinstance(f, ast.Attribute):
                    recv = self.expr(f.value)
                    if ('Super',) in recv:
                        cls_q = f'{self.fi.module}.{self.fi.cls}'
                        ci = source.find_class(cls_q)
                        for b in ci.bases:
                            if b in self.mod.classes:
                                fi2 = source.find_method(self.mod.classes[b], f.attr)
                                if fi2 is not None:
                                    out |= self.call_repo(fi2.qualname, args, kwargs, e, {('R', 'param:self')})
                        continue
                    out |= self.call_method(recv, f.attr, args, kwargs, kwnodes, e)
                else:
                    out.add(F)
        return out or {F}

    def any_self_attr(self, pattern, node):
        out = set()
        cls_q = f'{self.fi.module}.{self.fi.cls}'
        ci = source.find_class(cls_q)
        names = set(ci.methods)
        for b in ci.bases:
            if b in self.mod.classes:
                names |= set(self.mod.classes[b].methods)
        pre = (pattern or '*').rstrip('*')
        for n in names:
            fi = self.an.method_lookup(cls_q, n)
            if fi is not None and fi.is_property and n.startswith(pre):
                out |= self.apply_summary(fi.qualname, {'self': {('R', 'param:self')}}, node)
        out.add(('R', 'self.*'))
        return out

    def _literal_name(self, node):
        if isinstance(node, ast.Constant) and isinstance(node.value, str):
            return node.value
        if isinstance(node, ast.JoinedStr):
            pre = ''
            for v in node.values:
                if isinstance(v, ast.Constant):
                    pre += v.value
                elif isinstance(v, ast.FormattedValue) and isinstance(v.value, ast.Name) and v.value.id in self.params \
                        and v.format_spec is None and v.conversion == -1:
                    pre += '{' + v.value.id + '}'       # parametric field name, instantiated at call sites
                else:
                    return pre + '*'
            return pre
        return None

    def call_ext(self, dotted, args, kwargs, kwnodes, node):
        ent = EXT.get(dotted)
        if ent is None:
            if dotted.startswith(PURE_PREFIXES) or dotted in ('yaml',):
                # A-LIBPURE: effect-free on the roots; `out=` keyword would be a write
                if 'out' in kwargs:
                    self.write_through(kwargs['out'], node, f'{dotted}(out=...)')
                if dotted.startswith('numpy.random.'):
                    self.read('ghost:RNG', node, dotted)
                    self.write('ghost:RNG', node, dotted)
                return {self.fresh(node)}
            self.sum.unknown.add(dotted)
            return {self.fresh(node)}
        for w in ent.get('writes', []):
            self.write(w, node, dotted)
        for r in ent.get('reads', []):
            self.read(r, node, dotted)
        for i in ent.get('mut_args', []):
            if i < len(args):
                self.write_through(args[i], node, dotted)
        if 'restores' in ent:
            self._last_restores = set(ent['restores'])
        ret = ent.get('ret', 'F')
        if ret == 'deep':
            return {self.fresh(node)}
        if ret == 'shallow':
            f = self.fresh(node)
            self.store_into({f}, self.load_from(args[0] if args else set()), node)
            return {f}
        return {self.fresh(node)}

    def call_method(self, recv, name, args, kwargs, kwnodes, node):
        """method call on a library object / builtin container"""
        roots = {av for av in recv if av[0] in ('R', 'S', 'F')}
        if name in MUTATORS:
            self.write_through(recv, node, f'.{name}()')
            allv = set().union(*args) if args else set()
            self.store_into(recv, allv, node)
            if any(av == ('R', 'ghost:RC') for av in recv):
                self.write('ghost:RC', node, f'rcParams.{name}()')
        if name in INPLACE_METHODS:
            ip = kwnodes.get('inplace')
            if ip is not None and not (isinstance(ip, ast.Constant) and ip.value is False):
                self.write_through(recv, node, f'.{name}(inplace=True)')
                for av in recv:
                    if av[0] == 'R':
                        self.sum.cols_written.setdefault(self.norm_root(av[1]), set()).add('*')
        if name in ('savefig',):
            self.write('ghost:FS', node, 'savefig')
        if name in ('sample',) and 'random_state' not in kwargs:
            self.read('ghost:RNG', node, '.sample() without random_state')
            self.write('ghost:RNG', node, '.sample() without random_state')
        if name in ('copy', 'items', 'values'):
            f = self.fresh(node)
            self.store_into({f}, self.load_from(roots), node)
            return {f}
        if name in FRESH_METHODS:
            return {self.fresh(node)}
        if name in ('get', 'pop', 'setdefault', '__getitem__'):
            return self.load_from(roots)
        # unknown library method: result may be a view of the receiver
        out = {self.fresh(node)}
        for av in roots:
            if av[0] in ('R',):
                out.add(av)
            elif av[0] == 'S':
                out.add(('R', av[1]))
            elif av[0] in ('F', 'I'):
                out.add(av)
        return out

    def call_repo(self, qualname, args, kwargs, node, self_avs, constructing=False):
        self.sum.calls.add(qualname)
        fi = self.an.funcs.get(qualname)
        if fi is None:
            return {F}
        a = fi.node.args
        names = [x.arg for x in a.posonlyargs + a.args]
        # literal string arguments (used to instantiate parametric field names such as self._{which})
        lits = {}
        pnames = names[1:] if (self_avs is not None and names[:1] == ['self']) else names
        if isinstance(node, ast.Call):
            for n, an_ in zip(pnames, node.args):
                lits[n] = self._lit_or_param(an_)
            for k in node.keywords:
                if k.arg is not None:
                    lits[k.arg] = self._lit_or_param(k.value)
        for n, d in zip(names[len(names) - len(a.defaults):], a.defaults):
            if n not in lits and isinstance(d, ast.Constant) and isinstance(d.value, str):
                lits[n] = d.value
        self._call_lits = lits
        binding = {}
        pos = list(args)
        if self_avs is not None and names[:1] == ['self']:
            binding['self'] = set(self_avs)
            names = names[1:]
        for n, v in zip(names, pos):
            binding[n] = v
        extra = set()
        for v in pos[len(names):]:
            extra |= v
        for k, v in kwargs.items():
            if k is None:
                extra |= v
            elif k in names or k in [x.arg for x in a.kwonlyargs]:
                binding[k] = v
            else:
                extra |= v
        if a.kwarg is not None:
            binding[a.kwarg.arg] = binding.get(a.kwarg.arg, set()) | self._container(extra)
        if a.vararg is not None:
            binding[a.vararg.arg] = binding.get(a.vararg.arg, set()) | self._container(extra)
        # context-manager protocol of repo generators (contextlib.contextmanager): declared restores
        if 'contextlib.contextmanager' in fi.decorators:
            restores = RESTORING_CMS.get(qualname)
            if restores:
                self._last_restores = set(restores)
        return self.apply_summary(qualname, binding, node)

    def _lit_or_param(self, n):
        if isinstance(n, ast.Constant) and isinstance(n.value, str):
            return n.value
        if isinstance(n, ast.Name) and n.id in self.params:
            return '{' + n.id + '}'
        return None

    def _inst_name(self, root, lits):
        """instantiate parametric field names self._{p} with the call site's literal (or the caller's own parameter)"""
        if '{' not in root:
            return root
        import re

        def rep(m):
            v = lits.get(m.group(1))
            return v if v is not None else '*'
        out = re.sub(r'\{(\w+)\}', rep, root)
        if '*' in out:
            out = out[:out.index('*') + 1]
        return out

    def apply_summary(self, qualname, binding, node):
        s = self.an.summaries.get(qualname)
        if s is None:
            return {F}
        self.sum.calls.add(qualname)
        self.sum.transient |= s.transient
        restores = RESTORING_CMS.get(qualname, ())
        lits = getattr(self, '_call_lits', {}) or {}
        self._call_lits = {}
        if any('{' in w for w in s.writes | s.reads) or any('{' in x for x, _ in s.stores) or any(av[0] in ('R', 'S') and '{' in av[1] for av in s.ret):
            import copy as _copy
            s2 = Summary(s.qualname)
            s2.writes = {self._inst_name(w, lits) for w in s.writes}
            s2.reads = {self._inst_name(w, lits) for w in s.reads}
            s2.stores = {(self._inst_name(x, lits), av) for x, av in s.stores}
            s2.ret = {(av[0], self._inst_name(av[1], lits)) if av[0] in ('R', 'S') else av for av in s.ret}
            s2.unknown, s2.flows, s2.calls, s2.transient = s.unknown, s.flows, s.calls, s.transient
            s = s2

        def subst_root(x):
            """callee root -> set of caller AVs"""
            if x.startswith('param:'):
                p = x[6:]
                return binding.get(p, {F})
            if x.startswith('self.'):
                out = set()
                for av in binding.get('self', {F}):
                    if av == ('R', 'param:self') and self.is_method:
                        out.add(('R', x))
                    elif av[0] in ('R', 'S'):
                        out.add(('R', av[1]))
                    elif av[0] == 'I':
                        out |= self.inst_field(av, x[5:])
                    elif av[0] == 'F' and av[-1] is not None:
                        out.add(av)
                        out |= set(self.contents.get(av[-1], ()))
                    else:
                        out.add(F)
                return out
            return {('R', x)}
        for w in s.writes:
            if w in restores:
                continue
            if w.startswith('ghost:') or w.startswith('global:'):
                self.write(w, node, f'via {qualname}')
            else:
                self.write_through(subst_root(w), node, f'via {qualname}')
        for r in s.reads:
            if r in restores:
                continue
            self.read(r, node, f'via {qualname}')
        for (x, av) in s.stores:
            tgt = subst_root(x)
            vals = set()
            if av[0] in ('R', 'S'):
                for c in subst_root(av[1]):
                    if c[0] in ('R', 'S'):
                        vals.add(('R', c[1]))
                    elif c[0] in ('F', 'I') and c[-1] is not None:
                        vals.add(c)
            # a store recorded in the callee is a may-store into the caller's objects (no new write beyond s.writes)
            if x.startswith('self.'):
                for sv in binding.get('self', set()):
                    if sv[0] == 'I':
                        self.icontents.setdefault((sv[-1], x[5:]), set()).update(vals)
            for t in tgt:
                if t[0] == 'R':
                    for v in vals:
                        if v[0] == 'R':
                            self.sum.stores.add((self.norm_root(t[1]), v))
                elif t[0] == 'F' and t[-1] is not None:
                    self.contents.setdefault(t[-1], set()).update(vals)
        for root, cols in s.cols_written.items():
            for c in subst_root(root):
                if c[0] == 'R':
                    self.sum.cols_written.setdefault(self.norm_root(c[1]), set()).update(cols)
        self.sum.unknown |= {f'{u} (via {qualname})' for u in s.unknown}
        for lab, sinks in s.flows.items():
            self.sum.flows.setdefault(lab, set()).update({f'{x} (via {qualname})' if '(via' not in x else x for x in sinks})
        out = set()
        fresh_res = self.fresh(node) if node is not None else F
        for av in s.ret:
            if av[0] == 'F':
                out.add(fresh_res)
            else:
                for c in subst_root(av[1]):
                    if c[0] == 'R':
                        if av[0] == 'S':
                            # a fresh container sharing contents with c: model as the fresh result containing R(c)
                            out.add(fresh_res)
                            self.store_into({fresh_res}, {c}, node)
                        else:
                            out.add(c)
                    elif c[0] == 'S':
                        out.add(fresh_res)
                        self.store_into({fresh_res}, {('R', c[1])}, node)
                    elif c[0] in ('F', 'I'):
                        if av[0] == 'R':
                            out.add(c)
                            out |= set(self.contents.get(c[-1], ())) if c[-1] is not None else set()
                        else:
                            out.add(fresh_res)
                            if c[-1] is not None:
                                self.store_into({fresh_res}, self.contents.get(c[-1], set()), node)
        return out or {F}

    # ---- ceilometer-name flow (C16) -------------------------------------------------------------------------------------------
    CEILO_SRC = "'ceilo'"

    def _mentions_ceilo(self, node):
        """expression reads ceilometer names: data['ceilo'], .ceilo, self.ceilos, EXCLUDE_FOR_BASE_HEIGHT_CALC"""
        for n in ast.walk(node):
            if isinstance(n, ast.Subscript) and isinstance(n.slice, ast.Constant) and n.slice.value in ('ceilo', 'EXCLUDE_FOR_BASE_HEIGHT_CALC'):
                return True
            if isinstance(n, ast.Attribute) and n.attr in ('ceilo', 'ceilos'):
                return True
            if isinstance(n, ast.Name) and self.taint.get(n.id):
                return True
        return False

    def _taint_assign(self, name, value_node, add=False):
        if self._mentions_ceilo(value_node) and not self._neutralised(value_node):
            self.taint.setdefault(name, set()).add('ceilo')

    def _taint_for(self, target, iter_node):
        if self._mentions_ceilo(iter_node):
            for n in ast.walk(target):
                if isinstance(n, ast.Name):
                    self.taint.setdefault(n.id, set()).add('ceilo')

    def _neutralised(self, node):
        """uses of names that are label-independent: ==, !=, in, not in, isin, np.unique (iteration only), len,
        merge / duplicated keys -- the value of such an expression does not depend on the spelling of the names"""
        if isinstance(node, ast.Compare) and all(isinstance(o, (ast.Eq, ast.NotEq, ast.In, ast.NotIn)) for o in node.ops):
            return True
        if isinstance(node, ast.Call):
            f = node.func
            nm = f.attr if isinstance(f, ast.Attribute) else (f.id if isinstance(f, ast.Name) else '')
            if nm in ('len', 'isin', 'duplicated', 'nunique'):
                return True
        if isinstance(node, ast.BinOp) and isinstance(node.op, ast.Mult):
            return self._neutralised(node.left) or not self._mentions_ceilo(node.left) and self._neutralised(node.right) or \
                (self._ok(node.left) and self._ok(node.right))
        return False

    def _ok(self, node):
        return (not self._mentions_ceilo(node)) or self._neutralised(node)

    def _flow_sink(self, node, what):
        pass


#: repo context managers (generator functions) whose contract is "restores these ghosts on every exit"; the contract
#: itself is verified in full mode on the real body (tmp_seed: try/finally around the yield)
RESTORING_CMS = {'ampycloud.utils.utils.tmp_seed': ('ghost:RNG',)}


def analyze_all():
    an = Analyzer()
    an.run()
    return an
