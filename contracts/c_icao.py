"""Contracts for ampycloud.icao (property C17; used by C01/C02 through metarize)."""
import z3
from pyvc.contracts import Contract, ListOf, Int
from pyvc.smt import And, Or, Not, Implies, Iff, Forall
from pyvc.values import SList
from .spec import SigRel, sig_rule, count_true, ln


def register(reg):
    reg.add(Contract(
        'ampycloud.icao.significant_cloud',
        properties=('C17', 'C01', 'C02'),
        params={'oktas': ListOf('int')},          # pre: okta values are (Python or numpy) ints -- any ints, not only 0..8
        result=ListOf('bool'),
        ensures=lambda result, oktas: {
            'len': ln(result) == ln(oktas),                      # one flag per layer
            'SigRel': SigRel(oktas, result),                     # the 1-3-5 rule, for every position
        },
        local_models={'sig': lambda: SList('bool', 0)},
        loops={0: {
            'invariant': lambda E, i: {
                'len': ln(E.sig) == i,
                'level': E.sig_level == 2 * count_true(E.sig, i),
                'rel': SigRel(E.oktas, E.sig, i),
            },
        }},
        canaries={
            # deliberately wrong clauses: each MUST be refuted (guards against a vacuous or unsound engine)
            'never_significant': lambda result, oktas: Forall(0, ln(oktas), lambda j: Not(result[j])),
            'ge_instead_of_gt': lambda result, oktas: Forall(
                0, ln(oktas), lambda j: Iff(result[j], And(count_true(result, j) < 3,
                                                          oktas[j] >= 2 * count_true(result, j)))),
            'four_allowed': lambda result, oktas: Forall(
                0, ln(oktas), lambda j: Iff(result[j], And(count_true(result, j) < 4,
                                                          oktas[j] >= 1 + 2 * count_true(result, j)))),
        },
        native_call=lambda oktas: __import__('ampycloud').icao.significant_cloud(list(oktas)),
    ))
