"""Typestate contracts of CeiloChunk (C14), verified in skeleton mode on the real ASTs, callee by contract.

Typestates S0..S3 = nothing / sliced / grouped / layered.  For every operation and every typestate the real body is executed
on an abstract chunk: either AmpycloudError is raised with every ghost write-version unchanged, or the call completes having
written only what the operation may write, and the chunk is in the expected typestate again.
"""
from pyvc.contracts import Contract, Spec, Const
from pyvc.typestate import SChunkT
from pyvc.values import Opaque, OpaqueSeq

CH = 'ampycloud.data.CeiloChunk'
STATES = {
    'S0': dict(id_cols=(), slices=False, groups=False, layers=False),
    'S1': dict(id_cols=('slice_id',), slices=True, groups=False, layers=False),
    'S2': dict(id_cols=('slice_id', 'group_id'), slices=True, groups=True, layers=False),
    'S3': dict(id_cols=('slice_id', 'group_id', 'layer_id'), slices=True, groups=True, layers=True),
    # the same typestates for a chunk without any valid hit (no set at all): the only data dependence of the protocol
    'S2e': dict(id_cols=('slice_id', 'group_id'), slices=True, groups=True, layers=False, empty=True),
    'S3e': dict(id_cols=('slice_id', 'group_id', 'layer_id'), slices=True, groups=True, layers=True, empty=True),
}
IDCOL = {'slices': 'slice_id', 'groups': 'group_id', 'layers': 'layer_id'}


class ChunkT(Spec):
    def __init__(self, state):
        self.state = state

    def make(self, name, ctx):
        return SChunkT(CH, STATES[self.state])

    def describe(self):
        return f'abstract chunk in typestate {self.state} {STATES[self.state]}'


def _ts(self):
    t = self.typestate()
    return (tuple(t['id_cols']), t['slices'], t['groups'], t['layers'])


def _state_tuple(name):
    s = STATES[name]
    return (tuple(sorted(s['id_cols'])), s['slices'], s['groups'], s['layers'])


def _unchanged(self, **_):
    return {'nothing_written': self.versions.v == {}, 'typestate_kept': _ts(self) == _state_tuple_of(self)}


def _state_tuple_of(self):
    s = self.state0
    return (tuple(sorted(s['id_cols'])), s['slices'], s['groups'], s['layers'])


def _has_col(self, which):
    return IDCOL[which] in self.fields['_data'].columns


# ---- raise conditions (exact, in terms of the typestate) ---------------------------------------------------------

def setup_raises(self, which='slices'):
    if which not in IDCOL:
        return True
    if not _has_col(self, which):
        return True                      # the stage has not run: n_<which> is None
    if which == 'groups' and self.fields['_layers'] is not None:
        return not self.state0.get('empty', False)        # raised iff there is at least one group
    return False


def find_groups_raises(self):
    return self.fields['_slices'] is None or self.fields['_layers'] is not None


def find_layers_raises(self):
    return self.fields['_groups'] is None


def metar_msg_raises(self, which='layers'):
    return self.fields.get('_' + which) is None if which in IDCOL else True


# ---- allowed writes on normal return --------------------------------------------------------------------------------

def _writes_within(self, allowed):
    return set(self.versions.v) <= set(allowed)


def register(reg):
    # properties n_<which>: None before the stage has run
    for w in IDCOL:
        reg.contracts.pop(f'{CH}.n_{w}__ts', None)

    def n_result(which):
        return lambda name, ctx, self: (None if not _has_col(self, which) else Opaque('n_' + which))

    ts = {}      # typestate contracts live in their own registry namespace: qualname -> Contract (skeleton)
    states = list(STATES)

    def add(q, **kw):
        c = Contract(q, skeleton=True, properties=('C14',), **kw)
        ts[q] = c
        return c

    for w in IDCOL:
        add(f'{CH}.n_{w}', result=n_result(w), cases=[(s, {'self': ChunkT(s)}) for s in states],
            ensures=lambda result, self, w=w: {'none_iff_stage_not_run': (result is None) == (not _has_col(self, w)),
                                              'read_only': self.versions.v == {}})

    add(f'{CH}._get_cluster_ids',
        cases=[(f'{s},{w}', {'self': ChunkT(s), 'which': Const(w)}) for s in states for w in IDCOL if IDCOL[w] in STATES[s]['id_cols']],
        result=lambda name, ctx, self, which: OpaqueSeq(nonempty=not self.state0.get('empty', False), what='cluster ids'),
        ensures=lambda result, self, which: {'read_only': self.versions.v == {}})

    add(f'{CH}._setup_sligrolay_pdf',
        cases=[(f'{s},{w}', {'self': ChunkT(s), 'which': Const(w)}) for s in states for w in list(IDCOL) + ['nonsense']],
        raises={'AmpycloudError': setup_raises}, exc_ensures={'AmpycloudError': lambda self, which='slices': _unchanged(self)},
        result=lambda name, ctx, self, which='slices': (Opaque('pdf'), OpaqueSeq(nonempty=not self.state0.get('empty', False), what='cids')),
        ensures=lambda result, self, which: {'read_only': self.versions.v == {}})

    def metarize_effect(ctx, self, which='slices'):
        self.sym_setattr(ctx, '_' + which, Opaque('table'))

    add(f'{CH}.metarize',
        cases=[(f'{s},{w}', {'self': ChunkT(s), 'which': Const(w)}) for s in states for w in list(IDCOL) + ['nonsense']],
        raises={'AmpycloudError': setup_raises}, exc_ensures={'AmpycloudError': lambda self, which='slices': _unchanged(self)},
        modular_effect=metarize_effect,
        ensures=lambda result, self, which: {'writes_only_its_table': _writes_within(self, {'table.' + which}),
                                             'table_set': self.fields['_' + which] is not None,
                                             'id_columns_kept': sorted(c for c in self.fields['_data'].columns if c.endswith('_id')) == sorted(self.state0['id_cols'])})

    def merge_effect(ctx, self):
        self.versions.bump('data.group_id')

    add(f'{CH}._merge_close_groups',
        cases=[(s, {'self': ChunkT(s)}) for s in ('S2', 'S3', 'S2e', 'S3e')],
        raises={'AmpycloudError': lambda self: setup_raises(self, 'groups')},
        exc_ensures={'AmpycloudError': lambda self: _unchanged(self)},
        modular_effect=merge_effect,
        ensures=lambda result, self: {'writes_only_group_ids': _writes_within(self, {'data.group_id'})})

    add(f'{CH}.find_slices', cases=[(s, {'self': ChunkT(s)}) for s in states],
        ensures=lambda result, self: {'writes_only_slice_ids_and_slices_table': _writes_within(self, {'data.slice_id', 'table.slices'}),
                                      'slices_table_set': self.fields['_slices'] is not None, 'slice_id_column': _has_col(self, 'slices'),
                                      'later_stages_untouched': self.fields['_groups'] is None or self.state0['groups']})

    add(f'{CH}.find_groups', cases=[(s, {'self': ChunkT(s)}) for s in states],
        raises={'AmpycloudError': find_groups_raises}, exc_ensures={'AmpycloudError': lambda self: _unchanged(self)},
        ensures=lambda result, self: {'writes_within': _writes_within(self, {'data.group_id', 'table.groups', 'table.slices'}),
                                      'groups_table_set': self.fields['_groups'] is not None, 'group_id_column': _has_col(self, 'groups'),
                                      'slice_ids_kept': 'data.slice_id' not in self.versions.v})

    add(f'{CH}.find_layers', cases=[(s, {'self': ChunkT(s)}) for s in states],
        raises={'AmpycloudError': find_layers_raises}, exc_ensures={'AmpycloudError': lambda self: _unchanged(self)},
        ensures=lambda result, self: {'writes_within': _writes_within(self, {'data.layer_id', 'table.layers', 'table.groups'}),
                                      'layers_table_set': self.fields['_layers'] is not None, 'layer_id_column': _has_col(self, 'layers'),
                                      'earlier_ids_kept': not ({'data.slice_id', 'data.group_id'} & set(self.versions.v))})

    add(f'{CH}.metar_msg',
        cases=[(f'{s},{w}', {'self': ChunkT(s), 'which': Const(w)}) for s in states for w in IDCOL],
        raises={'AmpycloudError': metar_msg_raises}, exc_ensures={'AmpycloudError': lambda self, which='layers': _unchanged(self)},
        ensures=lambda result, self, which: {'read_only': self.versions.v == {}})

    add(f'{CH}._ncd_or_nsc', cases=[(s, {'self': ChunkT(s)}) for s in states],
        result=lambda name, ctx, self: Opaque('code'), ensures=lambda result, self: {'read_only': self.versions.v == {}})
    return ts
