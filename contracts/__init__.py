"""Sidecar contracts for MeteoSwiss/ampycloud (the repository is not edited).  build_registry() collects them."""
from pyvc.contracts import Registry


def build_registry() -> Registry:
    reg = Registry()
    from . import c_icao, c_wmo, c_data, c_utils, c_scaler, c_screen, c_prms, c_plots, c_layer, lemmas
    for mod in (lemmas, c_icao, c_wmo, c_data, c_utils, c_scaler, c_screen, c_prms, c_plots, c_layer):
        mod.register(reg)
    c_data.finalize(reg)
    return reg
