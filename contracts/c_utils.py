"""Contracts for ampycloud.utils.utils (C09 tmp_seed, C04 calc_base_height, C12 adjust_nested_dict)."""
import z3
from pyvc import smt
from pyvc.contracts import Contract, Int, Float, ListOf, Const, Spec
from pyvc.smt import And, Or, Not, Implies, Iff, If, Forall, Exists, lift


def _rng_unchanged(*a, **k):
    g = smt.CURRENT_CTX.ghost
    return {'restore': g['RNG'] == g['RNG_initial']}


def register(reg):
    reg.add(Contract(
        'ampycloud.utils.utils.tmp_seed', properties=('C09',),
        params={'seed': Int()},
        # the generator re-raises what the with-body raised; on both exits the global generator state is what it was
        raises={'BodyException': lambda seed: bool(smt.CURRENT_CTX.ghost.get('body_raises', False))},
        ensures=lambda result, seed: _rng_unchanged(),
        exc_ensures={'BodyException': lambda seed: _rng_unchanged()},
        canaries={'seeded_state_kept': lambda result, seed: smt.CURRENT_CTX.ghost['RNG'] != smt.CURRENT_CTX.ghost['RNG_initial']},
        native_oracle=__import__('contracts.native', fromlist=['x']).tmp_seed_oracle,
        notes='ghost RNG = state of the global NumPy generator; the with-body (yield) may change it arbitrarily and may raise',
    ))
