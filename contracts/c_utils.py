"""Contracts for ampycloud.utils.utils (C09 tmp_seed, C04 calc_base_height, C12 adjust_nested_dict)."""
import z3
from pyvc import smt
from pyvc.contracts import Contract, Int, Float, ListOf, Const, Spec
from pyvc.smt import And, Or, Not, Implies, Iff, If, Forall, Exists, lift


def _rng_unchanged(*a, **k):
    g = smt.CURRENT_CTX.ghost
    return {'restore': g['RNG'] == g['RNG_initial']}


def register(reg):
    reg.add(Contract(
        'ampycloud.utils.utils.tmp_seed', properties=('C09',),
        params={'seed': Int()},
        # the generator re-raises what the with-body raised; on both exits the global generator state is what it was
        raises={'BodyException': lambda seed: bool(smt.CURRENT_CTX.ghost.get('body_raises', False))},
        ensures=lambda result, seed: _rng_unchanged(),
        exc_ensures={'BodyException': lambda seed: _rng_unchanged()},
        canaries={'seeded_state_kept': lambda result, seed: smt.CURRENT_CTX.ghost['RNG'] != smt.CURRENT_CTX.ghost['RNG_initial']},
        native_oracle=__import__('contracts.native', fromlist=['x']).tmp_seed_oracle,
        notes='ghost RNG = state of the global NumPy generator; the with-body (yield) may change it arbitrarily and may raise',
    ))
    register_cbh(reg)


# ---- calc_base_height (C04, C08) ---------------------------------------------------------------
from pyvc.lib import ArrOf
from .spec import ln, _rv, _isnan


def _as_real(q):
    from pyvc.values import to_real_parts
    return to_real_parts(q)[1]


def _cbh_post(result, vals, lookback_perc, height_perc):
    """the percentile is taken over exactly the look-back tail of vals: the last k = floor(n*lb/100) elements, or ALL of them
    when k = 0 (Python: vals[-0:] is the whole array -- pinned, see DESIGN section 6, D9)"""
    ctx = smt.CURRENT_CTX
    calls = ctx.ghost.get('percentile_calls', [])
    n = ln(vals)
    k = z3.ToInt(z3.ToReal(n) * z3.ToReal(lookback_perc) / 100)
    start = z3.If(k == 0, 0, z3.If(n - k > 0, n - k, 0))
    if not (ctx.fn_stack and ctx.fn_stack[0] == 'ampycloud.utils.utils.calc_base_height'):
        # modular use at a call site: what a caller may rely on -- a finite value between two values of the look-back tail
        return {'finite': Not(_isnan(result)),
                'inside_the_tail': Exists(0, n, lambda a: And(a >= start, _rv(vals[a]) <= _rv(result))),
                'inside_the_tail_hi': Exists(0, n, lambda b: And(b >= start, _rv(result) <= _rv(vals[b])))}
    if len(calls) != 1:
        return {'one_percentile_call': False}
    arr, q, out, lo, hi = calls[0]
    return {
        'percentile_of_the_lookback_tail': And(arr.n == n - start, Forall(0, arr.n, lambda i: _rv(arr[i]) == _rv(vals[start + i]))),
        'configured_percentile': _as_real(q) == z3.ToReal(height_perc),
        'is_that_percentile': And(_rv(result) == out.v, Not(_isnan(result))),
        # hence inside the selection, hence between the lowest and highest value handed in
        'inside_the_values': And(_rv(vals[start + lo]) <= _rv(result), _rv(result) <= _rv(vals[start + hi]), lo >= 0, start + lo < n, hi >= 0, start + hi < n),
    }


def register_cbh(reg):
    reg.add(Contract(
        'ampycloud.utils.utils.calc_base_height', properties=('C04', 'C08', 'C06'),
        params={'vals': ArrOf('float'), 'lookback_perc': Int(lo=1, hi=100), 'height_perc': Int(lo=0, hi=100)},
        requires=lambda vals, lookback_perc, height_perc: {'no_nan': Forall(0, ln(vals), lambda i: Not(_isnan(vals[i])))},
        result=Float(nan=False, ty='npfloat'),
        raises={'AmpycloudError': lambda vals, lookback_perc, height_perc: ln(vals) == 0},
        ensures=_cbh_post,
        canaries={'always_all_values': lambda result, vals, lookback_perc, height_perc:
                  smt.CURRENT_CTX.ghost['percentile_calls'][0][0].n == ln(vals)},
        native_call=lambda vals, lookback_perc, height_perc: __import__('importlib').import_module('ampycloud.utils.utils').calc_base_height(vals, lookback_perc, height_perc),
    ))
