"""Which functions / lemmas / extras decide which property (see DESIGN.md section 4)."""
from pyvc.runner import PropertySpec, A_REAL

A_FP = ('A-FP: standard model of IEEE-754 rounding (|fl(x)-x| <= 2^-53 |x|) is used only in the two side lemmas '
        'fp.floor100 / fp.floor1000; everything else about floats is A-REAL')

SPECS = {}


def _add(spec):
    SPECS[spec.pid] = spec
    return spec


_add(PropertySpec(
    'C17', 'proof',
    functions=['ampycloud.icao.significant_cloud'],
    lemmas=['cnt_frame', 'prop.C17.prefix', 'sig_le3'],
    explanation=('icao.significant_cloud is symbolically executed from its real AST for okta lists of unbounded symbolic length; '
                 'the loop is cut by the invariant (len(sig)=i, sig_level=2*cnt(sig,i), SigRel on [0,i)); post: one flag per layer and '
                 'SigRel = the 1-3-5 rule at every position; prefix independence is a lemma over SigRel proved by induction.'),
    assumptions=['okta values are ints (Python or numpy); for floats `okta > 2c` and `okta >= 2c+1` differ'],
))

_add(PropertySpec(
    'C18', 'proof',
    functions=['ampycloud.wmo.perc2okta', 'ampycloud.wmo.okta2code', 'ampycloud.wmo.height2code'],
    lemmas=['prop.C18.nm.zero', 'prop.C18.nm.eight', 'prop.C18.nm.range', 'prop.C18.nm.nearest', 'prop.C18.nm.clip',
            'prop.C18.mono_v', 'prop.C18.mono_nm', 'prop.C18.h.floor', 'prop.C18.h.tight', 'prop.C18.h.mono',
            'prop.C18.h.three_digits', 'fmt03.digits', 'fmt03.value', 'fp.floor100', 'fp.floor1000'],
    explanation=('perc2okta (scalar float, scalar int and ndarray entry paths), okta2code (int, bool, float, numpy int, str, None) and '
                 'height2code (float, numpy float, int) are symbolically executed from their real ASTs; posts equate the results with the '
                 'spec functions p2o / abbr / hcode taken from the property text; the (n, m) statements, monotonicity, floor and '
                 'three-digit claims are lemmas over those spec functions.'),
    assumptions=[A_REAL, A_FP],
    not_decided=['IEEE-754 effects beyond the two standard-model side lemmas (e.g. fl(n/m*100) landing on the other side of a bin edge)'],
))
