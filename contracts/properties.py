"""Which functions / lemmas / extras decide which property (see DESIGN.md section 4)."""
from pyvc.runner import PropertySpec, A_REAL

A_FP = ('A-FP: standard model of IEEE-754 rounding (|fl(x)-x| <= 2^-53 |x|) is used only in the two side lemmas '
        'fp.floor100 / fp.floor1000; everything else about floats is A-REAL')

SPECS = {}


def _add(spec):
    SPECS[spec.pid] = spec
    return spec


_add(PropertySpec(
    'C17', 'proof',
    functions=['ampycloud.icao.significant_cloud'],
    lemmas=['cnt_frame', 'prop.C17.prefix', 'sig_le3'],
    explanation=('icao.significant_cloud is symbolically executed from its real AST for okta lists of unbounded symbolic length; '
                 'the loop is cut by the invariant (len(sig)=i, sig_level=2*cnt(sig,i), SigRel on [0,i)); post: one flag per layer and '
                 'SigRel = the 1-3-5 rule at every position; prefix independence is a lemma over SigRel proved by induction.'),
    assumptions=['okta values are ints (Python or numpy); for floats `okta > 2c` and `okta >= 2c+1` differ'],
))

_add(PropertySpec(
    'C18', 'proof',
    functions=['ampycloud.wmo.perc2okta', 'ampycloud.wmo.okta2code', 'ampycloud.wmo.height2code'],
    lemmas=['prop.C18.nm.zero', 'prop.C18.nm.eight', 'prop.C18.nm.range', 'prop.C18.nm.nearest', 'prop.C18.nm.clip',
            'prop.C18.mono_v', 'prop.C18.mono_nm', 'prop.C18.h.floor', 'prop.C18.h.tight', 'prop.C18.h.mono',
            'prop.C18.h.three_digits', 'fmt03.digits', 'fmt03.value', 'fp.floor100', 'fp.floor1000'],
    explanation=('perc2okta (scalar float, scalar int and ndarray entry paths), okta2code (int, bool, float, numpy int, str, None) and '
                 'height2code (float, numpy float, int) are symbolically executed from their real ASTs; posts equate the results with the '
                 'spec functions p2o / abbr / hcode taken from the property text; the (n, m) statements, monotonicity, floor and '
                 'three-digit claims are lemmas over those spec functions.'),
    assumptions=[A_REAL, A_FP],
    not_decided=['IEEE-754 effects beyond the two standard-model side lemmas (e.g. fl(n/m*100) landing on the other side of a bin edge)'],
))

_MSG_LEMMAS = ['cnt_frame', 'cnt_mono', 'cnt_subset', 'sig_le3', 'abbr_len', 'abbr_re', 'concat_re', 'code_grammar',
               'fmt03.digits', 'prop.C18.h.three_digits', 'prop.C18.h.mono']

_add(PropertySpec(
    'C01', 'proof',
    functions=['ampycloud.data.CeiloChunk.metar_msg', 'ampycloud.data.CeiloChunk._ncd_or_nsc',
               'ampycloud.icao.significant_cloud', 'ampycloud.wmo.okta2code', 'ampycloud.wmo.height2code'],
    lemmas=_MSG_LEMMAS + ['cnt_ext', 'prop.C02.nosig'],
    explanation=('metar_msg is symbolically executed from its real AST for every which in {slices, groups, layers}, MSA None or any '
                 'real, table not computed / any table of symbolic length satisfying the table invariant TI (okta in 0..8, finite sorted '
                 'bases in [0,1e5), code = abbr(okta) ++ floor-code(base), SigRel).  Posts: grammar of the message; the groups are exactly '
                 'the rows with `significant and base < MSA`, in table order (ghost selection indices), okta >= 1, 3, 5 for the 1st, 2nd, '
                 '3rd group, heights non-decreasing.  TI itself is the postcondition of metarize (see C04/C05 evidence for the parts '
                 'established there) and of significant_cloud / okta2code / height2code, which are verified here.'),
    assumptions=[A_REAL, 'TI holds for the table handed to metar_msg (established by metarize; preserved because no other stage writes the tables)',
                 'hit heights, hence bases, in [0, 100000) ft (the property\'s own quantifier)'],
))

_add(PropertySpec(
    'C02', 'proof',
    functions=['ampycloud.data.CeiloChunk.metar_msg', 'ampycloud.data.CeiloChunk._ncd_or_nsc', 'ampycloud.icao.significant_cloud'],
    lemmas=_MSG_LEMMAS + ['prop.C02.nosig', 'prop.C02.lowest_first', 'prop.C02.ceiling', 'prop.C02.ncd_no_okta',
                          'prop.C02.nsc_none_below', 'prop.C02.nsc_if_cloud_above'],
    explanation=('Same symbolic execution of metar_msg as C01; the C02 posts characterise the message (groups = exactly the significant '
                 'rows below the MSA; NCD/NSC iff there is none; NSC iff a significant row sits at/above the MSA or the high-cloud flag is '
                 'set; NCD only without the flag).  The statements about okta in the property text (lowest layer first, ceiling never '
                 'suppressed, NCD only if no layer reaches 1 okta, NSC exactly when cloud exists but none is reportable) are lemmas over '
                 'that characterisation and TI, proved by induction over the table rows with hand-instantiated hypotheses.'),
    assumptions=[A_REAL, 'TI holds for the table handed to metar_msg (established by metarize)',
                 'the meaning of the flag (more than MAX_HITS_OKTA0 hits cropped) is the postcondition of _cleanup_pdf, see C07'],
))


def _b_c03(run):
    from bounded import c03
    return c03.bounded(run)


_add(PropertySpec(
    'C03', 'other',
    functions=['ampycloud.data.CeiloChunk._calculate_cloud_amount', 'ampycloud.data.CeiloChunk.metarize',
               'ampycloud.data.CeiloChunk.max_hits_per_layer', 'ampycloud.wmo.perc2okta', 'ampycloud.wmo.okta2code'],
    lemmas=['cnt_frame', 'prop.C03.mono', 'prop.C03.range', 'prop.C18.nm.zero', 'prop.C18.nm.eight', 'prop.C18.nm.range',
            'prop.C18.mono_v', 'prop.C18.mono_nm'],
    bounded=_b_c03,
    explanation=('PROVED (P): _calculate_cloud_amount is symbolically executed from its real AST with a loop invariant over the table rows: '
                 'for every set the okta cell equals okta_of(count, total, MAX_HITS_OKTA0, MAX_HOLES_OKTA8) (0 / 8 buffers, else the WMO '
                 'binning), is a Python int in 0..8, perc = count/total*100; metarize (real AST) carries the rule through the sort to the '
                 'final table and sets code = abbr(okta) ++ height code; monotonicity in the count and the range are lemmas over okta_of. '
                 'ASSUMED + BOUNDED (B): that the counting expression yields the number of distinct (ceilo, dt) measurements is the '
                 'library meaning of the np.unique / boolean-mask idiom; the expression is pinned by its exact AST (a change makes the '
                 'check UNDECIDED) and the clause is checked by recounting with Python sets on the scene grammar.'),
    assumptions=[A_REAL, 'hit-count expression (np.unique over masks) = number of distinct (ceilo, dt) measurements: assumed, bounded stand-in only',
                 'the three other helpers of metarize (_setup_sligrolay_pdf, _calculate_sligrolay_base_height, _add_sligrolay_information) are verified against their bodies in C01 / C04'],
    not_decided=['the counting clause for all inputs (library semantics; bounded only)'],
))

# metarize establishes the table invariant that C01 / C02 rely on
SPECS['C01'].functions += ['ampycloud.data.CeiloChunk.metarize', 'ampycloud.data.CeiloChunk._calculate_cloud_amount',
                           'ampycloud.data.CeiloChunk._setup_sligrolay_pdf', 'ampycloud.data.CeiloChunk._calculate_sligrolay_base_height']
SPECS['C02'].functions += ['ampycloud.data.CeiloChunk.metarize', 'ampycloud.data.AbstractChunk._cleanup_pdf']
SPECS['C02'].lemmas += ['cnt_union', 'cnt_ext']


# ---------------------------------------------------------------------------------------------
# properties decided (in their deductive part) by the frame back end
# ---------------------------------------------------------------------------------------------
from . import frames_spec as _fs      # noqa: E402

A_FRAME = ('A-FRAME: effect summaries are a may-analysis (flow-sensitive on local names only, one level of field sensitivity below self, '
           'allocation-site abstraction of fresh objects); library functions are effect-free on the tracked locations unless listed in '
           'pyvc/frames.py (A-LIBPURE); reflection limited to getattr/setattr on self with literal / parametric names')
A_DET = 'A-DET: for equal inputs numpy / pandas / scikit-learn / statsmodels compute bit-identical results (thread counts fixed); bounded check only'
A_LIBTS = 'A-LIBTS: third-party libraries keep no shared mutable state relevant to results when called on disjoint data; CPython container operations are atomic'


def _bounded(modname):
    def f(run):
        import importlib
        return importlib.import_module(f'bounded.{modname}').bounded(run)
    f.__name__ = f'bounded_{modname}'
    return f


_add(PropertySpec(
    'C11', 'proof',
    functions=['ampycloud.utils.utils.adjust_nested_dict', 'ampycloud.data.AbstractChunk._setup_prms'],
    extras=[_fs.c11], bounded=_bounded('c11'),
    explanation=('PROVED (P, tree dialect, see C12): adjust_nested_dict writes only the object given as its first argument (post '
                 'the_assignment_dict_is_not_written); _setup_prms returns a fresh object that is not linked to the global, leaves the '
                 'global neither rebound nor changed and the per-call dictionary untouched.  PROVED (F): frame obligations over inferred effect summaries of the real code (modular: callee summaries at call sites): neither the '
                 'constructor, run(), metar(), any stage, metar_msg(), the input checker nor the MSA clean-up writes the caller\'s frame, the '
                 'caller\'s dictionary or a module-level object; adjust_nested_dict never writes its second argument; the value returned by '
                 '_setup_prms shares no object with the global parameters (deep copy), so neither direction of the snapshot claim can fail; '
                 '_data is a private copy; no method other than the constructor writes the parameter snapshot.  A bounded native run '
                 '(labelled B) accompanies the frames and supplies the failing input when an obligation is refuted.'),
    assumptions=[A_FRAME, 'A-TREE / copy.deepcopy contract (see C12)', 'noted, not a violation: leaf objects of the caller\'s dictionary are aliased into chunk.prms; ampycloud never writes them (obligation prms_snapshot_not_written)'],
))

_add(PropertySpec(
    'C12', 'other',
    functions=['ampycloud.utils.utils.adjust_nested_dict', 'ampycloud.data.AbstractChunk._setup_prms', 'ampycloud.core.reset_prms',
               'ampycloud.core.set_prms'],
    lemmas=['prop.C12.merge_is_a_function'],
    extras=[_fs.c12], bounded=_bounded('c12'),
    explanation=('PROVED (P, tree dialect: parameter values as mathematical finite maps over string keys, dict objects as holders with '
                 'write-through to their parent; universals over keys instantiated at the keys on the path): adjust_nested_dict (real '
                 'AST, recursion by its own contract with a decreasing nesting depth, loop invariant over the processed keys) updates the '
                 'object it is given in place and returns it; the new value f satisfies IsAdj(f, old, new) -- no key added or removed, '
                 'every named known key with a plain value overridden, every named known nested dict adjusted recursively, everything '
                 'else untouched; an unknown key gives exactly one AmpycloudWarning and no write; the assignment dict is not written.  '
                 '_setup_prms returns a fresh object, not linked to the global, whose value is the global adjusted by the per-call dict '
                 '(or a copy when None); the global is neither rebound nor changed.  reset_prms: None rebinds the global to a fresh '
                 'defaults object; a name / a list of names (any length, repetitions) sets exactly the named top-level keys to the '
                 'packaged values and leaves the others untouched, whatever the global held before (nested in-place edits included); '
                 'AmpycloudError exactly when a name is not a packaged parameter.  set_prms (real AST; file system and YAML parser as ghost '
                 'values): refuses exactly a non-path, a missing path or a non-file, warns (AmpycloudWarning, once) iff the suffix is not '
                 '.yml, reads the file once and leaves the global -- the same object -- adjusted by the file content through the very same '
                 'merge.  LEMMA prop.C12.merge_is_a_function (structural induction): IsAdj(f1, r, n) and IsAdj(f2, r, n) give f1 and f2 the '
                 'same content, so per-call dict, edited global and YAML file with the same effective values yield the same snapshot.  PROVED (F): dynamic.AMPYCLOUD_PRMS is read directly '
                 'only by _setup_prms, set_prms, reset_prms and the plotting-style code; no processing step reaches it even through '
                 'callees; the constructor takes its snapshot through _setup_prms; set_prms merges into the global through the same '
                 'adjust_nested_dict.  BOUNDED (B): identical *results of a run* through the three routes (follows from equal snapshots by A-DET) '
                 'and the library assumptions above (ruamel, pathlib, deepcopy) are checked natively on a scene grammar x nested assignments.'),
    assumptions=[A_FRAME, 'ruamel.yaml load returns the nested dict the file denotes, as a new object tree on every call (contract of get_default_prms)',
                 'A-TREE: parameter dictionaries are finite trees (no dict object reachable through two paths, no cycles); copy.deepcopy returns an independent object of equal value',
                 'valid assignment (the property\'s quantifier): Compat(ref, new) -- named known keys agree on dict / plain value, recursively'],
    not_decided=['equality of whole runs through the three routes (bounded; follows from equal snapshots by A-DET)', 'what ruamel.yaml returns for a given file text (assumed: the nested dict it denotes)'],
))

_add(PropertySpec(
    'C13', 'other',
    extras=[_fs.c13], bounded=_bounded('c13'),
    explanation=('PROVED (F), the premises of non-interference: no function on the processing path writes a module-level object or an '
                 'argument it does not own; the only module-level objects read are two never-written constants and (in _setup_prms only) the '
                 'global parameters; what the constructor stores in the instance is fresh; helpers have no mutable defaults.  From these, '
                 'stage calls on distinct chunks have disjoint footprints, so any interleaving of stage calls commutes with the isolated '
                 'runs.  NOT DECIDED: pre-emption inside a stage (needs A-LIBTS).  BOUNDED (B): exhaustive stage interleavings of two chunks, '
                 'sampled ones for three, and threads with a 10 microsecond switch interval.'),
    assumptions=[A_FRAME, A_LIBTS, A_DET],
    not_decided=['thread schedules inside third-party C code and at bytecode level (no model of schedules in this technique family)'],
))

_add(PropertySpec(
    'C09', 'other',
    functions=['ampycloud.utils.utils.tmp_seed'],
    extras=[_fs.c09], bounded=_bounded('c09'),
    explanation=('PROVED (P): tmp_seed is symbolically executed from its real AST (generator with try/finally; the with-body may change the '
                 'ghost generator state arbitrarily and may raise): on the normal and on the exceptional exit the global generator state '
                 'equals the state at entry.  PROVED (F): no function on the processing path reads or writes the global generator, the clock '
                 '(run() reads it into the log only) or hash()/id(); canonical_demo_data touches the generator only under tmp_seed; every '
                 'GaussianMixture is built with random_state = the integer parameter random_seed; no iteration over sets.  NOT DECIDED: '
                 'bit-identical output of the numerical libraries across processes (A-DET), checked by digests in a bounded run.'),
    assumptions=[A_FRAME, A_DET, 'np.random.get_state / seed / set_state act on the global generator as their documentation says (ghost model)'],
    not_decided=['bit-reproducibility of scikit-learn / numpy / pandas across processes, hash seeds and BLAS builds'],
))

_add(PropertySpec(
    'C20', 'other',
    functions=['ampycloud.plots.diagnostics.DiagnosticPlot.save'],
    extras=[_fs.c20], bounded=_bounded('c20'),
    explanation=('PROVED (P): DiagnosticPlot.save (real AST, format lists of any length) hands Figure.savefig exactly one name per requested '
                 'format, in order, each being <stem>.<format> with the stem kept whole (dots in it included), and "pdf" when no format '
                 'is given.  PROVED (F): no plotting function writes the chunk, a module-level object or the global generator; every chunk method the '
                 'plots call is read-only; rcParams are only changed inside matplotlib style contexts, which restore them; the writes of '
                 'diagnostic() are bounded by {open figures, files, log, warnings}.  NOT DECIDED: that matplotlib raises nothing for every '
                 'data shape, that no figure stays open and that matplotlib writes exactly the files named: checked on a scene grammar x upto '
                 'x show_ceilos x formats x file stems with and without dots (B).'),
    assumptions=[A_FRAME, 'plt.style.context restores rcParams on every exit'],
    not_decided=['totality of matplotlib drawing calls; index safety of colour / marker subscripts (not yet under a full-mode contract)'],
))


def _c07_frames(run=None):
    """the tables are a function of (_data, _prms): the stages read nothing else (no global, no generator, no clock)"""
    fc = _fs.FrameCheck()
    for q in _fs.STAGES + [f'{_fs.CH}._merge_close_groups']:
        s = fc.S(q)
        other = sorted(r for r in s.reads if r.startswith('global:') and r not in _fs.READONLY_GLOBALS) + \
            sorted(r for r in s.reads if r in ('ghost:RNG', 'ghost:CLOCK', 'ghost:ENV'))
        fc.ob(q, 'reads_only_chunk_state', not other, str(other))
    s = fc.S(f'{_fs.AC}.__init__')
    fc.ob(s.qualname, 'data_field_is_cleanup_result', f'{_fs.AC}._cleanup_pdf' in s.calls and 'self._data' in s.writes, '')
    return fc


_add(PropertySpec(
    'C07', 'proof',
    functions=['ampycloud.data.AbstractChunk._cleanup_pdf'],
    lemmas=['cnt_union', 'prop.C07.rel1', 'prop.C07.rel2', 'prop.C07.below_intact'],
    extras=[_c07_frames], bounded=_bounded('c07'),
    explanation=('_cleanup_pdf is symbolically executed from its real AST in the row dialect (symbolic number of rows, index labels, the '
                 'true label-based meaning of .loc[labels]= and drop(labels)): for every row -- not above MSA+buffer (or NaN): kept unchanged; '
                 'above with type <= 1: kept as (type 0, NaN); above with type > 1: dropped; flag <=> number of hits above the limit > '
                 'MAX_HITS_OKTA0 (counts of the two label selections add up: lemma cnt_union); MSA None: identity, flag false.  The two '
                 'relational clauses are lemmas over that per-row postcondition; that the tables depend on (_data, _prms) only is a frame '
                 'obligation on the stages.  A bounded native run of both relations accompanies the proof.'),
    assumptions=[A_REAL, A_FRAME, 'check_data_consistency returns a fresh four-column frame (its contract, see C15); determinism of the stages (A-DET)'],
))


_add(PropertySpec(
    'C19', 'proof',
    functions=['ampycloud.scaler.shift_and_scale', 'ampycloud.scaler.minmax_scale', 'ampycloud.scaler.minrange2minmax',
               'ampycloud.scaler.convert_kwargs', 'ampycloud.scaler.apply_scaling', 'ampycloud.scaler.step_scale'],
    lemmas=['prop.C19.sas.order', 'prop.C19.sas.inverse', 'prop.C19.mm.range', 'prop.C19.mm.order', 'prop.C19.mm.inverse', 'prop.C19.mm.minrange'] +
           [f'prop.C19.step.{m}.{w}.L{L}' for L in range(5) for m in ('do', 'undo') for w in ('mono', 'inverse', 'continuous')],
    bounded=_bounded('c19'),
    explanation=('PROVED (P, floats as reals): shift_and_scale, minmax_scale, minrange2minmax, convert_kwargs and apply_scaling are symbolically '
                 'executed from their real ASTs over arrays of symbolic length (element-wise dialect; NaN-ignoring reductions as ghost values '
                 'with their defining facts): element-wise formulas for do / undo, NaN entries stay NaN and do not enter the derived shift / '
                 'interval, the derived interval contains all data and is at least min_range wide, all-NaN passthrough, errors for unknown '
                 'names / underivable parameters; order preservation, undo(do(x)) = x and the [0,1] image are lemmas over the element-wise '
                 'formulas.  step_scale (real AST; the step / scale lists have the concrete lengths 0..4 of the property\'s own quantifier, '
                 'their values and the value array are symbolic): refusal conditions exact (length mismatch, unsorted steps, unknown '
                 'mode), NaN-blind, element-wise equal to the piecewise-affine spec function, order-preserving (lemma: the spec function is '
                 'strictly increasing), continuous across every step edge and inverted by the opposite mode (lemmas over the spec '
                 'function, one per list length and mode).  The bounded run re-checks all modes natively.'),
    assumptions=[A_REAL, 'scale > 0 and span >= 1e-6 as in the property\'s quantifier', 'step lists of length 0..4 (the property\'s quantifier)'],
    not_decided=['floating-point error of undo(do(x)) (exact only in the reals)', 'step lists longer than 4 (outside the property\'s quantifier)'],
))


_add(PropertySpec(
    'C04', 'other',
    functions=['ampycloud.utils.utils.calc_base_height', 'ampycloud.wmo.height2code', 'ampycloud.data.CeiloChunk.metarize',
               'ampycloud.data.CeiloChunk._calculate_base_height_for_selection', 'ampycloud.data.CeiloChunk._calculate_sligrolay_base_height',
               'ampycloud.data.CeiloChunk._add_sligrolay_information'],
    lemmas=['cnt_frame', 'cnt_ext', 'prop.C02.nosig', 'prop.C18.h.floor', 'prop.C18.h.tight', 'prop.C18.h.mono', 'prop.C18.h.three_digits', 'fp.floor100', 'fp.floor1000', 'fmt03.digits', 'fmt03.value'],
    bounded=_bounded('c04'),
    explanation=('PROVED (P): calc_base_height (real AST; Python slice arithmetic incl. vals[-0:]) takes the configured percentile over '
                 'exactly the look-back tail of the values handed in, hence a value between their minimum and maximum; height2code is the '
                 'floor to 100 ft / 1000 ft (never upward, also for the computed quotient in the standard model of rounding: fp.* lemmas), '
                 'monotone, three digits; metarize (real AST) sorts the table by ascending base and writes code = abbr ++ floor code.  '
                 'PROVED (P, row dialect): _calculate_sligrolay_base_height (real AST, loop invariant + per-iteration obligations iter#0.*) '
                 'calls the base routine exactly once per table row, on the mask "member of this set", with the hits of the excluded '
                 'ceilometers left out iff more than MAX_HITS_OKTA0 other member hits remain in *this* set (count over this set: lemma '
                 'cnt_ext), and stores the returned value in that row; _calculate_base_height_for_selection hands calc_base_height the '
                 'configured look-back / percentile parameters unchanged and returns its result unchanged, which lies between two selected '
                 'hits.  ASSUMED (pinned expression contract, checked by B): the argument expression '
                 "self.data.sort_values('dt').loc[mask]['height'].values is the time-ordered heights of the selected hits.  "
                 'ASSUMED + BOUNDED (B): min / max / mean / std (pandas reductions) and a finite non-negative fluffiness (LOWESS): '
                 'recomputed natively on a scene grammar x percentile x look-back x exclusion subsets.'),
    assumptions=[A_REAL, A_FP, 'np.percentile / slicing contracts (pyvc/lib.py)',
                 'pandas row-frame contracts (pyvc/rows_model.py): column access, mask &, Series.apply / sum, .loc[row, col] =',
                 'pinned argument: sort_values(dt).loc[mask][height].values = time-ordered selected heights'],
    not_decided=['fluffiness finite (LOWESS numerics; bounded only)', 'time-ordering of the pinned selection expression (pandas; bounded only)'],
))

_add(PropertySpec(
    'C05', 'other',
    functions=['ampycloud.data.AbstractChunk._cleanup_pdf', 'ampycloud.data.CeiloChunk.find_slices', 'ampycloud.data.CeiloChunk._setup_sligrolay_pdf',
               'ampycloud.layer.ncomp_from_gmm', 'ampycloud.layer.best_gmm'],
    lemmas=['cnt_union', 'cnt_ext', 'cnt_mono', 'prop.C05.layer_ids_injective'],
    extras=[_fs.c05], bounded=_bounded('c05'),
    explanation=('PROVED (F): after construction no method writes any column of the private hit table other than slice_id / group_id / '
                 'layer_id (each stage only its own), nor replaces the table: no hit is created, lost or altered by the stages.  PROVED (P): '
                 'at construction exactly the hits above MSA+buffer are changed / removed (_cleanup_pdf, see C07).  PROVED (lemma): with the '
                 'id scheme offset+10*row+component (offset above every group id, component in 0..2) equal layer ids imply the same group '
                 'and component -- each layer lies inside exactly one group.  PROVED (P, row dialect): find_slices (real AST) gives every hit '
                 'with a valid height a slice id >= 0 and every non-detection -1, writes no other hit column, and hands each cluster label '
                 'back to the row it was computed from (the assignment mask is the clustered selection, so the lengths agree: no '
                 'ValueError); the labels themselves come from the assumed clustering contract (one label >= 0 per sample).  '
                 '_setup_sligrolay_pdf: one table row per set, cluster_id = set id.  PROVED (P, block contract): the re-merge pass of ncomp_from_gmm '
                 '(real statements from `base_comp_heights = ...` to the end; the mixture fit before it is replaced by an ASSUMED mid-condition) hands '
                 'back one label in 0..K-1 (K <= 3) per value and a component count equal to the number of distinct labels (the built-in '
                 'assert never fails).  PROVED (P, loop invariant): best_gmm in the default mode "delta" (one function of the prefix the block contract '
                 'assumes away) returns the index of one of the models scored (so K = ncomp[index] <= ncomp_max), never one whose score is NaN, and a '
                 'model other than the simplest one only for a score strictly below gain * the score of an earlier model; an unknown mode is '
                 "refused with AmpycloudError exactly when a second model is looked at (mode 'prob' / scores2nrl: not under contract).  "
                 'BOUNDED (B): the same clause for groups and layers (find_groups / '
                 'find_layers are not under a full-mode contract), that the tables list exactly the ids present, n_<which> and the k-components-k-layers '
                 'clause depend on scikit-learn labels and pandas fills; checked natively on the scene grammar.'),
    assumptions=[A_FRAME, 'clustering / mixture model return one label per sample, mixture labels in 0..2 (library contracts)',
                 'the id formula in find_layers is the one the lemma is about (obligation pin.layer_id_formula)'],
    not_decided=['coverage of all valid hits by cluster labels (library behaviour; bounded only)'],
))

def _fresh_star_param(fi, name):
    """*args / **kwargs are containers built for the call: writing their own slots (K[k] = v, K.pop(k)) changes nothing the caller
    holds.  True iff `name` is such a parameter and every store / mutating call rooted at it acts on the container itself."""
    import ast as _ast
    a = fi.node.args
    if name not in {x.arg for x in (a.vararg, a.kwarg) if x is not None}:
        return False
    for n in _ast.walk(fi.node):
        tgt = None
        if isinstance(n, (_ast.Subscript, _ast.Attribute)) and isinstance(n.ctx, (_ast.Store, _ast.Del)):
            tgt = n.value
        elif isinstance(n, _ast.Call) and isinstance(n.func, _ast.Attribute):
            tgt = n.func.value
        if tgt is None or isinstance(tgt, _ast.Name):
            continue
        root = tgt
        while isinstance(root, (_ast.Subscript, _ast.Attribute, _ast.Call)):
            root = root.func if isinstance(root, _ast.Call) else root.value
        if isinstance(root, _ast.Name) and root.id == name:
            return False                   # acts on something *inside* the container: may be shared with the caller
    return True


def _c06_frames(run=None):
    """what one group is decided with is what every group is decided with: the helpers the grouping / layering loops call leave the
    objects handed to them (parameter dictionaries, height arrays) unmodified -- the frame half of the loop contracts"""
    fc = _fs.FrameCheck()
    todo, seen = [f'{_fs.CH}.find_groups', f'{_fs.CH}.find_layers', f'{_fs.CH}._merge_close_groups'], set()
    while todo:
        q = todo.pop()
        if q in seen or q not in fc.an.summaries:
            continue
        seen.add(q)
        todo += sorted(fc.S(q).calls)
    for q in sorted(seen):
        if q.startswith((_fs.CH + '.', _fs.AC + '.')):
            continue                       # methods of the chunk: their writes to the chunk are the subject of C05 / C07
        s = fc.S(q)
        bad = sorted(w for w in s.writes if w.startswith('param:') and w != 'param:self' and not _fresh_star_param(fc.an.funcs[q], w[6:]))
        fc.ob(q, 'arguments_unmodified', not bad, f'writes {bad} at {[fc.sites(q, b) for b in bad]}')
        fc.ob(q, 'effects_known', not s.unknown, f'calls with unknown effect: {sorted(map(str, s.unknown))}', undecided=True)
    return fc


_add(PropertySpec(
    'C06', 'other',
    functions=['ampycloud.data.CeiloChunk._get_min_sep_for_height', 'ampycloud.utils.utils.calc_base_height',
               'ampycloud.data.CeiloChunk._calculate_base_height_for_selection', 'ampycloud.data.CeiloChunk._merge_close_groups',
               'ampycloud.layer.ncomp_from_gmm'],
    lemmas=['prop.C02.nosig', 'cnt_mono'],
    extras=[_c06_frames], bounded=_bounded('c06'),
    explanation=('PROVED (P): _get_min_sep_for_height returns the MIN_SEP_VALS entry of the height bin (left insertion point in the ascending '
                 'limits; lengths mismatch => AmpycloudError; index always in range); calc_base_height is the percentile of the look-back '
                 'tail of what it is given, and _calculate_base_height_for_selection -- the one routine used both when deciding a merge '
                 'and when reporting -- passes the configured parameters and the time-ordered selection of the mask it is given (so '
                 'decision-time and report-time bases agree whenever both hand in the same mask).  PROVED (P): _merge_close_groups (real AST, the while loop cut by an invariant, variant = number of rows): '
                 'the "too close" flags are always those of the *current* table (row k flagged iff base[k] - base[k-1] is below the minimum '
                 'separation looked up at base[k]); every iteration reassigns the hits of the first flagged group to the group below it '
                 '(one write, to group_id only), drops that row, and recomputes every base through the routine that also produces the '
                 'reported bases, for exactly the remaining group ids; the loop terminates (a row is dropped per iteration) and on exit '
                 'any two adjacent groups are at least the minimum separation of the upper one apart; row indices stay in range.  '
                 'PROVED (F): every helper reachable from find_groups / find_layers / _merge_close_groups outside the chunk class '
                 '(ncomp_from_gmm, best_gmm, calc_base_height, the scalers, clusterize ...) leaves its arguments unmodified, so the '
                 'base-height parameters and separations one group is decided with are those every later group is decided with.  '
                 'PROVED (P, block contract of ncomp_from_gmm: verified from `base_comp_heights = ...` to the end, for 2 and 3 components; the '
                 'scikit-learn fit before it is replaced by an ASSUMED mid-condition -- one label in 0..K-1 per value, every component '
                 'populated): every component base is the shared routine\'s result for the values of that component with the caller\'s '
                 'look-back and percentile, and if no sub-layer is re-merged any two component bases are at least min_sep apart; '
                 'counter-models are replayed by compiling the same real statements and running them in CPython.  '
                 'NOT UNDER CONTRACT: the mixture fit itself (scikit-learn), what find_layers hands to ncomp_from_gmm, and the carry-over from the merge table to the '
                 'reported table (same routine on the same hit assignment: A-DET): the separation of the bases finally reported is checked natively on scenes '
                 'built to straddle the separation bins, with rows ascending / descending / shuffled, look-back and exclusion (B).'),
    assumptions=[A_REAL, 'MIN_SEP_LIMS ascending (documented meaning)'],
    not_decided=['the mixture fit of ncomp_from_gmm and the arguments find_layers passes (bounded only)', 'equality of the merge table with the reported table (A-DET; bounded)'],
))

_add(PropertySpec(
    'C08', 'other',
    functions=['ampycloud.utils.utils.calc_base_height', 'ampycloud.data.CeiloChunk._get_min_sep_for_height',
               'ampycloud.data.CeiloChunk._calculate_cloud_amount', 'ampycloud.wmo.perc2okta', 'ampycloud.wmo.okta2code', 'ampycloud.wmo.height2code',
               'ampycloud.data.AbstractChunk._cleanup_pdf', 'ampycloud.data.CeiloChunk.metar_msg', 'ampycloud.icao.significant_cloud',
               'ampycloud.data.CeiloChunk.find_slices', 'ampycloud.data.CeiloChunk._merge_close_groups', 'ampycloud.data.CeiloChunk.metarize',
               'ampycloud.data.CeiloChunk._setup_sligrolay_pdf', 'ampycloud.data.CeiloChunk._calculate_sligrolay_base_height',
               'ampycloud.data.CeiloChunk._calculate_base_height_for_selection', 'ampycloud.data.CeiloChunk._add_sligrolay_information',
               'ampycloud.layer.ncomp_from_gmm', 'ampycloud.layer.best_gmm'],
    lemmas=['cnt_frame', 'cnt_mono', 'cnt_subset', 'cnt_union', 'cnt_ext', 'sig_le3', 'abbr_len', 'abbr_re', 'concat_re', 'code_grammar', 'fmt03.digits',
            'prop.C18.h.three_digits', 'prop.C02.nosig', 'prop.C18.h.mono'],
    extras=[_fs.c08], bounded=_bounded('c08'),
    explanation=('PROVED (syntactic): every raise statement in the package raises AmpycloudError and nothing is caught.  PROVED (P): in the '
                 'functions under full-mode contract every partial operation is safe and only the declared AmpycloudError can escape '
                 '(obligations safe.* and exc.unexpected.*): percentile of a non-empty tail, MIN_SEP_VALS index in range, division by the '
                 'number of measurements (>= 1), perc2okta argument in [0,100], okta2code applied to a Python int in 0..8 (never None + str), '
                 'row indices inside the tables, message assembly; in find_slices the cluster labels fit the rows they are written to (no '
                 'ValueError from a length mismatch); in the merge loop `idx - 1`, the dropped label and all cell reads are in range; in '
                 'metarize and its helpers every cell read is defined, every selection handed to the base routine is non-empty and holds valid '
                 'heights; in the re-merge pass of ncomp_from_gmm (block contract: verified from `base_comp_heights = ...` on, mixture fit replaced by '
                 'an assumed mid-condition) the component selections are non-empty, every index is in range and the built-in assert cannot fail '
                 '(no AssertionError).  NOT DECIDED: totality of scikit-learn / statsmodels / pandas internals and the stages not under full-mode '
                 'contract (find_groups / find_layers bodies): valid scenes x valid parameter sets are run natively (B).'),
    assumptions=[A_REAL, 'library preconditions as stated in pyvc/lib.py'],
    not_decided=['third-party code raises nothing under its stated preconditions', 'call-site preconditions inside find_groups / find_layers'],
))

_add(PropertySpec(
    'C10', 'other',
    functions=['ampycloud.data.AbstractChunk._cleanup_pdf'],
    lemmas=['cnt_union'],
    extras=[_fs.c10], bounded=_bounded('c10'),
    explanation=('PROVED (P): _cleanup_pdf is executed with the *true* label-based meaning of .loc[labels]= and drop(labels) over frames with '
                 'arbitrary (possibly repeated) index labels; because the private copy gets a fresh RangeIndex first, the per-row '
                 'postcondition holds for every labelling -- without that reset the obligation rows.kept_at_or_below_limit is refuted by a '
                 'two-row frame sharing a label.  PROVED (F): the hit table is never indexed by position in the chunk code, and its index is '
                 'normalised before the first label-based selection.  BOUNDED (B): equality of tables and message under 10 relabellings / '
                 'column layouts / dtype variants on the scene grammar (the later label-based writes in the stages are not under a '
                 'full-mode contract).'),
    assumptions=[A_FRAME, 'pandas astype is value-preserving for exactly representable values'],
    not_decided=['label-based writes inside find_slices / find_groups / find_layers (bounded only; they operate on the RangeIndex established at construction)'],
))

_add(PropertySpec(
    'C14', 'other',
    registry='typestate',
    functions=[f'ampycloud.data.CeiloChunk.{m}' for m in ('n_slices', 'n_groups', 'n_layers', '_get_cluster_ids', '_setup_sligrolay_pdf', 'metarize',
                                                           '_merge_close_groups', 'find_slices', 'find_groups', 'find_layers', 'metar_msg', '_ncd_or_nsc')],
    bounded=_bounded('c14'),
    explanation=('PROVED (S = skeleton mode of the same executor, real ASTs, callee by typestate contract): for every stage / query operation and '
                 'every typestate of a chunk (nothing / sliced / grouped / layered, with and without sets) the real body is executed on an '
                 'abstract chunk that tracks only which id columns and tables exist plus a ghost version per id column / table: AmpycloudError '
                 'is raised exactly when the prerequisite is missing or the call would discard the layering, and then *no* version has changed '
                 '(the refused call leaves every earlier result intact); otherwise the call completes having written only its own id column / '
                 'table (find_groups also the slices\' isolation flags, find_layers the groups\' ncomp) and the chunk is in the expected '
                 'typestate; the four typestates are closed under all ten operations, so the statement holds for call sequences of any '
                 'length.  That a permitted repetition reproduces identical *contents* follows from the stages reading only (_data, _prms) '
                 '(frame obligations of C07/C11) and determinism (A-DET) -- except the isolation flags, see the known finding.  BOUNDED (B): '
                 'all call sequences up to length 3 (thorough: 4) plus all two-step continuations of the canonical run on four scenes, '
                 'comparing tables, id columns and messages with the canonical run.'),
    assumptions=[A_FRAME, A_DET, 'A-PRMS: parameters keep their documented meaning (a helper refusing them would raise after a stage has started writing)',
                 'pure expressions without a model evaluate to opaque values (A-LIBPURE); untracked local objects (fresh tables, arrays) are not followed'],
    not_decided=['content-level idempotence beyond the typestate (bounded)'],
))

_add(PropertySpec(
    'C15', 'other',
    extras=[], bounded=_bounded('c15'),
    explanation='placeholder: replaced below once the screening contract is registered',
))

_add(PropertySpec(
    'C16', 'other',
    extras=[_fs.c16], bounded=_bounded('c16'),
    explanation=('PROVED (F, syntactic flow): in the processing path every use of ceilometer names (the ceilo column, CeiloChunk.ceilos, the '
                 'exclusion list and loop variables ranging over them) is an equality / membership test, np.unique for iteration, isin, an '
                 'equality-join key (merge / duplicated), a column-name list or message text; names never reach sort keys, ordering '
                 'comparisons, string operations or the clustering input.  Since per-ceilometer counts are exact integers that are summed, '
                 'their iteration order is irrelevant.  BOUNDED (B): three bijective renamings per scene (order-reversing, names that sort '
                 'differently as strings, random), exclusion list mapped, look-back varied; tables, per-hit assignments and message compared '
                 'bit for bit.'),
    assumptions=[A_FRAME, A_DET],
    not_decided=['a semantic (rather than syntactic) proof that every postcondition is invariant under renaming'],
))


def _c15_frames(run=None):
    fc = _fs.FrameCheck()
    s = fc.S('ampycloud.utils.utils.check_data_consistency')
    fc.ob(s.qualname, 'argument_never_written', 'param:pdf' not in s.writes, str(fc.sites(s.qualname, 'param:pdf')))
    fc.ob(s.qualname, 'result_is_fresh', not [av for av in s.ret if av[0] in ('R', 'S') and av[1].startswith('param:pdf')], str(sorted(s.ret, key=repr)))
    fc.ob(s.qualname, 'no_module_state_written', not [w for w in s.writes if w.startswith('global:')], str(sorted(s.writes)))
    return fc


SPECS['C15'] = PropertySpec(
    'C15', 'proof',
    functions=['ampycloud.utils.utils.check_data_consistency'],
    extras=[_c15_frames], bounded=_bounded('c15'),
    explanation=('check_data_consistency is executed from its real AST (skeleton mode) on an abstract input frame: not a DataFrame / frame with a '
                 'symbolic number of rows, any one required column missing, a superfluous column present or not, each required column with '
                 'or without the required dtype (patterns: all, none, mixed; thorough: every combination), raw and coerced cell values as '
                 'uninterpreted values with one coercion function per column.  Obligations: AmpycloudError is raised exactly when the input is '
                 'not a DataFrame, has no rows, lacks a required column, has two rows equal in the four required columns *after coercion*, or '
                 'has a (dt, ceilo) carrying both a type-0 and a non-0 row, or both a VV and a non-VV row (so coincidences on different '
                 'ceilometers are accepted); otherwise a fresh frame with exactly the four columns, the required dtypes, the same number of '
                 'rows and the coerced input values is returned; the argument object is never written (also a frame obligation); an already '
                 'conforming frame triggers no column / dtype warning and comes back with identical values; the five sanity checks are '
                 'warning-only (no raise reachable behind them).'),
    assumptions=[A_FRAME, 'assumed pandas contracts of the input-frame dialect (pyvc/inframe_model.py): deepcopy, astype, drop, duplicated, inner merge',
                 'dt values are not NaN (an inner merge would match NaN keys)', 'hardcoded.REQ_DATA_COLS is the documented dictionary (pinned by its source text)'],
)


# ---- bounded companions of the `proof` properties: native oracles written from the property text.  They are not needed for the
# ---- proofs; they decide (with a concrete failing input) when a change moves the code outside the verified dialect, and they
# ---- exercise the assumed library contracts on real runs.
def _b_c02(run):
    from bounded import c01
    return c01.bounded_c02(run)


SPECS['C01'].bounded = _bounded('c01')
SPECS['C02'].bounded = _b_c02
SPECS['C17'].bounded = _bounded('c17')
SPECS['C18'].bounded = _bounded('c18')
for _pid, _txt in (('C01', 'BOUNDED (B) companion: on a scene grammar (incl. sparse multi-hit decks and high second hits) x parameter variants the '
                           'message of a real run is compared with an independent reading of the listed sets (oktas recounted from the hits, '
                           '1-3-5 selection re-derived, MSA applied).'),
                   ('C02', 'PROVED (P) in the same check: the meaning of the high-cloud flag (_cleanup_pdf: raised exactly when more than '
                           'MAX_HITS_OKTA0 hits lie above MSA + buffer, type >= 2 hits included).  BOUNDED (B) companion as for C01 (lowest set '
                           'first, ceiling kept, NCD / NSC from the recounted hits above the limit).'),
                   ('C17', 'BOUNDED (B) companion: all okta sequences up to length 4 (thorough 6) + sampled longer ones against an independent '
                           'statement of the rule, incl. prefix independence.'),
                   ('C18', 'BOUNDED (B) companion: perc2okta for all n/m up to m = 400 (thorough 3000) against exact rational arithmetic, okta2code '
                           'on -12..12 and non-integers, height2code on a grid plus the floating-point neighbours of every coding boundary.')):
    SPECS[_pid].explanation = SPECS[_pid].explanation + '  ' + _txt
