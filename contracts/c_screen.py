"""Contract of ampycloud.utils.utils.check_data_consistency (C15), verified in skeleton mode on an abstract input frame."""
import z3
from pyvc import smt
from pyvc.contracts import Contract, Spec, Const
from pyvc.smt import And, Or, Not, Implies, Forall, Exists, lift
from pyvc.values import Opaque
from pyvc.inframe_model import SInFrame, DType, REQ, Val, coerce, as_type

Q = 'ampycloud.utils.utils.check_data_consistency'
REQ_SRC = "{'ceilo': StringDtype(), 'dt': float, 'height': float, 'type': int}"


def req_dict():
    return {c: DType(c) for c in REQ}


class InFrame(Spec):
    def __init__(self, missing=None, extra=False, all_ok=False, pattern=None):
        self.missing, self.extra, self.all_ok = missing, extra, all_ok
        #: which columns already carry the required dtype: 'ok' all, 'none', 'mixed' (ceilo and type need the cast), 'symbolic'
        self.pattern = pattern or ('ok' if all_ok else 'symbolic')

    def make(self, name, ctx):
        n = z3.Int('n_rows')
        ctx.assume(n >= 0)
        ctx.len_vars.append(n)
        present = [c for c in ('ceilo', 'dt', 'height', 'type') if c != self.missing]
        pat = {'ok': lambda c: z3.BoolVal(True), 'none': lambda c: z3.BoolVal(False),
               'mixed': lambda c: z3.BoolVal(c in ('dt', 'height')), 'symbolic': lambda c: z3.Bool(f'dtype_ok_{c}')}[self.pattern]
        ok = {c: pat(c) for c in present}
        raw = {c: z3.Array(f'raw_{c}', z3.IntSort(), Val) for c in present}
        fr = SInFrame(n, present, self.extra, ok, raw, z3.Array('raw_EXTRA', z3.IntSort(), Val))
        # a column that already has the required dtype is not changed by the cast
        for c in present:
            ctx.assume(Forall(0, n, lambda i, c=c: Implies(ok[c], coerce[c](raw[c][i]) == raw[c][i]), name='id'))
        ctx.extractors['frame'] = lambda m: {'rows': smt.z3val_to_py(m.eval(n, model_completion=True)), 'missing': self.missing, 'extra_column': self.extra,
                                             'dtype_ok': {c: smt.z3val_to_py(m.eval(ok[c], model_completion=True)) for c in present}}
        return fr

    def describe(self):
        return f'input frame(missing={self.missing}, extra column={self.extra}, dtypes as required: {self.pattern})'


def _final(pdf):
    """coerced values of the required columns (what the documented conditions are about)"""
    return {c: (lambda i, c=c: coerce[c](pdf.raw[c][i])) for c in pdf.raw}


def _doc_conditions(pdf):
    n = pdf.n
    F = _final(pdf)
    cols = [c for c in REQ if c in F]

    def dup(i, k):
        return And([F[c](i) == F[c](k) for c in cols])

    def coincide(ht, i, k):     # row i has type != ht, row k has type == ht, same (dt, ceilo)
        return And(as_type(F['type'](i)) != ht, as_type(F['type'](k)) == ht, F['dt'](i) == F['dt'](k), F['ceilo'](i) == F['ceilo'](k))
    return n, cols, dup, coincide


def _raises(pdf, req_cols=None):
    if not isinstance(pdf, SInFrame):
        if isinstance(pdf, Opaque) and pdf.what == 'not a DataFrame':
            return True
        return z3.Bool('input_refused')           # modular use at the call site in _cleanup_pdf: the caller cannot tell
    if len(pdf.raw) < 4:
        return True                               # a required column is missing (or no rows: checked first)
    n, cols, dup, coincide = _doc_conditions(pdf)
    g = smt.CURRENT_CTX.ghost
    # exactly: empty, duplicated rows (after coercion, required columns only), 0 / non-0 or VV / non-VV on one (ceilo, dt)
    w = [smt.fresh_int('cw') for _ in range(6)]
    key = ('doc_cond', id(pdf))
    if key not in g:
        b = smt.fresh_bool('documented_refusal')
        ctx = smt.CURRENT_CTX
        ex = Or(n == 0,
                And(0 <= w[0], w[0] < w[1], w[1] < n, dup(w[0], w[1])),
                And(0 <= w[2], w[2] < n, 0 <= w[3], w[3] < n, coincide(0, w[2], w[3])),
                And(0 <= w[4], w[4] < n, 0 <= w[5], w[5] < n, coincide(-1, w[4], w[5])))
        ctx.assume(Implies(b, ex))
        ctx.assume(Forall(0, n, lambda i, k: Implies(And(Not(b), n > 0), And(
            Implies(i < k, Not(dup(i, k))), Not(coincide(0, i, k)), Not(coincide(0, k, i)), Not(coincide(-1, i, k)), Not(coincide(-1, k, i)))),
            arity=2, name='dc'))
        ctx.assume(Implies(Not(b), n > 0))
        for a_, b_ in ((w[0], w[1]), (w[2], w[3]), (w[4], w[5])):
            ctx.hint_pair(a_, b_)
        g[key] = b
    return g[key]


def _post(result, pdf, req_cols=None):
    if not isinstance(pdf, SInFrame):
        return {}
    out = {
        'fresh_frame': isinstance(result, SInFrame) and result is not pdf and result.is_copy,
        'argument_untouched': pdf.writes == 0 and pdf.present == [c for c in ('ceilo', 'dt', 'height', 'type') if c in pdf.raw],
    }
    if not isinstance(result, SInFrame):
        return out
    out['exactly_the_required_columns'] = sorted(result.columns_now()) == sorted(REQ)
    out['required_dtypes'] = And([result.ok[c] for c in REQ if c in result.ok])
    out['same_rows'] = result.n == pdf.n
    out['values_are_the_coerced_input'] = And([Forall(0, pdf.n, lambda i, c=c: result.cur[c][i] == coerce[c](pdf.raw[c][i])) for c in REQ if c in result.cur])
    # already conforming input: no warning about columns or dtypes (idempotence), values identical
    warns = [e for e in smt.CURRENT_CTX.effects if e[0] == 'WARN' and 'Column' in str(e[1])]
    conforming = (not pdf.extra) and all(z3.is_true(z3.simplify(pdf.ok[c])) for c in pdf.ok)
    if conforming:
        out['already_checked.no_column_or_dtype_warning'] = not warns
        out['already_checked.values_unchanged'] = And([Forall(0, pdf.n, lambda i, c=c: result.cur[c][i] == pdf.raw[c][i]) for c in REQ if c in result.cur])
    return out


def register(reg):
    reg.module_constants['ampycloud.hardcoded.REQ_DATA_COLS'] = (REQ_SRC, req_dict)
    cases = [('not a DataFrame', {'pdf': Const(Opaque('not a DataFrame')), 'req_cols': Const(None)})]
    import os
    for missing in ('ceilo', 'dt', 'height', 'type'):
        cases.append((f'missing={missing}', {'pdf': InFrame(missing, missing in ('dt', 'type'), pattern='mixed'), 'req_cols': Custom_req()}))
    for extra in (False, True):
        for pattern in ('ok', 'none', 'mixed'):
            cases.append((f'extra={extra},dtypes={pattern}', {'pdf': InFrame(None, extra, pattern=pattern), 'req_cols': Custom_req()}))
    if os.environ.get('VERIF_TIER_ACTIVE') == 'thorough':
        # every combination of right / wrong dtypes at once (16 x more paths)
        cases.append(('extra=True,dtypes=symbolic', {'pdf': InFrame(None, True, pattern='symbolic'), 'req_cols': Custom_req()}))
    cases.append(('default req_cols', {'pdf': InFrame(None, True, pattern='mixed'), 'req_cols': Const(None)}))
    cases.append(('already checked', {'pdf': InFrame(None, False, all_ok=True), 'req_cols': Const(None)}))
    old = reg.get(Q)
    reg.add(Contract(
        Q, properties=('C15', 'C07', 'C10'), skeleton=True,
        cases=cases,
        raises={'AmpycloudError': _raises},
        ensures=_post,
        result=old.result if old is not None else None,
        canaries={'never_coerces': lambda result, pdf, req_cols=None: (not isinstance(result, SInFrame)) or all(not v for v in result.coerced.values())},
        notes='skeleton mode: the five warning-only sanity checks are opaque conditions guarding warnings only'))


class Custom_req(Spec):
    def make(self, name, ctx):
        return req_dict()

    def describe(self):
        return 'the required columns / dtypes dictionary'
