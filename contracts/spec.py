"""contracts.spec -- pure, total specification vocabulary (dual use: z3 terms during verification, Python values
during replay).  Definitions here are taken from the *property statements*, not from the code."""
from __future__ import annotations
from fractions import Fraction
import math

import z3

from pyvc import smt
from pyvc.smt import And, Or, Not, Implies, Iff, If, Forall, Exists, is_sym, lift
from pyvc.values import SList, SFloat, cnt as _cnt, real_floor, real_ceil, real_round_half_even
from pyvc.contracts import NList, NF
from pyvc.engine import fmt03 as _fmt03_sym


def ln(x):
    """length of a list-like (SList / SArr / NList / list)"""
    if hasattr(x, 'len'):
        return x.len
    if hasattr(x, 'n'):
        return x.n
    return len(x)


def count_true(b, j):
    """number of True among b[0..j)"""
    if isinstance(b, SList):
        ctx = getattr(smt, 'CURRENT_CTX', None)
        if ctx is not None:
            ctx.note_cnt(b.arr)
        return _cnt(b.arr, lift(j))
    if hasattr(b, 'materialize') and getattr(b, 'arr', None) is None:
        b.materialize(getattr(smt, 'CURRENT_CTX', None), 'mat')
    if hasattr(b, 'arr') and b.arr is not None and not isinstance(b, NList):
        ctx = getattr(smt, 'CURRENT_CTX', None)
        if ctx is not None:
            ctx.note_cnt(b.arr)
        return _cnt(b.arr, lift(j))
    if is_sym(b):      # a raw z3 bool array
        ctx = getattr(smt, 'CURRENT_CTX', None)
        if ctx is not None:
            ctx.note_cnt(b)
        return _cnt(b, lift(j))
    xs = b.xs if isinstance(b, NList) else list(b)
    return sum(1 for x in xs[:int(j)] if x)


def sig_rule(okta_j, c):
    """ICAO 1-3-5: a layer is significant iff fewer than three layers below it were flagged (c < 3) and its okta
    is at least 1, 3, 5 for the first, second, third flag, i.e. >= 1 + 2c."""
    return And(c < 3, okta_j >= 1 + 2 * c)


def SigRel(okta, sig, n=None, atom=None):
    n = ln(okta) if n is None else n
    return Forall(0, n, lambda j: Iff(sig[j], sig_rule(okta[j], count_true(sig, j))), atom=atom)


# ---- WMO okta abbreviation ---------------------------------------------------------------------

def abbr(o):
    """0 -> NCD, 1-2 -> FEW, 3-4 -> SCT, 5-7 -> BKN, 8 -> OVC (defined for 0..8)"""
    if is_sym(o):
        S = z3.StringVal
        return z3.If(o == 0, S('NCD'), z3.If(o <= 2, S('FEW'), z3.If(o <= 4, S('SCT'), z3.If(o <= 7, S('BKN'), S('OVC')))))
    return 'NCD' if o == 0 else 'FEW' if o <= 2 else 'SCT' if o <= 4 else 'BKN' if o <= 7 else 'OVC'


# ---- height coding -----------------------------------------------------------------------------

def _rv(x):
    """real value of a float-like view (SFloat.v / NF.v / plain number)"""
    if hasattr(x, 'v'):
        return x.v
    if isinstance(x, float):
        return Fraction(x)
    return x


def _isnan(x):
    if hasattr(x, 'nan'):
        return x.nan
    if isinstance(x, float):
        return math.isnan(x)
    return False


def floor_(x):
    if is_sym(x):
        return real_floor(x) if x.sort() == z3.RealSort() else x
    return math.floor(x)


def ceil_(x):
    if is_sym(x):
        return real_ceil(x) if x.sort() == z3.RealSort() else x
    return math.ceil(x)


def round_half_even(x):
    if is_sym(x):
        return real_round_half_even(x)
    f = math.floor(x)
    d = Fraction(x) - f
    if d < Fraction(1, 2):
        return f
    if d > Fraction(1, 2):
        return f + 1
    return f if f % 2 == 0 else f + 1


def hnum(v):
    """number coded for a (non-NaN) height v in ft: hundreds of feet floored, thousands above 10000 ft"""
    v = _rv(v)
    if is_sym(v):
        v = lift(v, z3.RealSort())
        return z3.If(v <= 10000, real_floor(v / 100), 10 * real_floor(v / 1000))
    v = Fraction(v)
    return math.floor(v / 100) if v <= 10000 else 10 * math.floor(v / 1000)


def fmt03(n):
    if is_sym(n):
        return _fmt03_sym(n)
    return format(int(n), '03')


def hcode(h):
    """three-digit height code of a height h (float view); '' for NaN"""
    if is_sym(_isnan(h)) or is_sym(_rv(h)):
        return z3.If(lift(_isnan(h)), z3.StringVal(''), fmt03(hnum(h)))
    return '' if _isnan(h) else fmt03(hnum(h))


# ---- percentage to okta ------------------------------------------------------------------------

def clip(x, lo, hi):
    return If(x < lo, lo, If(x > hi, hi, x))


def p2o(v):
    """okta of a sky coverage percentage v in [0, 100] (property C18): 0 iff v = 0, 8 iff v = 100, otherwise the
    nearest okta (ties to even) clipped to 1..7"""
    v = _rv(v)
    if is_sym(v):
        v = lift(v, z3.RealSort())
        return z3.If(v == 0, 0, z3.If(v == 100, 8, clip(real_round_half_even(v * 8 / 100), 1, 7)))
    v = Fraction(v)
    if v == 0:
        return 0
    if v == 100:
        return 8
    return clip(round_half_even(v * 8 / 100), 1, 7)


def okta_of(n, m, max0, max8):
    """okta of a set with n of m possible measurements (property C03)"""
    if any(is_sym(x) for x in (n, m, max0, max8)):
        n_r = z3.ToReal(lift(n)) if lift(n).sort() == z3.IntSort() else n
        m_r = z3.ToReal(lift(m)) if lift(m).sort() == z3.IntSort() else m
        return z3.If(lift(n) <= lift(max0), 0, z3.If(lift(m) - lift(n) <= lift(max8), 8, p2o(n_r / m_r * 100)))
    if n <= max0:
        return 0
    if m - n <= max8:
        return 8
    return p2o(Fraction(n, m) * 100)


# ---- opaque versions of the code text (reveal only where the text itself matters) --------------------
#: abbrF / hcodeF are uninterpreted; `reveal_code` gives their definitions at chosen terms.  Obligations that only
#: need "a code is a non-empty string" never see the string definitions (keeps them out of the string solver).
abbrF = z3.Function('abbrF', z3.IntSort(), z3.StringSort())
hcodeF = z3.Function('hcodeF', z3.BoolSort(), z3.RealSort(), z3.StringSort())


def code_text(okta_i, base_i):
    """abbr(okta) ++ hcode(base), opaque form"""
    return z3.Concat(abbrF(okta_i), hcodeF(lift(_isnan(base_i)), lift(_rv(base_i), z3.RealSort())))


def reveal_code(okta_i, base_i):
    """definitions of the opaque code text at one row"""
    return [abbrF(okta_i) == abbr(okta_i),
            hcodeF(lift(_isnan(base_i)), lift(_rv(base_i), z3.RealSort())) == hcode(base_i)]


def abbr_len_fact(okta_i):
    """instance of the proved lemma `abbr_len` (every abbreviation has three characters)"""
    return z3.Length(abbrF(okta_i)) == 3
