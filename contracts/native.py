"""Native replay adapters / independent oracles (plain Python, written from the property text) for functions whose
symbolic inputs are abstract objects (chunk + table)."""
import math
import re
import warnings


def _mk_chunk(n_sets, which, msa, flag, buf=None):
    import numpy as np
    import pandas as pd
    from ampycloud.data import CeiloChunk
    rows = max(n_sets, 1)
    data = pd.DataFrame({'ceilo': ['A'] * rows, 'dt': [-float(i) for i in range(rows)],
                         'height': [1000.0 + i for i in range(rows)] if n_sets else [np.nan],
                         'type': [1] * rows if n_sets else [0]})
    data['ceilo'] = data['ceilo'].astype(pd.StringDtype())
    with warnings.catch_warnings():
        warnings.simplefilter('ignore')
        chunk = CeiloChunk(data, prms={'MSA': msa})
    if buf is not None:
        chunk.prms['MSA_HIT_BUFFER'] = float(buf)       # (set after construction: the cropping of the dummy hits is not what is replayed)
    chunk._clouds_above_msa_buffer = bool(flag)
    chunk.data[which[:-1] + '_id'] = list(range(n_sets)) if n_sets else [-1]
    return chunk


MSG = re.compile(r'^(FEW|SCT|BKN|OVC)\d{3}( (FEW|SCT|BKN|OVC)\d{3}){0,2}$')


def metar_msg_oracle(T=None, msa=None, flag=False, which='layers', msa_hit_buffer=None, **_):
    """run the real metar_msg on a real chunk carrying the table T (list of row dicts) and compare with the message
    the property text prescribes for a table satisfying the table invariant."""
    import pandas as pd
    if T is None:
        chunk = _mk_chunk(0, which, msa, flag)
        try:
            chunk.metar_msg(which)
            return ('return', None), ['exc.AmpycloudError.if']
        except Exception as e:
            ok = type(e).__name__ == 'AmpycloudError'
            return ('raise', type(e).__name__), ([] if ok else [f'exc.unexpected.{type(e).__name__}'])
    msa = None if msa is None else float(msa)
    n = len(T)
    chunk = _mk_chunk(n, which, msa, flag, msa_hit_buffer)
    tab = pd.DataFrame({'okta': [int(r['okta']) for r in T], 'height_base': [float(r['height_base']) for r in T],
                        'code': [str(r['code']) for r in T], 'significant': [bool(r['significant']) for r in T]},
                       columns=['okta', 'height_base', 'code', 'significant'])
    setattr(chunk, '_' + which, tab)
    try:
        msg = chunk.metar_msg(which)
    except Exception as e:
        return ('raise', type(e).__name__, str(e)[:200]), [f'exc.unexpected.{type(e).__name__}']
    below = [(msa is None) or (float(r['height_base']) < msa) for r in T]
    rep = [r for r, b in zip(T, below) if r['significant'] and b]
    failed = []
    if rep:
        if msg != ' '.join(r['code'] for r in rep):
            failed.append('post.C02.groups_are_codes / C01.reported_rows')
    else:
        cloud_above = any(r['significant'] and not b for r, b in zip(T, below))
        exp = 'NSC' if (cloud_above or flag) else 'NCD'
        if msg != exp:
            failed.append(f'post.C02.nsc_ncd (expected {exp})')
    if msg not in ('NCD', 'NSC') and not MSG.match(msg):
        failed.append('post.C01.grammar')
    return ('return', msg), failed


def tmp_seed_oracle(seed=42, **_):
    """real tmp_seed on an advanced global generator: the state must be restored when the body completes and when it raises"""
    import numpy as np
    from ampycloud.utils import utils
    failed = []
    saved = np.random.get_state()
    try:
        np.random.seed(4242)
        np.random.random(5)
        s0 = np.random.get_state()
        with utils.tmp_seed(int(seed)):
            np.random.random(3)
        s1 = np.random.get_state()
        if not (s0[0] == s1[0] and np.array_equal(s0[1], s1[1]) and s0[2:] == s1[2:]):
            failed.append('post.restore')
        np.random.set_state(s0)
        try:
            with utils.tmp_seed(int(seed)):
                raise KeyError('body raises')
        except KeyError:
            pass
        s2 = np.random.get_state()
        if not (s0[0] == s2[0] and np.array_equal(s0[1], s2[1]) and s0[2:] == s2[2:]):
            failed.append('post@raise.BodyException.restore')
    finally:
        np.random.set_state(saved)
    return ('return', None), failed


def cleanup_oracle(rows=None, MSA=None, MSA_HIT_BUFFER=1500, MAX_HITS_OKTA0=3, **_):
    """build the frame described by the counter-model (index labels included), construct a real chunk and compare its data
    row by row with what the property prescribes for the cropping above MSA + MSA_HIT_BUFFER"""
    import numpy as np
    import pandas as pd
    from ampycloud.data import CeiloChunk
    rows = rows or []
    if not rows:
        return ('precondition-false',), []
    df = pd.DataFrame({'ceilo': [str(r.get('ceilo', 'A')) for r in rows], 'dt': [float(r['dt']) for r in rows],
                       'height': [float(r['height']) for r in rows], 'type': [int(r['type']) for r in rows]},
                      index=[r.get('label', i) for i, r in enumerate(rows)])
    df['ceilo'] = df['ceilo'].astype(pd.StringDtype())
    prms = {'MSA': None if MSA is None else float(MSA), 'MSA_HIT_BUFFER': float(MSA_HIT_BUFFER), 'MAX_HITS_OKTA0': int(MAX_HITS_OKTA0)}
    try:
        with warnings.catch_warnings():
            warnings.simplefilter('ignore')
            chunk = CeiloChunk(df, prms=prms)
    except Exception as e:
        if type(e).__name__ == 'AmpycloudError':
            return ('precondition-false',), []
        return ('raise', type(e).__name__, str(e)[:200]), [f'exc.unexpected.{type(e).__name__}']
    out = chunk.data
    failed = []
    exp = []
    n_above = 0
    for r in rows:
        h, t = float(r['height']), int(r['type'])
        above = MSA is not None and not math.isnan(h) and h > float(MSA) + float(MSA_HIT_BUFFER)
        n_above += above
        if not above:
            exp.append((float(r['dt']), t, h))
        elif t <= 1:
            exp.append((float(r['dt']), 0, float('nan')))
    got = [(float(a), int(b), float(c)) for a, b, c in zip(out['dt'], out['type'], out['height'])]
    same = len(got) == len(exp) and all(g[0] == e[0] and g[1] == e[1] and (g[2] == e[2] or (math.isnan(g[2]) and math.isnan(e[2])))
                                        for g, e in zip(got, exp))
    if not same:
        failed.append('post.rows')
    want_flag = MSA is not None and n_above > int(MAX_HITS_OKTA0)
    if bool(chunk.clouds_above_msa_buffer) != want_flag:
        failed.append('post.flag')
    return ('return', {'rows_out': got[:8], 'flag': bool(chunk.clouds_above_msa_buffer)}), failed


def ncomp_suffix_oracle(vals_orig=None, best_ids_raw=None, min_sep=0, layer_base_params=None, ncomp_max=3, **_):
    """replay of the block contract of ncomp_from_gmm: the *real statements* of the function from `base_comp_heights = [...]` to its
    end are compiled from the source under verification and run by CPython in the namespace of the real module, on the mid-state
    the counter-model describes; the clauses of C06 / C05 are then evaluated on what they return"""
    import ast
    import importlib
    import itertools
    import warnings
    import numpy as np
    from pyvc import source
    layer = importlib.import_module('ampycloud.layer')
    utils = importlib.import_module('ampycloud.utils.utils')
    ids = [int(v) for v in (best_ids_raw or [])]
    hs = [float(v) for v in (vals_orig or [])][:len(ids)]
    ids = ids[:len(hs)]
    K = (max(ids) + 1) if ids else 0
    if K < 2 or K > int(ncomp_max) or set(ids) != set(range(K)) or not layer_base_params:
        return ('precondition-false',), []
    tree = ast.parse(open(layer.__file__).read())
    fn = next(n for n in tree.body if isinstance(n, ast.FunctionDef) and n.name == 'ncomp_from_gmm')
    k = next((j for j, st in enumerate(fn.body) if isinstance(st, ast.Assign) and any(
        isinstance(t, ast.Name) and t.id == 'base_comp_heights' for t in st.targets)), None)
    if k is None:
        return ('precondition-false',), []
    names = ['vals_orig', 'best_ids', 'ncomp', 'best_model_ind', 'best_ncomp', 'abics', 'min_sep', 'layer_base_params']
    suffix = ast.FunctionDef(name='__suffix__', args=ast.arguments(posonlyargs=[], args=[ast.arg(arg=a) for a in names], kwonlyargs=[],
                                                                  kw_defaults=[], defaults=[]), body=fn.body[k:], decorator_list=[], type_params=[])
    mod = ast.Module(body=[suffix], type_ignores=[])
    ast.fix_missing_locations(mod)
    ns = dict(vars(layer))
    exec(compile(mod, layer.__file__, 'exec'), ns)
    vo = np.array(hs, dtype=float).reshape(-1, 1)
    lbp = {kk: int(v) for kk, v in layer_base_params.items()}
    failed = []
    try:
        with warnings.catch_warnings():
            warnings.simplefilter('ignore')
            n_out, ids_out, _ = ns['__suffix__'](vo.copy(), np.array(ids), np.arange(1, int(ncomp_max) + 1), K - 1, K,
                                                 np.zeros(int(ncomp_max)), float(min_sep), dict(lbp))
    except AssertionError as e:
        return ('raise', 'AssertionError', str(e)[:100]), ['assert.line_in_body']
    except Exception as e:  # noqa
        return ('raise', type(e).__name__, str(e)[:100]), ['exc.unexpected']
    bases = [float(utils.calc_base_height(vo[np.array(ids) == c].flatten(), lbp['lookback_perc'], lbp['height_perc'])) for c in range(K)]
    if int(n_out) == K and any(abs(a - b) < float(min_sep) for a, b in itertools.combinations(bases, 2)):
        failed.append('post.C06.no_remerge_implies_separated')
    ids_out = np.asarray(ids_out).ravel()
    if len(ids_out) != len(ids) or not all(0 <= int(v) < K for v in ids_out):
        failed.append('post.C05.one_label_in_0_to_K_minus_1_per_value')
    if int(n_out) != len(set(int(v) for v in ids_out)):
        failed.append('post.C05.number_returned_is_number_of_distinct_labels')
    return ('return', {'ncomp': int(n_out), 'ids': [int(v) for v in ids_out], 'bases': bases}), failed
