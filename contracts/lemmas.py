"""Lemmas about the spec vocabulary, each proved by the solver from explicit hypotheses (induction = base + step
with the induction hypothesis written out).  Proved lemmas are used as hand-instantiated hypotheses elsewhere."""
import z3
from pyvc.contracts import Lemma
from pyvc.values import cnt, cnt_def, BoolArr


def _cnt_frame_base():
    a = z3.Const('a', BoolArr); n = z3.Int('n'); v = z3.Bool('v')
    a2 = z3.Store(a, n, v)
    return [cnt_def(a2, z3.IntVal(0)), cnt_def(a, z3.IntVal(0)), n >= 0], cnt(a2, 0) == cnt(a, 0)


def _cnt_frame_step():
    a = z3.Const('a', BoolArr); n = z3.Int('n'); v = z3.Bool('v'); k = z3.Int('k')
    a2 = z3.Store(a, n, v)
    # IH at k, k < n  =>  holds at k+1
    return [k >= 0, k < n, cnt(a2, k) == cnt(a, k), cnt_def(a2, k), cnt_def(a, k)], cnt(a2, k + 1) == cnt(a, k + 1)


def register(reg):
    reg.add_lemma(Lemma('cnt_frame', base=_cnt_frame_base, step=_cnt_frame_step,
                        doc='0 <= k <= n  =>  cnt(store(a, n, v), k) == cnt(a, k)   (induction on k)',
                        properties=('C17', 'C01', 'C02')))
