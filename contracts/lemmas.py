"""Lemmas about the spec vocabulary, each proved by the solver from explicit hypotheses (induction = base + step
with the induction hypothesis written out).  Proved lemmas are used as hand-instantiated hypotheses elsewhere."""
import z3
from pyvc.contracts import Lemma
from pyvc.values import cnt, cnt_def, BoolArr


def _cnt_frame_base():
    a = z3.Const('a', BoolArr); n = z3.Int('n'); v = z3.Bool('v')
    a2 = z3.Store(a, n, v)
    return [cnt_def(a2, z3.IntVal(0)), cnt_def(a, z3.IntVal(0)), n >= 0], cnt(a2, 0) == cnt(a, 0)


def _cnt_frame_step():
    a = z3.Const('a', BoolArr); n = z3.Int('n'); v = z3.Bool('v'); k = z3.Int('k')
    a2 = z3.Store(a, n, v)
    # IH at k, k < n  =>  holds at k+1
    return [k >= 0, k < n, cnt(a2, k) == cnt(a, k), cnt_def(a2, k), cnt_def(a, k)], cnt(a2, k + 1) == cnt(a, k + 1)


def register(reg):
    reg.add_lemma(Lemma('cnt_frame', base=_cnt_frame_base, step=_cnt_frame_step,
                        doc='0 <= k <= n  =>  cnt(store(a, n, v), k) == cnt(a, k)   (induction on k)',
                        properties=('C17', 'C01', 'C02')))


# ---------------------------------------------------------------------------------------------
# C17: flags of a prefix never depend on the layers above it
# ---------------------------------------------------------------------------------------------
from pyvc.smt import And, Or, Not, Implies, Iff
from .spec import sig_rule, p2o, hnum, fmt03, okta_of, abbr

IntArr = z3.ArraySort(z3.IntSort(), z3.IntSort())


def _sig_inst(o, r, j):
    return r[j] == sig_rule(o[j], cnt(r, j))


def _prefix_base():
    r, r2 = z3.Const('r', BoolArr), z3.Const('r2', BoolArr)
    return [cnt_def(r, z3.IntVal(0)), cnt_def(r2, z3.IntVal(0))], cnt(r, 0) == cnt(r2, 0)


def _prefix_step():
    """IH: counts agree at j (and flags agree below j);  j < p <= min(n, n'), oktas agree at j, both results satisfy
    SigRel at j  =>  flags agree at j and counts agree at j+1."""
    o, o2 = z3.Const('o', IntArr), z3.Const('o2', IntArr)
    r, r2 = z3.Const('r', BoolArr), z3.Const('r2', BoolArr)
    j, p, n, n2 = z3.Ints('j p n n2')
    hy = [0 <= j, j < p, p <= n, p <= n2, o[j] == o2[j], cnt(r, j) == cnt(r2, j),
          _sig_inst(o, r, j), _sig_inst(o2, r2, j), cnt_def(r, j), cnt_def(r2, j)]
    return hy, z3.And(r[j] == r2[j], cnt(r, j + 1) == cnt(r2, j + 1))


def _sig_le3_step():
    """cnt(sig, j) <= 3 for every j <= n (induction on j)"""
    o = z3.Const('o', IntArr); r = z3.Const('r', BoolArr); j, n = z3.Ints('j n')
    hy = [0 <= j, j < n, cnt(r, j) <= 3, _sig_inst(o, r, j), cnt_def(r, j)]
    return hy, cnt(r, j + 1) <= 3


def _sig_le3_base():
    r = z3.Const('r', BoolArr)
    return [cnt_def(r, z3.IntVal(0))], cnt(r, 0) <= 3


# ---------------------------------------------------------------------------------------------
# C18: perc2okta / height2code as functions of (n, m) and of the height
# ---------------------------------------------------------------------------------------------

def _nm():
    n, m = z3.Ints('n m')
    v = z3.Real('v')
    # v is the percentage n/m*100 (exact; the float computed by the code differs by rounding: A-REAL)
    return n, m, v, [0 <= n, n <= m, m >= 1, v * z3.ToReal(m) == 100 * z3.ToReal(n)]


def _c18_zero():
    n, m, v, hy = _nm()
    return hy, (p2o(v) == 0) == (n == 0)


def _c18_eight():
    n, m, v, hy = _nm()
    return hy, (p2o(v) == 8) == (n == m)


def _c18_range():
    n, m, v, hy = _nm()
    return hy + [0 < n, n < m], z3.And(p2o(v) >= 1, p2o(v) <= 7)


def _c18_nearest():
    """strictly inside, where 1 <= 8n/m <= 7: |okta - 8n/m| <= 1/2 (ties either way are 'nearest')"""
    n, m, v, hy = _nm()
    x = v * 8 / 100
    return hy + [0 < n, n < m, x >= 1, x <= 7], z3.And(z3.ToReal(p2o(v)) - x <= 0.5, x - z3.ToReal(p2o(v)) <= 0.5)


def _c18_clip():
    n, m, v, hy = _nm()
    x = v * 8 / 100
    return hy + [0 < n, n < m], z3.And(z3.Implies(x < 1, p2o(v) == 1), z3.Implies(x > 7, p2o(v) == 7))


def _c18_mono_v():
    v, w = z3.Reals('v w')
    return [0 <= v, v <= w, w <= 100], p2o(v) <= p2o(w)


def _c18_mono_nm():
    """n <= n' (same m) => percentage does not decrease (the only non-linear step), hence okta does not (mono_v)"""
    n, n2, m = z3.Ints('n n2 m')
    v, w = z3.Reals('v w')
    hy = [0 <= n, n <= n2, n2 <= m, m >= 1, v * z3.ToReal(m) == 100 * z3.ToReal(n), w * z3.ToReal(m) == 100 * z3.ToReal(n2)]
    return hy, z3.And(0 <= v, v <= w, w <= 100)


def _h_floor():
    """the coded height never exceeds the input: 100 * code <= h for 0 <= h"""
    h = z3.Real('h')
    return [h >= 0], z3.And(100 * z3.ToReal(hnum(h)) <= h, hnum(h) >= 0)


def _h_tight():
    """... and is the *floor*: less than one coding step below the input"""
    h = z3.Real('h')
    return [h >= 0], z3.If(h <= 10000, h - 100 * z3.ToReal(hnum(h)) < 100, h - 100 * z3.ToReal(hnum(h)) < 1000)


def _h_mono():
    h, g = z3.Reals('h g')
    return [0 <= h, h <= g], hnum(h) <= hnum(g)


def _h_three_digits():
    h = z3.Real('h')
    return [0 <= h, h < 100000], z3.And(hnum(h) >= 0, hnum(h) <= 999)


def _fmt03_digits():
    k = z3.Int('k')
    d = z3.Range('0', '9')
    return [0 <= k, k <= 999], z3.InRe(fmt03(k), z3.Concat(d, d, d))


def _fmt03_value():
    """the three digits (k/100, k/10 % 10, k % 10) that fmt03 writes denote k"""
    k = z3.Int('k')
    return [0 <= k, k <= 999], z3.And((k / 100) * 100 + ((k / 10) % 10) * 10 + k % 10 == k,
                                      0 <= k / 100, k / 100 <= 9, 0 <= (k / 10) % 10, (k / 10) % 10 <= 9, 0 <= k % 10, k % 10 <= 9)


def _fp_floor100():
    """A-FP side lemma (standard model of rounding, u = 2^-53): a double v < 100k (100k exactly representable, not a
    power of two) satisfies v <= 100k(1-u); the computed quotient q = fl(v/100) has |q - v/100| <= u v/100;
    then q < k, so floor(q) <= k-1: flooring the *computed* quotient never codes upward."""
    u = z3.Q(1, 2 ** 53)
    v, q, k = z3.Reals('v q k')
    return [k >= 1, v >= 0, v <= 100 * k * (1 - u), q - v / 100 <= u * (v / 100), q - v / 100 >= -u * (v / 100)], q < k


def _fp_floor1000():
    u = z3.Q(1, 2 ** 53)
    v, q, k = z3.Reals('v q k')
    return [k >= 1, v >= 0, v <= 1000 * k * (1 - u), q - v / 1000 <= u * (v / 1000), q - v / 1000 >= -u * (v / 1000)], q < k


def register_props(reg):
    L = lambda *a, **k: reg.add_lemma(Lemma(*a, **k))
    L('prop.C17.prefix', base=_prefix_base, step=_prefix_step, properties=('C17',),
      doc='results for two okta lists that agree on [0,p) agree on [0,p) (strong induction on the position)')
    L('sig_le3', base=_sig_le3_base, step=_sig_le3_step, properties=('C17', 'C01', 'C02'),
      doc='SigRel(o, r) => cnt(r, j) <= 3 for all j: at most three flags')
    L('prop.C18.nm.zero', direct=_c18_zero, properties=('C18', 'C03'), doc='okta 0 iff n = 0')
    L('prop.C18.nm.eight', direct=_c18_eight, properties=('C18', 'C03'), doc='okta 8 iff n = m')
    L('prop.C18.nm.range', direct=_c18_range, properties=('C18', 'C03'), doc='0 < n < m => okta in 1..7')
    L('prop.C18.nm.nearest', direct=_c18_nearest, properties=('C18',), doc='nearest okta where 1 <= 8n/m <= 7')
    L('prop.C18.nm.clip', direct=_c18_clip, properties=('C18',), doc='clipped to 1 / 7 outside')
    L('prop.C18.mono_v', direct=_c18_mono_v, properties=('C18', 'C03'), doc='p2o non-decreasing in the percentage')
    L('prop.C18.mono_nm', direct=_c18_mono_nm, properties=('C18', 'C03'), doc='percentage non-decreasing in n')
    L('prop.C18.h.floor', direct=_h_floor, properties=('C18', 'C04'), doc='100*code <= h')
    L('prop.C18.h.tight', direct=_h_tight, properties=('C18', 'C04'), doc='h - 100*code < step')
    L('prop.C18.h.mono', direct=_h_mono, properties=('C18', 'C04'), doc='code non-decreasing in h')
    L('prop.C18.h.three_digits', direct=_h_three_digits, properties=('C18', 'C04', 'C01'), doc='0 <= h < 1e5 => 0 <= code <= 999')
    L('fmt03.digits', direct=_fmt03_digits, properties=('C18', 'C01'), doc="f'{k:03}' is three decimal digits for 0 <= k <= 999")
    L('fmt03.value', direct=_fmt03_value, properties=('C18',), doc="the digits of f'{k:03}' denote k for 0 <= k <= 999")
    L('fp.floor100', direct=_fp_floor100, properties=('C18', 'C04'), doc='A-FP: computed v/100 stays below k when v < 100k')
    L('fp.floor1000', direct=_fp_floor1000, properties=('C18', 'C04'), doc='A-FP: computed v/1000 stays below k when v < 1000k')


_register_base = register


def register(reg):      # noqa: F811
    _register_base(reg)
    register_props(reg)
