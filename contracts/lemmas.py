"""Lemmas about the spec vocabulary, each proved by the solver from explicit hypotheses (induction = base + step
with the induction hypothesis written out).  Proved lemmas are used as hand-instantiated hypotheses elsewhere."""
import z3
from pyvc.contracts import Lemma
from pyvc.values import cnt, cnt_def, BoolArr


def _cnt_frame_base():
    a = z3.Const('a', BoolArr); n = z3.Int('n'); v = z3.Bool('v')
    a2 = z3.Store(a, n, v)
    return [cnt_def(a2, z3.IntVal(0)), cnt_def(a, z3.IntVal(0)), n >= 0], cnt(a2, 0) == cnt(a, 0)


def _cnt_frame_step():
    a = z3.Const('a', BoolArr); n = z3.Int('n'); v = z3.Bool('v'); k = z3.Int('k')
    a2 = z3.Store(a, n, v)
    # IH at k, k < n  =>  holds at k+1
    return [k >= 0, k < n, cnt(a2, k) == cnt(a, k), cnt_def(a2, k), cnt_def(a, k)], cnt(a2, k + 1) == cnt(a, k + 1)


def register(reg):
    reg.add_lemma(Lemma('cnt_frame', base=_cnt_frame_base, step=_cnt_frame_step,
                        doc='0 <= k <= n  =>  cnt(store(a, n, v), k) == cnt(a, k)   (induction on k)',
                        properties=('C17', 'C01', 'C02')))


# ---------------------------------------------------------------------------------------------
# C17: flags of a prefix never depend on the layers above it
# ---------------------------------------------------------------------------------------------
from pyvc.smt import And, Or, Not, Implies, Iff
from .spec import sig_rule, p2o, hnum, fmt03, okta_of, abbr

IntArr = z3.ArraySort(z3.IntSort(), z3.IntSort())


def _sig_inst(o, r, j):
    return r[j] == sig_rule(o[j], cnt(r, j))


def _prefix_base():
    r, r2 = z3.Const('r', BoolArr), z3.Const('r2', BoolArr)
    return [cnt_def(r, z3.IntVal(0)), cnt_def(r2, z3.IntVal(0))], cnt(r, 0) == cnt(r2, 0)


def _prefix_step():
    """IH: counts agree at j (and flags agree below j);  j < p <= min(n, n'), oktas agree at j, both results satisfy
    SigRel at j  =>  flags agree at j and counts agree at j+1."""
    o, o2 = z3.Const('o', IntArr), z3.Const('o2', IntArr)
    r, r2 = z3.Const('r', BoolArr), z3.Const('r2', BoolArr)
    j, p, n, n2 = z3.Ints('j p n n2')
    hy = [0 <= j, j < p, p <= n, p <= n2, o[j] == o2[j], cnt(r, j) == cnt(r2, j),
          _sig_inst(o, r, j), _sig_inst(o2, r2, j), cnt_def(r, j), cnt_def(r2, j)]
    return hy, z3.And(r[j] == r2[j], cnt(r, j + 1) == cnt(r2, j + 1))


def _sig_le3_step():
    """cnt(sig, j) <= 3 for every j <= n (induction on j)"""
    o = z3.Const('o', IntArr); r = z3.Const('r', BoolArr); j, n = z3.Ints('j n')
    hy = [0 <= j, j < n, cnt(r, j) <= 3, _sig_inst(o, r, j), cnt_def(r, j)]
    return hy, cnt(r, j + 1) <= 3


def _sig_le3_base():
    r = z3.Const('r', BoolArr)
    return [cnt_def(r, z3.IntVal(0))], cnt(r, 0) <= 3


# ---------------------------------------------------------------------------------------------
# C18: perc2okta / height2code as functions of (n, m) and of the height
# ---------------------------------------------------------------------------------------------

def _nm():
    n, m = z3.Ints('n m')
    v = z3.Real('v')
    # v is the percentage n/m*100 (exact; the float computed by the code differs by rounding: A-REAL)
    return n, m, v, [0 <= n, n <= m, m >= 1, v * z3.ToReal(m) == 100 * z3.ToReal(n)]


def _c18_zero():
    n, m, v, hy = _nm()
    return hy, (p2o(v) == 0) == (n == 0)


def _c18_eight():
    n, m, v, hy = _nm()
    return hy, (p2o(v) == 8) == (n == m)


def _c18_range():
    n, m, v, hy = _nm()
    return hy + [0 < n, n < m], z3.And(p2o(v) >= 1, p2o(v) <= 7)


def _c18_nearest():
    """strictly inside, where 1 <= 8n/m <= 7: |okta - 8n/m| <= 1/2 (ties either way are 'nearest')"""
    n, m, v, hy = _nm()
    x = v * 8 / 100
    return hy + [0 < n, n < m, x >= 1, x <= 7], z3.And(z3.ToReal(p2o(v)) - x <= 0.5, x - z3.ToReal(p2o(v)) <= 0.5)


def _c18_clip():
    n, m, v, hy = _nm()
    x = v * 8 / 100
    return hy + [0 < n, n < m], z3.And(z3.Implies(x < 1, p2o(v) == 1), z3.Implies(x > 7, p2o(v) == 7))


def _c18_mono_v():
    v, w = z3.Reals('v w')
    return [0 <= v, v <= w, w <= 100], p2o(v) <= p2o(w)


def _c18_mono_nm():
    """n <= n' (same m) => percentage does not decrease (the only non-linear step), hence okta does not (mono_v)"""
    n, n2, m = z3.Ints('n n2 m')
    v, w = z3.Reals('v w')
    hy = [0 <= n, n <= n2, n2 <= m, m >= 1, v * z3.ToReal(m) == 100 * z3.ToReal(n), w * z3.ToReal(m) == 100 * z3.ToReal(n2)]
    return hy, z3.And(0 <= v, v <= w, w <= 100)


def _h_floor():
    """the coded height never exceeds the input: 100 * code <= h for 0 <= h"""
    h = z3.Real('h')
    return [h >= 0], z3.And(100 * z3.ToReal(hnum(h)) <= h, hnum(h) >= 0)


def _h_tight():
    """... and is the *floor*: less than one coding step below the input"""
    h = z3.Real('h')
    return [h >= 0], z3.If(h <= 10000, h - 100 * z3.ToReal(hnum(h)) < 100, h - 100 * z3.ToReal(hnum(h)) < 1000)


def _h_mono():
    h, g = z3.Reals('h g')
    return [0 <= h, h <= g], hnum(h) <= hnum(g)


def _h_three_digits():
    h = z3.Real('h')
    return [0 <= h, h < 100000], z3.And(hnum(h) >= 0, hnum(h) <= 999)


def _fmt03_digits():
    from pyvc.engine import reveal_fmt03
    k = z3.Int('k')
    d = z3.Range('0', '9')
    return [0 <= k, k <= 999, reveal_fmt03(k)], z3.InRe(fmt03(k), z3.Concat(d, d, d))


def _fmt03_value():
    """the three digits (k/100, k/10 % 10, k % 10) that fmt03 writes denote k"""
    k = z3.Int('k')
    return [0 <= k, k <= 999], z3.And((k / 100) * 100 + ((k / 10) % 10) * 10 + k % 10 == k,
                                      0 <= k / 100, k / 100 <= 9, 0 <= (k / 10) % 10, (k / 10) % 10 <= 9, 0 <= k % 10, k % 10 <= 9)


def _fp_floor100():
    """A-FP side lemma (standard model of rounding, u = 2^-53): a double v < 100k (100k exactly representable, not a
    power of two) satisfies v <= 100k(1-u); the computed quotient q = fl(v/100) has |q - v/100| <= u v/100;
    then q < k, so floor(q) <= k-1: flooring the *computed* quotient never codes upward."""
    u = z3.Q(1, 2 ** 53)
    v, q, k = z3.Reals('v q k')
    return [k >= 1, v >= 0, v <= 100 * k * (1 - u), q - v / 100 <= u * (v / 100), q - v / 100 >= -u * (v / 100)], q < k


def _fp_floor1000():
    u = z3.Q(1, 2 ** 53)
    v, q, k = z3.Reals('v q k')
    return [k >= 1, v >= 0, v <= 1000 * k * (1 - u), q - v / 1000 <= u * (v / 1000), q - v / 1000 >= -u * (v / 1000)], q < k


def register_props(reg):
    L = lambda *a, **k: reg.add_lemma(Lemma(*a, **k))
    L('prop.C17.prefix', base=_prefix_base, step=_prefix_step, properties=('C17',),
      doc='results for two okta lists that agree on [0,p) agree on [0,p) (strong induction on the position)')
    L('sig_le3', base=_sig_le3_base, step=_sig_le3_step, properties=('C17', 'C01', 'C02'),
      doc='SigRel(o, r) => cnt(r, j) <= 3 for all j: at most three flags')
    L('prop.C18.nm.zero', direct=_c18_zero, properties=('C18', 'C03'), doc='okta 0 iff n = 0')
    L('prop.C18.nm.eight', direct=_c18_eight, properties=('C18', 'C03'), doc='okta 8 iff n = m')
    L('prop.C18.nm.range', direct=_c18_range, properties=('C18', 'C03'), doc='0 < n < m => okta in 1..7')
    L('prop.C18.nm.nearest', direct=_c18_nearest, properties=('C18',), doc='nearest okta where 1 <= 8n/m <= 7')
    L('prop.C18.nm.clip', direct=_c18_clip, properties=('C18',), doc='clipped to 1 / 7 outside')
    L('prop.C18.mono_v', direct=_c18_mono_v, properties=('C18', 'C03'), doc='p2o non-decreasing in the percentage')
    L('prop.C18.mono_nm', direct=_c18_mono_nm, properties=('C18', 'C03'), doc='percentage non-decreasing in n')
    L('prop.C18.h.floor', direct=_h_floor, properties=('C18', 'C04'), doc='100*code <= h')
    L('prop.C18.h.tight', direct=_h_tight, properties=('C18', 'C04'), doc='h - 100*code < step')
    L('prop.C18.h.mono', direct=_h_mono, properties=('C18', 'C04'), doc='code non-decreasing in h')
    L('prop.C18.h.three_digits', direct=_h_three_digits, properties=('C18', 'C04', 'C01'), doc='0 <= h < 1e5 => 0 <= code <= 999')
    L('fmt03.digits', direct=_fmt03_digits, properties=('C18', 'C01'), doc="f'{k:03}' is three decimal digits for 0 <= k <= 999")
    L('fmt03.value', direct=_fmt03_value, properties=('C18',), doc="the digits of f'{k:03}' denote k for 0 <= k <= 999")
    L('fp.floor100', direct=_fp_floor100, properties=('C18', 'C04'), doc='A-FP: computed v/100 stays below k when v < 100k')
    L('fp.floor1000', direct=_fp_floor1000, properties=('C18', 'C04'), doc='A-FP: computed v/1000 stays below k when v < 1000k')


_register_base = register


def register(reg):      # noqa: F811
    _register_base(reg)
    register_props(reg)


# ---------------------------------------------------------------------------------------------
# counting lemmas used by the table dialect
# ---------------------------------------------------------------------------------------------

def _cnt_mono_base():
    a = z3.Const('a', BoolArr); t = z3.Int('t')
    return [t >= 0, cnt_def(a, t)], cnt(a, t) <= cnt(a, t)


def _cnt_mono_step():
    """induction on u >= t: cnt(a,t) <= cnt(a,u) => cnt(a,t) <= cnt(a,u+1)"""
    a = z3.Const('a', BoolArr); t, u = z3.Ints('t u')
    return [0 <= t, t <= u, cnt(a, t) <= cnt(a, u), cnt_def(a, u)], cnt(a, t) <= cnt(a, u + 1)


def _cnt_subset_base():
    m, a = z3.Const('m', BoolArr), z3.Const('a', BoolArr)
    return [cnt_def(m, z3.IntVal(0)), cnt_def(a, z3.IntVal(0))], cnt(m, 0) <= cnt(a, 0)


def _cnt_subset_step():
    """m[i] => a[i] for all i  (instance at j)  and  cnt(m,j) <= cnt(a,j)  =>  cnt(m,j+1) <= cnt(a,j+1)"""
    m, a = z3.Const('m', BoolArr), z3.Const('a', BoolArr); j = z3.Int('j')
    return [j >= 0, z3.Implies(m[j], a[j]), cnt(m, j) <= cnt(a, j), cnt_def(m, j), cnt_def(a, j)], cnt(m, j + 1) <= cnt(a, j + 1)


def register_cnt(reg):
    L = lambda *a, **k: reg.add_lemma(Lemma(*a, **k))
    L('cnt_mono', base=_cnt_mono_base, step=_cnt_mono_step, doc='0 <= t <= u => cnt(a,t) <= cnt(a,u)', properties=('C01', 'C02'))
    L('cnt_subset', base=_cnt_subset_base, step=_cnt_subset_step,
      doc='(forall i. m[i] => a[i]) => cnt(m,j) <= cnt(a,j)', properties=('C01', 'C02'))


_register_2 = register


def register(reg):      # noqa: F811
    _register_2(reg)
    register_cnt(reg)


def _abbr_len():
    o = z3.Int('o')
    return [], z3.Length(abbr(o)) == 3


def register_str(reg):
    reg.add_lemma(Lemma('abbr_len', direct=_abbr_len, doc='every okta abbreviation has three characters', properties=('C01', 'C02')))


_register_3 = register


def register(reg):      # noqa: F811
    _register_3(reg)
    register_str(reg)


_D = z3.Range('0', '9')
_DDD = z3.Concat(_D, _D, _D)
_ABBR = z3.Union(z3.Re('FEW'), z3.Re('SCT'), z3.Re('BKN'), z3.Re('OVC'))
_GROUP = z3.Concat(_ABBR, _D, _D, _D)


def _abbr_re():
    o = z3.Int('o')
    return [o >= 1, o <= 8], z3.InRe(abbr(o), _ABBR)


def _concat_re():
    x, y = z3.String('x'), z3.String('y')
    return [z3.InRe(x, _ABBR), z3.InRe(y, _DDD)], z3.InRe(z3.Concat(x, y), _GROUP)


def _code_grammar():
    """for okta in 1..8 and a finite base in [0, 1e5): abbr ++ digits is one group (FEW|SCT|BKN|OVC)ddd.
    Proved from instances of abbr_re, prop.C18.h.three_digits, fmt03.digits and concat_re (all proved in this check)."""
    from .spec import code_text, reveal_code, abbrF, hcodeF
    from pyvc.values import SFloat
    o = z3.Int('o'); b = z3.Real('b')
    bf = SFloat(b, False)
    k = hnum(b)
    x, y = abbrF(o), hcodeF(z3.BoolVal(False), b)
    hy = [o >= 1, o <= 8, b >= 0, b < 100000,
          x == abbr(o), y == fmt03(k),                                   # reveal (hcode of a non-NaN base is fmt03(hnum))
          z3.InRe(abbr(o), _ABBR),                                       # abbr_re at o
          z3.And(k >= 0, k <= 999),                                      # prop.C18.h.three_digits at b
          z3.Implies(z3.And(k >= 0, k <= 999), z3.InRe(fmt03(k), _DDD)),  # fmt03.digits at hnum(b)
          z3.Implies(z3.And(z3.InRe(x, _ABBR), z3.InRe(y, _DDD)), z3.InRe(z3.Concat(x, y), _GROUP))]   # concat_re
    return hy, z3.InRe(code_text(o, bf), _GROUP)


_register_4 = register


def register(reg):      # noqa: F811
    _register_4(reg)
    L = lambda *a, **k: reg.add_lemma(Lemma(*a, **k))
    L('abbr_re', direct=_abbr_re, properties=('C01',), doc='okta in 1..8 => abbr(okta) in FEW|SCT|BKN|OVC')
    L('concat_re', direct=_concat_re, properties=('C01',), doc='x in ABBR, y in ddd => x ++ y in GROUP')
    L('code_grammar', direct=_code_grammar, properties=('C01',),
      doc='okta in 1..8, base in [0,1e5) finite => abbr(okta) ++ hcode(base) matches (FEW|SCT|BKN|OVC)ddd')


# ---------------------------------------------------------------------------------------------
# C02: from the message characterisation proved on metar_msg (groups = exactly the rows with `significant and base
# below the MSA`, in table order; NCD/NSC iff there is none) to the statements about *okta* in the property text.
# Tables satisfy TI (sorted bases, SigRel).  Universal hypotheses appear as the instances the induction step needs.
# ---------------------------------------------------------------------------------------------
RealArr = z3.ArraySort(z3.IntSort(), z3.RealSort())


def _T():
    okta = z3.Const('okta', IntArr); sig = z3.Const('sig', BoolArr); base = z3.Const('base', RealArr)
    msa = z3.Real('msa'); n = z3.Int('n')
    below = lambda i: base[i] < msa
    return okta, sig, base, msa, n, below


def _nosig_step():
    """(forall i < k. not a[i]) => cnt(a, k) == 0"""
    a = z3.Const('a', BoolArr); j = z3.Int('j')
    return [j >= 0, cnt(a, j) == 0, z3.Not(a[j]), cnt_def(a, j)], cnt(a, j + 1) == 0


def _nosig_base():
    a = z3.Const('a', BoolArr)
    return [cnt_def(a, z3.IntVal(0))], cnt(a, 0) == 0


def _lowest_step():
    """i0 = lowest row with okta >= 1 and base below the MSA.  For j < i0: no flag at j and none before."""
    okta, sig, base, msa, n, below = _T()
    j, i0 = z3.Ints('j i0')
    hy = [0 <= j, j < i0, i0 < n, cnt(sig, j) == 0,
          z3.Not(z3.And(okta[j] >= 1, below(j))),      # i0 is the lowest such row (instance at j)
          below(i0), base[j] <= base[i0],              # TI.sorted (instance j <= i0)
          _sig_inst(okta, sig, j), cnt_def(sig, j)]
    return hy, z3.And(z3.Not(sig[j]), cnt(sig, j + 1) == 0)


def _lowest_final():
    okta, sig, base, msa, n, below = _T()
    i0 = z3.Int('i0')
    hy = [0 <= i0, i0 < n, cnt(sig, i0) == 0, okta[i0] >= 1, below(i0), _sig_inst(okta, sig, i0)]
    return hy, z3.And(sig[i0], below(i0))        # so it is reported, and (step) nothing reported precedes it


def _ceiling_step():
    """i5 = lowest row with okta >= 5 below the MSA.  Rows j < i5 are below the MSA too (sorted), hence okta <= 4,
    hence at most two flags among them."""
    okta, sig, base, msa, n, below = _T()
    j, i5 = z3.Ints('j i5')
    hy = [0 <= j, j < i5, i5 < n, cnt(sig, j) <= 2,
          z3.Not(z3.And(okta[j] >= 5, below(j))), below(i5), base[j] <= base[i5],
          _sig_inst(okta, sig, j), cnt_def(sig, j)]
    return hy, cnt(sig, j + 1) <= 2


def _ceiling_final():
    okta, sig, base, msa, n, below = _T()
    i5 = z3.Int('i5')
    hy = [0 <= i5, i5 < n, cnt(sig, i5) <= 2, cnt(sig, i5) >= 0, okta[i5] >= 5, below(i5), _sig_inst(okta, sig, i5)]
    return hy, z3.And(sig[i5], below(i5))


def _ncd_final():
    """NCD => no flag anywhere (post) => all counts 0 (prop.C02.nosig) => no row reaches 1 okta"""
    okta, sig, base, msa, n, below = _T()
    i = z3.Int('i')
    return [0 <= i, i < n, cnt(sig, i) == 0, z3.Not(sig[i]), _sig_inst(okta, sig, i)], okta[i] <= 0


def _nsc_fwd_step():
    """nothing reported (no row with sig and below).  R(j): below(j) => cnt(sig, j+1) == 0."""
    okta, sig, base, msa, n, below = _T()
    j = z3.Int('j')
    hy = [0 <= j, j + 1 < n, z3.Implies(below(j), cnt(sig, j + 1) == 0),       # IH
          base[j] <= base[j + 1],                                             # sorted
          z3.Not(z3.And(sig[j + 1], below(j + 1))),                           # nothing reported (instance)
          cnt_def(sig, j + 1)]
    return hy, z3.Implies(below(j + 1), cnt(sig, j + 2) == 0)


def _nsc_fwd_base():
    okta, sig, base, msa, n, below = _T()
    return [0 < n, z3.Not(z3.And(sig[0], below(0))), cnt_def(sig, z3.IntVal(0))], z3.Implies(below(0), cnt(sig, 1) == 0)


def _nsc_fwd_final():
    """... hence no row below the MSA reaches 1 okta"""
    okta, sig, base, msa, n, below = _T()
    i = z3.Int('i')
    hy = [0 <= i, i < n, below(i), z3.Not(z3.And(sig[i], below(i))),
          z3.Implies(i >= 1, z3.Implies(below(i - 1), cnt(sig, i) == 0)), z3.Implies(i >= 1, base[i - 1] <= base[i]),
          cnt_def(sig, z3.IntVal(0)), _sig_inst(okta, sig, i)]
    return hy, okta[i] <= 0


def _nsc_bwd_final():
    """if the message were not NSC although a row w at/above the MSA has okta >= 1: no flag anywhere => count 0 at w
    => w is flagged: contradiction.  (cloud at/above the MSA with nothing reportable below => NSC)"""
    okta, sig, base, msa, n, below = _T()
    w = z3.Int('w')
    return [0 <= w, w < n, okta[w] >= 1, cnt(sig, w) == 0, _sig_inst(okta, sig, w)], sig[w]


_register_5 = register


def register(reg):      # noqa: F811
    _register_5(reg)
    L = lambda *a, **k: reg.add_lemma(Lemma(*a, properties=('C02',), **k))
    L('prop.C02.nosig', base=_nosig_base, step=_nosig_step, doc='no True below k => cnt(a, k) == 0')
    L('prop.C02.lowest_first', step=_lowest_step, direct=_lowest_final,
      doc='the lowest row with okta >= 1 below the MSA is reported and nothing reported precedes it: it is the first group')
    L('prop.C02.ceiling', step=_ceiling_step, direct=_ceiling_final,
      doc='the lowest row with okta >= 5 below the MSA is flagged significant, hence among the groups')
    L('prop.C02.ncd_no_okta', direct=_ncd_final, doc='NCD => no row reaches 1 okta')
    L('prop.C02.nsc_none_below', base=_nsc_fwd_base, step=_nsc_fwd_step, direct=_nsc_fwd_final,
      doc='NCD/NSC (nothing reported) => no row below the MSA reaches 1 okta')
    L('prop.C02.nsc_if_cloud_above', direct=_nsc_bwd_final,
      doc='a row at/above the MSA with okta >= 1 and nothing flagged => contradiction; hence NSC is returned')


def _c03_mono():
    """the okta never decreases with the count (same total, any buffers)"""
    n, n2, m, max0, max8 = z3.Ints('n n2 m max0 max8')
    return [0 <= n, n <= n2, n2 <= m, m >= 1], okta_of(n, m, max0, max8) <= okta_of(n2, m, max0, max8)


def _c03_range():
    n, m, max0, max8 = z3.Ints('n m max0 max8')
    return [0 <= n, n <= m, m >= 1], z3.And(okta_of(n, m, max0, max8) >= 0, okta_of(n, m, max0, max8) <= 8)


_register_6 = register


def register(reg):      # noqa: F811
    _register_6(reg)
    reg.add_lemma(Lemma('prop.C03.mono', direct=_c03_mono, properties=('C03',), doc='okta non-decreasing in the hit count'))
    reg.add_lemma(Lemma('prop.C03.range', direct=_c03_range, properties=('C03',), doc='okta in 0..8'))


def _cnt_union_base():
    a, b, u = z3.Const('a', BoolArr), z3.Const('b', BoolArr), z3.Const('u', BoolArr)
    z = z3.IntVal(0)
    return [cnt_def(a, z), cnt_def(b, z), cnt_def(u, z)], cnt(u, 0) == cnt(a, 0) + cnt(b, 0)


def _cnt_union_step():
    """u = a or b pointwise, a and b disjoint (instances at j)  and  IH at j  =>  holds at j+1"""
    a, b, u = z3.Const('a', BoolArr), z3.Const('b', BoolArr), z3.Const('u', BoolArr)
    j = z3.Int('j')
    return [j >= 0, u[j] == z3.Or(a[j], b[j]), z3.Not(z3.And(a[j], b[j])), cnt(u, j) == cnt(a, j) + cnt(b, j),
            cnt_def(a, j), cnt_def(b, j), cnt_def(u, j)], cnt(u, j + 1) == cnt(a, j + 1) + cnt(b, j + 1)


_register_7 = register


def register(reg):      # noqa: F811
    _register_7(reg)
    reg.add_lemma(Lemma('cnt_union', base=_cnt_union_base, step=_cnt_union_step, properties=('C07',),
                        doc='u = a or b pointwise with a, b disjoint => cnt(u,k) == cnt(a,k) + cnt(b,k)'))


# ---------------------------------------------------------------------------------------------
# C07: relational statements as lemmas over the per-row postcondition of _cleanup_pdf
# ---------------------------------------------------------------------------------------------

def _row_out(h, hn, t, lim):
    """what _cleanup_pdf::post.rows says about one row: (present, type', height' is NaN, height')"""
    above = z3.And(z3.Not(hn), h > lim)
    present = z3.Not(z3.And(above, t > 1))
    t2 = z3.If(z3.And(above, t <= 1), z3.IntVal(0), t)
    hn2 = z3.Or(hn, z3.And(above, t <= 1))
    return above, present, t2, hn2


def _c07_rel1():
    """two inputs that differ only in the height of a hit above the limit (both heights above it) give the same row"""
    h1, h2, lim = z3.Reals('h1 h2 lim'); t = z3.Int('t')
    F_ = z3.BoolVal(False)
    a1, p1, t1, n1 = _row_out(h1, F_, t, lim)
    a2, p2, t2, n2 = _row_out(h2, F_, t, lim)
    same = z3.And(p1 == p2, z3.Implies(p1, z3.And(t1 == t2, n1 == n2, n1)))      # kept rows carry NaN: the height is gone
    return [h1 > lim, h2 > lim], same


def _c07_rel2():
    """replacing a first / VV hit above the limit by a non-detection (NaN, type 0) gives the same row; a higher hit above
    the limit produces no row at all, like its removal"""
    h, lim = z3.Reals('h lim'); t = z3.Int('t')
    F_, T_ = z3.BoolVal(False), z3.BoolVal(True)
    a1, p1, t1, n1 = _row_out(h, F_, t, lim)
    a2, p2, t2, n2 = _row_out(h, T_, z3.IntVal(0), lim)        # the non-detection that replaces it
    return [h > lim], z3.And(z3.Implies(t <= 1, z3.And(p1, p2, t1 == t2, n1, n2)), z3.Implies(t > 1, z3.Not(p1)))


def _c07_below_intact():
    h, lim = z3.Reals('h lim'); t = z3.Int('t'); hn = z3.Bool('hn')
    a, p, t2, n2 = _row_out(h, hn, t, lim)
    return [z3.Or(hn, h <= lim)], z3.And(p, t2 == t, n2 == hn)


_register_8 = register


def register(reg):      # noqa: F811
    _register_8(reg)
    L = lambda *a, **k: reg.add_lemma(Lemma(*a, properties=('C07',), **k))
    L('prop.C07.rel1', direct=_c07_rel1, doc='heights above the limit are irrelevant: the output row does not mention them')
    L('prop.C07.rel2', direct=_c07_rel2, doc='a hit above the limit behaves like the non-detection / removal that replaces it')
    L('prop.C07.below_intact', direct=_c07_below_intact, doc='hits at or below the limit (and non-detections) are kept unchanged')


# ---------------------------------------------------------------------------------------------
# C19: order preservation, inverse and range of the scalings, as lemmas over the element-wise postconditions
# ---------------------------------------------------------------------------------------------

def _c19_sas_order():
    a, b, sh, sc = z3.Reals('a b sh sc')
    return [sc > 0, a < b], (a - sh) / sc < (b - sh) / sc


def _c19_sas_inverse():
    a, sh, sc = z3.Reals('a sh sc')
    return [sc > 0], ((a - sh) / sc) * sc + sh == a


def _c19_mm_range():
    a, lo, hi = z3.Reals('a lo hi')
    return [hi > lo, lo <= a, a <= hi], z3.And((a - lo) / (hi - lo) >= 0, (a - lo) / (hi - lo) <= 1)


def _c19_mm_order():
    a, b, lo, hi = z3.Reals('a b lo hi')
    return [hi > lo, a < b], (a - lo) / (hi - lo) < (b - lo) / (hi - lo)


def _c19_mm_inverse():
    a, lo, hi = z3.Reals('a lo hi')
    return [hi > lo], ((a - lo) / (hi - lo)) * (hi - lo) + lo == a


def _c19_mm_with_minrange():
    """min-max scaling with the interval of minrange2minmax (contains the data, width >= min_range > 0): into [0, 1]"""
    a, lo, hi, mr = z3.Reals('a lo hi mr')
    return [lo <= a, a <= hi, hi - lo >= mr, mr > 0], z3.And((a - lo) / (hi - lo) >= 0, (a - lo) / (hi - lo) <= 1)


_register_9 = register


def register(reg):      # noqa: F811
    _register_9(reg)
    L = lambda *a, **k: reg.add_lemma(Lemma(*a, properties=('C19',), **k))
    L('prop.C19.sas.order', direct=_c19_sas_order, doc='shift-and-scale with scale > 0 is strictly order-preserving')
    L('prop.C19.sas.inverse', direct=_c19_sas_inverse, doc='undo(do(x)) = x for shift-and-scale (exact in the reals)')
    L('prop.C19.mm.range', direct=_c19_mm_range, doc='min-max scaling maps [lo, hi] into [0, 1]')
    L('prop.C19.mm.order', direct=_c19_mm_order, doc='min-max scaling with hi > lo is strictly order-preserving')
    L('prop.C19.mm.inverse', direct=_c19_mm_inverse, doc='undo(do(x)) = x for min-max scaling')
    L('prop.C19.mm.minrange', direct=_c19_mm_with_minrange, doc='with the interval derived from min_range the image is inside [0, 1]')


# ---------------------------------------------------------------------------------------------
# C05: generated layer ids never collide (each layer lies inside exactly one group)
# ---------------------------------------------------------------------------------------------

def _layer_id(off, g, ind, split, s):
    """id written by find_layers for a hit of the group with id g listed at position ind: off+10*ind+s if the group is split
    into components (s = component label), else the group id itself"""
    return z3.If(split, off + 10 * ind + s, g)


class _IdFormulaError(Exception):
    pass


def _ids_from_code():
    """the two expressions of CeiloChunk.find_layers that generate layer ids, translated from the REAL source (re-read on every
    run): `id_offset = <E1>` and `self.data.loc[in_group, 'layer_id'] = <E2>`.  Symbols: gmax = self.data['group_id'].max() (every
    group id is <= gmax), ngroups = self.n_groups (number of distinct group ids >= 0, hence 1 <= ngroups <= gmax + 1), ind = table
    row of the group, comp = mixture label of the hit.  Anything else in the expressions => the lemma cannot be stated (UNDECIDED)."""
    import ast
    from pyvc import source
    fi = source.find_function('ampycloud.data.CeiloChunk.find_layers')
    e1 = e2 = None
    for n in ast.walk(fi.node):
        if isinstance(n, ast.Assign) and len(n.targets) == 1:
            t = n.targets[0]
            if isinstance(t, ast.Name) and t.id == 'id_offset':
                e1 = n.value if e1 is None else _raise('id_offset assigned twice')
            if isinstance(t, ast.Subscript) and 'layer_id' in ast.dump(t.slice) and 'in_group' in ast.dump(t.slice):
                e2 = n.value if e2 is None else _raise('several writes of split-group layer ids')
    if e1 is None or e2 is None:
        _raise('id_offset / split-group layer id assignment not found in find_layers')
    return e1, e2


def _raise(msg):
    raise _IdFormulaError(msg)


def _tr(e, env):
    """integer expression -> z3 (fail closed)"""
    import ast
    if isinstance(e, ast.Constant) and isinstance(e.value, int) and not isinstance(e.value, bool):
        return z3.IntVal(e.value)
    if isinstance(e, ast.Name):
        if e.id in env:
            return env[e.id]
        _raise(f'name {e.id} in the layer id formula')
    if isinstance(e, ast.BinOp):
        a, b = _tr(e.left, env), _tr(e.right, env)
        if isinstance(e.op, ast.Add):
            return a + b
        if isinstance(e.op, ast.Sub):
            return a - b
        if isinstance(e.op, ast.Mult):
            return a * b
        if isinstance(e.op, ast.FloorDiv):
            if not (isinstance(e.right, ast.Constant) and isinstance(e.right.value, int) and e.right.value > 0):
                _raise('floor division by a non-constant')
            return a / b                  # z3 integer division = floor division for a positive constant divisor
        _raise(f'operator {type(e.op).__name__} in the layer id formula')
    if isinstance(e, ast.Call) and isinstance(e.func, ast.Name) and e.func.id == 'max' and len(e.args) == 2 and not e.keywords:
        a, b = _tr(e.args[0], env), _tr(e.args[1], env)
        return z3.If(a >= b, a, b)
    if isinstance(e, ast.Call) and isinstance(e.func, ast.Name) and e.func.id == 'int' and len(e.args) == 1 and not e.keywords:
        return _tr(e.args[0], env)
    src = ast.unparse(e)
    if src == "self.data['group_id'].max()":
        return env['gmax']
    if src == 'self.n_groups':
        return env['ngroups']
    _raise(f'sub-expression `{src}` in the layer id formula')


def _c05_ids():
    """two hits with the same layer id belong to the same group (and, if split, to the same component) -- for the id formulas
    found in the real find_layers"""
    off, gmax, ngroups = z3.Ints('off gmax ngroups')
    g1, g2, i1, i2, s1, s2 = z3.Ints('g1 g2 i1 i2 s1 s2')
    sp1, sp2 = z3.Bools('sp1 sp2')
    e1, e2 = _ids_from_code()
    comp_names = ('row_order_ids', 'sub_layers_id')

    def lid(g, ind, split, s):
        env = {'id_offset': off, 'ind': ind, 'gmax': gmax, 'ngroups': ngroups}
        env.update({c: s for c in comp_names})
        return z3.If(split, _tr(e2, env), g)          # an unsplit group's hits get the group id itself (fill at the end of find_layers)
    hy = [gmax >= 0, ngroups >= 1, ngroups <= gmax + 1,
          off == _tr(e1, {'gmax': gmax, 'ngroups': ngroups}),
          0 <= g1, g1 <= gmax, 0 <= g2, g2 <= gmax,             # ids of existing groups
          i1 >= 0, i2 >= 0, i1 < ngroups, i2 < ngroups, (i1 == i2) == (g1 == g2),           # one table row per group id
          0 <= s1, s1 <= 2, 0 <= s2, s2 <= 2,                   # mixture-model labels (at most three components)
          z3.Implies(g1 == g2, sp1 == sp2),
          lid(g1, i1, sp1, s1) == lid(g2, i2, sp2, s2)]
    return hy, z3.And(g1 == g2, z3.Implies(sp1, s1 == s2))


def _c05_ids_old_scheme_canary():
    """the pinned tree's scheme (constant offset 100) is NOT injective: this lemma must be refutable"""
    off, gmax = z3.Ints('off gmax')
    g1, g2, i1, i2, s1, s2 = z3.Ints('g1 g2 i1 i2 s1 s2')
    sp1, sp2 = z3.Bools('sp1 sp2')
    hy = [off == 100, 0 <= g1, 0 <= g2, i1 >= 0, i2 >= 0, (i1 == i2) == (g1 == g2), 0 <= s1, s1 <= 2, 0 <= s2, s2 <= 2,
          z3.Implies(g1 == g2, sp1 == sp2), _layer_id(off, g1, i1, sp1, s1) == _layer_id(off, g2, i2, sp2, s2)]
    return hy, g1 == g2


_register_10 = register


def register(reg):      # noqa: F811
    _register_10(reg)
    reg.add_lemma(Lemma('prop.C05.layer_ids_injective', direct=_c05_ids, properties=('C05',),
                        doc='for the id formulas read from the real find_layers (offset, offset + 10*row + component): equal layer ids => same group (and same component)'))


def _cnt_ext_base():
    a, b = z3.Const('a', BoolArr), z3.Const('b', BoolArr)
    z = z3.IntVal(0)
    return [cnt_def(a, z), cnt_def(b, z)], cnt(a, 0) == cnt(b, 0)


def _cnt_ext_step():
    a, b = z3.Const('a', BoolArr), z3.Const('b', BoolArr); j = z3.Int('j')
    return [j >= 0, a[j] == b[j], cnt(a, j) == cnt(b, j), cnt_def(a, j), cnt_def(b, j)], cnt(a, j + 1) == cnt(b, j + 1)


_register_11 = register


def register(reg):      # noqa: F811
    _register_11(reg)
    reg.add_lemma(Lemma('cnt_ext', base=_cnt_ext_base, step=_cnt_ext_step, properties=('C04',),
                        doc='pointwise equal masks have equal counts'))
