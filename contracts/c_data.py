"""Contracts for ampycloud.data.CeiloChunk: message assembly (C01, C02) and the table invariant TI."""
import z3
from pyvc import smt
from pyvc.contracts import Contract, Custom, Spec, Str, Int, Float, Const
from pyvc.smt import And, Or, Not, Implies, Iff, If, Forall, Exists, lift, fresh
from pyvc.values import SInt, SBool, SFloat, SStr, BoolArr, cnt
from pyvc.pandas_model import STable, SSeries, SChunk
from .spec import abbr, hcode, hnum, fmt03, SigRel, count_true, _rv, _isnan, code_text, reveal_code, abbr_len_fact
from pyvc.smt import Sequent, LemmaInst

from .native import metar_msg_oracle

CHUNK = 'ampycloud.data.CeiloChunk'
WHICH = ('slices', 'groups', 'layers')


# ---------------------------------------------------------------------------------------------
# the table invariant TI(T): what metarize() establishes for self._<which> and metar_msg() relies on
# ---------------------------------------------------------------------------------------------

def table_inv(T: STable, height_range=True, tag='TI'):
    n = T.n
    okta, base, code, sig = T.col('okta'), T.col('height_base'), T.col('code'), T.col('significant')
    inv = {
        'okta_range': Forall(0, n, lambda i: And(okta[i] >= 0, okta[i] <= 8)),
        'base_finite': Forall(0, n, lambda i: Not(_isnan(base[i]))),
        'code': Forall(0, n, lambda i: code[i] == code_text(okta[i], base[i])),
        'sorted': Forall(0, n, lambda i, k: _rv(base[i]) <= _rv(base[k]), arity=2, name='s'),
        'sig': SigRel(okta, sig, n, atom=z3.Bool(f'{tag}.SigRel')),
    }
    if height_range:
        # the properties' own quantifier: hit heights (hence bases) in [0, 100000) ft
        inv['base_range'] = Forall(0, n, lambda i: And(_rv(base[i]) >= 0, _rv(base[i]) < 100000))
    return inv


def make_table(name, ctx, assume_inv=True):
    n = z3.Int(f'{name}_n')
    ctx.assume(n >= 0)
    ctx.len_vars.append(n)
    okta = z3.Array(f'{name}_okta', z3.IntSort(), z3.IntSort())
    base = z3.Array(f'{name}_base', z3.IntSort(), z3.RealSort())
    base_nan = z3.Array(f'{name}_base_nan', z3.IntSort(), z3.BoolSort())
    code = z3.Array(f'{name}_code', z3.IntSort(), z3.StringSort())
    sig = z3.Array(f'{name}_sig', z3.IntSort(), z3.BoolSort())
    T = STable(n, {
        'okta': SSeries(n, lambda i: SInt(okta[i], 'npint'), 'int'),
        'height_base': SSeries(n, lambda i: SFloat(base[i], base_nan[i], 'npfloat'), 'float'),
        'code': SSeries(n, lambda i: SStr(code[i]), 'str'),
        'significant': SSeries(n, lambda i: SBool(sig[i], 'npbool'), 'bool', arr=sig),
    })
    ctx.note_cnt(sig)
    if assume_inv:
        for f in table_inv(T).values():
            ctx.assume(f)
        # instance family of the proved lemma sig_le3:  SigRel(okta, sig, n) => cnt(sig, t) <= 3 for 0 <= t <= n
        ctx.assume(Forall(0, n + 1, lambda t: cnt(sig, t) <= 3, name='le3'))
        ctx.used_lemmas.add('sig_le3')
        # instance family of the proved lemma abbr_len
        ctx.assume(Forall(0, n, lambda i: abbr_len_fact(T.col('okta')[i]), name='al'))
        ctx.used_lemmas.add('abbr_len')

    def ext(m, n=n):
        ln = smt.z3val_to_py(m.eval(n, model_completion=True))
        rows = []
        for j in range(min(ln, 8)):
            rows.append({'okta': smt.z3val_to_py(m.eval(okta[j], model_completion=True)),
                         'height_base': smt.z3val_to_py(m.eval(base[j], model_completion=True)),
                         'code': smt.z3val_to_py(m.eval(code[j], model_completion=True)),
                         'significant': smt.z3val_to_py(m.eval(sig[j], model_completion=True))})
        return rows
    ctx.extractors[name] = ext
    return T


class ChunkForMsg(Spec):
    """abstract chunk as seen by metar_msg: MSA (None or a float), the high-cloud flag, the table of `which`
    (None = not computed, else a table satisfying TI) and the ghost set count n_<which> (== table length, TI.n)"""

    def __init__(self, which, msa, computed=True):
        self.which, self.msa, self.computed = which, msa, computed

    def make(self, name, ctx):
        msa = None if self.msa is None else Float(nan=False, ty='float').make('msa', ctx)
        flag = SBool(z3.Bool('flag'))
        ctx.extractors['flag'] = lambda m: smt.z3val_to_py(m.eval(z3.Bool('flag'), model_completion=True))
        fields = {'_prms': {'MSA': msa}, '_clouds_above_msa_buffer': flag,
                  '_slices': None, '_groups': None, '_layers': None}
        ghost = {}
        if self.computed:
            T = make_table('T', ctx)
            fields['_' + self.which] = T
            ghost['n_' + self.which] = SInt(T.n, 'int')     # TI.n: one table row per set id >= 0
        return SChunk(CHUNK, fields, ghost)

    def describe(self):
        return f'chunk(which={self.which}, msa={"None" if self.msa is None else "float"}, computed={self.computed})'


def _n_which_result(which):
    def mk(name, ctx, self):
        return self.ghost.get('n_' + which)
    return mk


DIGIT = z3.Range('0', '9')
GROUP = z3.Concat(z3.Union(z3.Re('FEW'), z3.Re('SCT'), z3.Re('BKN'), z3.Re('OVC')), DIGIT, DIGIT, DIGIT)
BLANK_GROUP = z3.Concat(z3.Re(' '), GROUP)
MSG_RE = z3.Concat(GROUP, z3.Option(BLANK_GROUP), z3.Option(BLANK_GROUP))


def _metar_msg_post(result, self, which):
    ctx = smt.CURRENT_CTX
    T = self.fields['_' + which]
    msa = self.fields['_prms']['MSA']
    flag = self.fields['_clouds_above_msa_buffer'].t
    n = T.n
    okta, base, code, sig = T.col('okta'), T.col('height_base'), T.col('code'), T.col('significant')
    below = (lambda i: True) if msa is None else (lambda i: _rv(base[i]) < msa.v)
    sel = ctx.ghost.get('selected')
    is_code = Or(result == 'NCD', result == 'NSC')
    reveal = []
    for s_ in (sel or []):
        reveal += reveal_code(okta[s_], base[s_])
    # the grammar goal is proved in isolation from: (cut) what each selected row's code text is, (cut) its okta / base
    # ranges, (lemma code_grammar) such a text is one group, (cut) the result is the blank-joined codes
    iso = []
    for s_ in (sel or []):
        o_, b_ = okta[s_], base[s_]
        iso.append(code[s_] == code_text(o_, b_))
        iso.append(And(o_ >= 1, o_ <= 8, Not(_isnan(b_)), _rv(b_) >= 0, _rv(b_) < 100000))
        iso.append(LemmaInst('code_grammar', Implies(And(o_ >= 1, o_ <= 8, Not(_isnan(b_)), _rv(b_) >= 0, _rv(b_) < 100000),
                                                     z3.InRe(code_text(o_, b_), GROUP))))
    if sel:
        joined_ = None
        for s_ in sel:
            joined_ = code[s_] if joined_ is None else z3.Concat(joined_, z3.StringVal(' '), code[s_])
        iso.append(lift(result) == joined_)
    else:
        iso.append(is_code)
    out = {
        # C01: exactly 'NCD', exactly 'NSC', or one to three blank-separated groups (FEW|SCT|BKN|OVC)ddd
        'C01.grammar': Sequent(iso, Or(is_code, z3.InRe(lift(result), MSG_RE)), isolate=True),
        # C02: NCD only without the high-cloud flag
        'C02.ncd_only_without_flag': Sequent(reveal, Implies(result == 'NCD', Not(flag))),
    }
    if sel is None:
        # no table rows at all: the flag alone decides
        out['C02.empty_table'] = And(n == 0, result == If(flag, z3.StringVal('NSC'), z3.StringVal('NCD')))
        return out
    c = len(sel)
    rows = [code[s] for s in sel]
    joined = None
    for k, r in enumerate(rows):
        joined = r if joined is None else z3.Concat(joined, z3.StringVal(' '), r)
    out.update({
        # every group is the code of a listed row, in table order; all significant rows below the MSA are reported
        'C02.groups_are_codes': (result == joined) if c else is_code,
        'C01.reported_rows': And([And(sig[s], below(s), s >= 0, s < n) for s in sel]),
        'C01.no_zero_okta_group': And([okta[s] >= 1 for s in sel]),
        'C01.second_sct_third_bkn': And([okta[s] >= 1 + 2 * k for k, s in enumerate(sel)]),
        'C01.nondecreasing_height': And([_rv(base[sel[k]]) <= _rv(base[sel[k + 1]]) for k in range(c - 1)]),
        'C01.height_digits_nondecreasing': And([hnum(base[sel[k]]) <= hnum(base[sel[k + 1]]) for k in range(c - 1)]),
        'C02.complete': Forall(0, n, lambda i: Implies(And(sig[i], below(i)), Or([i == s for s in sel]))),
        # NCD / NSC are returned exactly when nothing is reportable
        'C02.code_iff_nothing_reported': Sequent(reveal, Iff(is_code, c == 0)),
        'C02.ncd_only_if_nothing_significant': Sequent(reveal, Forall(0, n, lambda i: Implies(result == 'NCD', Not(sig[i])))),
        'C02.nsc_only_if_cloud': Implies(result == 'NSC', Or(flag, Exists(0, n, lambda j: And(sig[j], Not(below(j)))))),
    })
    if c == 0:
        out['C02.nsc_if_cloud_above'] = Forall(0, n, lambda i: Implies(Or(flag, And(sig[i], Not(below(i)))), result == 'NSC'))
    return out


def register(reg):
    for which in WHICH:
        reg.add(Contract(
            f'{CHUNK}.n_{which}', properties=('C01', 'C02', 'C05'),
            result=_n_which_result(which),
            notes='ghost: number of distinct set ids >= 0 in the per-hit assignment (None before the stage has run)'))

    reg.add(Contract(
        f'{CHUNK}._ncd_or_nsc', properties=('C01', 'C02'),
        params={'self': ChunkForMsg('layers', None, computed=False)},
        result=Str(),
        ensures=lambda result, self: {'flag_decides': result == If(self.fields['_clouds_above_msa_buffer'].t,
                                                                  z3.StringVal('NSC'), z3.StringVal('NCD'))},
        canaries={'always_ncd': lambda result, self: result == 'NCD'},
    ))

    cases = []
    for which in WHICH:
        for msa in (None, 'float'):
            cases.append((f'{which},msa={msa}', {'self': ChunkForMsg(which, msa), 'which': Const(which)}))
        cases.append((f'{which},not-computed', {'self': ChunkForMsg(which, None, computed=False), 'which': Const(which)}))
    reg.add(Contract(
        f'{CHUNK}.metar_msg', properties=('C01', 'C02'),
        cases=cases,
        raises={'AmpycloudError': lambda self, which: self.fields['_' + which] is None},
        ensures=_metar_msg_post,
        canaries={'never_three_groups': lambda result, self, which: z3.Not(z3.InRe(lift(result), z3.Concat(GROUP, BLANK_GROUP, BLANK_GROUP))),
                  'never_nsc': lambda result, self, which: result != 'NSC'},
        native_oracle=metar_msg_oracle,
    ))
