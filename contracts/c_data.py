"""Contracts for ampycloud.data.CeiloChunk: message assembly (C01, C02) and the table invariant TI."""
import z3
from pyvc import smt
from pyvc.contracts import Contract, Custom, Spec, Str, Int, Float, Const
from pyvc.smt import And, Or, Not, Implies, Iff, If, Forall, Exists, lift, fresh
from pyvc.values import SInt, SBool, SFloat, SStr, BoolArr, cnt
from pyvc.pandas_model import STable, SSeries, SChunk
from .spec import abbr, hcode, hnum, fmt03, SigRel, count_true, _rv, _isnan, code_text, reveal_code, abbr_len_fact
from pyvc.smt import Sequent, LemmaInst

from .native import metar_msg_oracle, cleanup_oracle

CHUNK = 'ampycloud.data.CeiloChunk'
WHICH = ('slices', 'groups', 'layers')


# ---------------------------------------------------------------------------------------------
# the table invariant TI(T): what metarize() establishes for self._<which> and metar_msg() relies on
# ---------------------------------------------------------------------------------------------

def table_inv(T: STable, height_range=True, tag='TI'):
    n = T.n
    okta, base, code, sig = T.col('okta'), T.col('height_base'), T.col('code'), T.col('significant')
    inv = {
        'okta_range': Forall(0, n, lambda i: And(okta[i] >= 0, okta[i] <= 8)),
        'base_finite': Forall(0, n, lambda i: Not(_isnan(base[i]))),
        'code': Forall(0, n, lambda i: code[i] == code_text(okta[i], base[i])),
        'sorted': Forall(0, n, lambda i, k: _rv(base[i]) <= _rv(base[k]), arity=2, name='s'),
        'sig': SigRel(okta, sig, n, atom=z3.Bool(f'{tag}.SigRel')),
    }
    if height_range:
        # the properties' own quantifier: hit heights (hence bases) in [0, 100000) ft
        inv['base_range'] = Forall(0, n, lambda i: And(_rv(base[i]) >= 0, _rv(base[i]) < 100000))
    return inv


def make_table(name, ctx, assume_inv=True):
    n = z3.Int(f'{name}_n')
    ctx.assume(n >= 0)
    ctx.len_vars.append(n)
    okta = z3.Array(f'{name}_okta', z3.IntSort(), z3.IntSort())
    base = z3.Array(f'{name}_base', z3.IntSort(), z3.RealSort())
    base_nan = z3.Array(f'{name}_base_nan', z3.IntSort(), z3.BoolSort())
    code = z3.Array(f'{name}_code', z3.IntSort(), z3.StringSort())
    sig = z3.Array(f'{name}_sig', z3.IntSort(), z3.BoolSort())
    T = STable(n, {
        'okta': SSeries(n, lambda i: SInt(okta[i], 'npint'), 'int'),
        'height_base': SSeries(n, lambda i: SFloat(base[i], base_nan[i], 'npfloat'), 'float'),
        'code': SSeries(n, lambda i: SStr(code[i]), 'str'),
        'significant': SSeries(n, lambda i: SBool(sig[i], 'npbool'), 'bool', arr=sig),
    })
    ctx.note_cnt(sig)
    if assume_inv:
        for f in table_inv(T).values():
            ctx.assume(f)
        # instance family of the proved lemma sig_le3:  SigRel(okta, sig, n) => cnt(sig, t) <= 3 for 0 <= t <= n
        ctx.assume(Forall(0, n + 1, lambda t: cnt(sig, t) <= 3, name='le3'))
        ctx.used_lemmas.add('sig_le3')
        # instance family of the proved lemma abbr_len
        ctx.assume(Forall(0, n, lambda i: abbr_len_fact(T.col('okta')[i]), name='al'))
        ctx.used_lemmas.add('abbr_len')

    def ext(m, n=n):
        ln = smt.z3val_to_py(m.eval(n, model_completion=True))
        rows = []
        for j in range(min(ln, 8)):
            rows.append({'okta': smt.z3val_to_py(m.eval(okta[j], model_completion=True)),
                         'height_base': smt.z3val_to_py(m.eval(base[j], model_completion=True)),
                         'code': smt.z3val_to_py(m.eval(code[j], model_completion=True)),
                         'significant': smt.z3val_to_py(m.eval(sig[j], model_completion=True))})
        return rows
    ctx.extractors[name] = ext
    return T


class ChunkForMsg(Spec):
    """abstract chunk as seen by metar_msg: MSA (None or a float), the high-cloud flag, the table of `which`
    (None = not computed, else a table satisfying TI) and the ghost set count n_<which> (== table length, TI.n)"""

    def __init__(self, which, msa, computed=True):
        self.which, self.msa, self.computed = which, msa, computed

    def make(self, name, ctx):
        msa = None if self.msa is None else Float(nan=False, ty='float').make('msa', ctx)
        flag = SBool(z3.Bool('flag'))
        ctx.extractors['flag'] = lambda m: smt.z3val_to_py(m.eval(z3.Bool('flag'), model_completion=True))
        buf = Float(nan=False, ty='float').make('msa_hit_buffer', ctx)     # any number is a legal buffer (0 and negative values included)
        fields = {'_prms': {'MSA': msa, 'MSA_HIT_BUFFER': buf}, '_clouds_above_msa_buffer': flag,
                  '_slices': None, '_groups': None, '_layers': None}
        ghost = {}
        if self.computed:
            T = make_table('T', ctx)
            fields['_' + self.which] = T
            ghost['n_' + self.which] = SInt(T.n, 'int')     # TI.n: one table row per set id >= 0
        return SChunk(CHUNK, fields, ghost)

    def describe(self):
        return f'chunk(which={self.which}, msa={"None" if self.msa is None else "float"}, computed={self.computed})'


def _n_which_result(which):
    def mk(name, ctx, self):
        return self.ghost.get('n_' + which)
    return mk


DIGIT = z3.Range('0', '9')
GROUP = z3.Concat(z3.Union(z3.Re('FEW'), z3.Re('SCT'), z3.Re('BKN'), z3.Re('OVC')), DIGIT, DIGIT, DIGIT)
BLANK_GROUP = z3.Concat(z3.Re(' '), GROUP)
MSG_RE = z3.Concat(GROUP, z3.Option(BLANK_GROUP), z3.Option(BLANK_GROUP))


def _metar_msg_post(result, self, which):
    ctx = smt.CURRENT_CTX
    T = self.fields['_' + which]
    msa = self.fields['_prms']['MSA']
    flag = self.fields['_clouds_above_msa_buffer'].t
    n = T.n
    okta, base, code, sig = T.col('okta'), T.col('height_base'), T.col('code'), T.col('significant')
    below = (lambda i: True) if msa is None else (lambda i: _rv(base[i]) < msa.v)
    sel = ctx.ghost.get('selected')
    is_code = Or(result == 'NCD', result == 'NSC')
    reveal = []
    for s_ in (sel or []):
        reveal += reveal_code(okta[s_], base[s_])
    # the grammar goal is proved in isolation from: (cut) what each selected row's code text is, (cut) its okta / base
    # ranges, (lemma code_grammar) such a text is one group, (cut) the result is the blank-joined codes
    iso = []
    for s_ in (sel or []):
        o_, b_ = okta[s_], base[s_]
        iso.append(code[s_] == code_text(o_, b_))
        iso.append(And(o_ >= 1, o_ <= 8, Not(_isnan(b_)), _rv(b_) >= 0, _rv(b_) < 100000))
        iso.append(LemmaInst('code_grammar', Implies(And(o_ >= 1, o_ <= 8, Not(_isnan(b_)), _rv(b_) >= 0, _rv(b_) < 100000),
                                                     z3.InRe(code_text(o_, b_), GROUP))))
    if sel:
        joined_ = None
        for s_ in sel:
            joined_ = code[s_] if joined_ is None else z3.Concat(joined_, z3.StringVal(' '), code[s_])
        iso.append(lift(result) == joined_)
    else:
        iso.append(is_code)
    out = {
        # C01: exactly 'NCD', exactly 'NSC', or one to three blank-separated groups (FEW|SCT|BKN|OVC)ddd
        'C01.grammar': Sequent(iso, Or(is_code, z3.InRe(lift(result), MSG_RE)), isolate=True),
        # C02: NCD only without the high-cloud flag
        'C02.ncd_only_without_flag': Sequent(reveal, Implies(result == 'NCD', Not(flag))),
    }
    if sel is None:
        # no table rows at all: the flag alone decides
        out['C02.empty_table'] = And(n == 0, result == If(flag, z3.StringVal('NSC'), z3.StringVal('NCD')))
        return out
    c = len(sel)
    rows = [code[s] for s in sel]
    joined = None
    for k, r in enumerate(rows):
        joined = r if joined is None else z3.Concat(joined, z3.StringVal(' '), r)
    out.update({
        # every group is the code of a listed row, in table order; all significant rows below the MSA are reported
        'C02.groups_are_codes': (result == joined) if c else is_code,
        'C01.reported_rows': And([And(sig[s], below(s), s >= 0, s < n) for s in sel]),
        'C01.no_zero_okta_group': And([okta[s] >= 1 for s in sel]),
        'C01.second_sct_third_bkn': And([okta[s] >= 1 + 2 * k for k, s in enumerate(sel)]),
        'C01.nondecreasing_height': And([_rv(base[sel[k]]) <= _rv(base[sel[k + 1]]) for k in range(c - 1)]),
        'C01.height_digits_nondecreasing': And([hnum(base[sel[k]]) <= hnum(base[sel[k + 1]]) for k in range(c - 1)]),
        'C02.complete': Forall(0, n, lambda i: Implies(And(sig[i], below(i)), Or([i == s for s in sel]))),
        # NCD / NSC are returned exactly when nothing is reportable
        'C02.code_iff_nothing_reported': Sequent(reveal, Iff(is_code, c == 0)),
        'C02.ncd_only_if_nothing_significant': Sequent(reveal, Forall(0, n, lambda i: Implies(result == 'NCD', Not(sig[i])))),
        # (an existential goal stands alone: the premises are local hypotheses of the sequent)
        'C02.nsc_only_if_cloud': Sequent(reveal + [lift(result) == z3.StringVal('NSC'), Not(flag)], Exists(0, n, lambda j: And(sig[j], Not(below(j))))),
    })
    if c == 0:
        out['C02.nsc_if_cloud_above'] = Forall(0, n, lambda i: Implies(Or(flag, And(sig[i], Not(below(i)))), result == 'NSC'))
    return out


def register(reg):
    for which in WHICH:
        reg.add(Contract(
            f'{CHUNK}.n_{which}', properties=('C01', 'C02', 'C05'),
            result=_n_which_result(which),
            notes='ghost: number of distinct set ids >= 0 in the per-hit assignment (None before the stage has run)'))

    reg.add(Contract(
        f'{CHUNK}._ncd_or_nsc', properties=('C01', 'C02'),
        params={'self': ChunkForMsg('layers', None, computed=False)},
        result=Str(),
        ensures=lambda result, self: {'flag_decides': result == If(self.fields['_clouds_above_msa_buffer'].t,
                                                                  z3.StringVal('NSC'), z3.StringVal('NCD'))},
        canaries={'always_ncd': lambda result, self: result == 'NCD'},
    ))

    cases = []
    for which in WHICH:
        for msa in (None, 'float'):
            cases.append((f'{which},msa={msa}', {'self': ChunkForMsg(which, msa), 'which': Const(which)}))
        cases.append((f'{which},not-computed', {'self': ChunkForMsg(which, None, computed=False), 'which': Const(which)}))
    reg.add(Contract(
        f'{CHUNK}.metar_msg', properties=('C01', 'C02'),
        cases=cases,
        raises={'AmpycloudError': lambda self, which: self.fields['_' + which] is None},
        ensures=_metar_msg_post,
        canaries={'never_three_groups': lambda result, self, which: z3.Not(z3.InRe(lift(result), z3.Concat(GROUP, BLANK_GROUP, BLANK_GROUP))),
                  'never_nsc': lambda result, self, which: result != 'NSC'},
        native_oracle=metar_msg_oracle,
    ))
    register_metarize(reg)
    register_metarize2(reg)
    register_cleanup(reg)
    register_minsep(reg)
    register_base_selection(reg)
    register_info(reg)
    register_setup(reg)
    register_merge(reg)
    register_slicing(reg)


# =============================================================================================
# metarize() and its helpers: the table invariant TI is the *postcondition* of metarize
# =============================================================================================
from pyvc.contracts import ListOf
from pyvc.values import SList, Opaque
from pyvc.pandas_model import fresh_column
from .spec import okta_of, p2o

TABLE_COLS = ['n_hits', 'perc', 'okta', 'height_base', 'height_mean', 'height_std', 'height_min', 'height_max',
              'thickness', 'fluffiness', 'code', 'significant', 'cluster_id']


def _unset_table(n, which, defined=()):
    cols = {}
    names = TABLE_COLS + (['isolated'] if which == 'slices' else []) + (['ncomp'] if which == 'groups' else [])
    for c in names:
        cols[c] = fresh_column(n, c, 'unset')
    return STable(n, cols)


class ChunkForMetarize(Spec):
    """abstract chunk as seen by metarize and its helpers.  Ghost state: N = number of distinct set ids >= 0 of
    `which` (n_<which>), max_hits = number of distinct (ceilo, dt) measurements (max_hits_per_layer >= 1 because
    construction refuses empty frames), nhits[i] = distinct (ceilo, dt) measurements among the members of set i."""

    def __init__(self, which, with_pdf=None):
        self.which = which

    def make(self, name, ctx):
        N = z3.Int('N')
        ctx.assume(N >= 0)
        ctx.len_vars.append(N)
        mh = z3.Int('max_hits')
        nh = z3.Array('nhits', z3.IntSort(), z3.IntSort())
        max0, max8 = z3.Int('MAX_HITS_OKTA0'), z3.Int('MAX_HOLES_OKTA8')
        ctx.assume(mh >= 1)
        ctx.assume(Forall(0, N, lambda i: And(nh[i] >= 0, nh[i] <= mh), name='nh'))
        prms = {'MAX_HITS_OKTA0': SInt(max0), 'MAX_HOLES_OKTA8': SInt(max8), 'MSA': None}
        fields = {'_prms': prms, '_data': Opaque('chunk data'), '_slices': None, '_groups': None, '_layers': None,
                  '_clouds_above_msa_buffer': SBool(z3.Bool('flag'))}
        ghost = {'n_' + self.which: SInt(N, 'int'), 'max_hits': mh, 'nhits': nh, 'N': N, 'which': self.which}
        _hit_table(ctx, IDCOLS[self.which], facts=False)       # ghost view of the hit table the helpers' contracts speak about
        for nm, t in (('N', N), ('max_hits', mh), ('MAX_HITS_OKTA0', max0), ('MAX_HOLES_OKTA8', max8)):
            ctx.extractors[nm] = (lambda m, t=t: smt.z3val_to_py(m.eval(t, model_completion=True)))
        ctx.extractors['nhits'] = lambda m: [smt.z3val_to_py(m.eval(nh[j], model_completion=True))
                                             for j in range(min(8, smt.z3val_to_py(m.eval(N, model_completion=True))))]
        return SChunk(CHUNK, fields, ghost)

    def describe(self):
        return f'chunk(which={self.which}) with ghost N, max_hits, nhits[]'


class PdfAfterSetup(Spec):
    """the table handed over by _setup_sligrolay_pdf: N rows of NaN objects, cluster_id (and ncomp for groups) set"""

    def __init__(self, which, stage=0):
        self.which, self.stage = which, stage

    def make(self, name, ctx):
        N = z3.Int('N')
        t = _unset_table(N, self.which)
        t.cols['cluster_id'] = fresh_column(N, 'cluster_id', 'int', 'npint')
        if self.which == 'groups':
            t.cols['ncomp'] = fresh_column(N, 'ncomp', 'int', 'int')
        return t


class CidsSpec(Spec):
    def make(self, name, ctx):
        N = z3.Int('N')
        arr = z3.Array('cids', z3.IntSort(), z3.IntSort())
        return SList('int', N, arr, None, 'npint')


def _amount_post_cols(T, self):
    g = self.ghost
    N, mh, nh = g['N'], g['max_hits'], g['nhits']
    max0, max8 = self.fields['_prms']['MAX_HITS_OKTA0'].t, self.fields['_prms']['MAX_HOLES_OKTA8'].t
    okta, nhits, perc = T.col('okta'), T.col('n_hits'), T.col('perc')
    return {
        'n_hits': Forall(0, N, lambda i: nhits[i] == nh[i]),
        'perc': Forall(0, N, lambda i: And(Not(_isnan(perc[i])), _rv(perc[i]) * z3.ToReal(mh) == 100 * z3.ToReal(nh[i]))),
        # C03: 0 if count <= MAX_HITS_OKTA0, else 8 if missing <= MAX_HOLES_OKTA8, else WMO binning of the percentage
        'okta': Forall(0, N, lambda i: okta[i] == okta_of(nh[i], mh, max0, max8)),
        'okta_range': Forall(0, N, lambda i: And(okta[i] >= 0, okta[i] <= 8)),
    }


def _amount_result(name, ctx, self, which, pdf, cluster_ids):
    """modular use: the same table object comes back with n_hits / perc / okta columns filled for every row;
    okta cells hold Python ints"""
    N = pdf.n
    pdf.cols['n_hits'] = fresh_column(N, 'n_hits', 'int', 'npint')
    pdf.cols['perc'] = fresh_column(N, 'perc', 'float', 'npfloat')
    pdf.cols['okta'] = fresh_column(N, 'okta', 'int', 'int')
    return pdf


def _amount_ensures(result, self, which, pdf, cluster_ids, _ty=None):
    out = dict(_amount_post_cols(result, self))
    # every cell of the three columns holds a value; okta cells are Python ints (precondition of okta2code)
    for c in ('n_hits', 'perc', 'okta'):
        col = result.col(c)
        if col.defd is not None:
            out[f'defined.{c}'] = Forall(0, result.n, lambda i, col=col: col.defd(i))
    out['okta_is_python_int'] = (getattr(result.col('okta'), 'ty', None) or _col_ty(result.col('okta'))) in ('int',)
    out['same_table'] = result is pdf
    return out


def _col_ty(col):
    from pyvc.values import pytype_tag
    return pytype_tag(col.at(z3.Int('__probe_row')))


def _hits_value(interp, fr):
    """assumed meaning of the per-ceilometer counting expression: a list whose np.sum is nhits[ind]"""
    self = fr.env['self']
    ind = fr.env['ind']
    return GhostHits(self.ghost['nhits'][ind.t])


class GhostHits:
    def __init__(self, total):
        self.total = total


def _np_sum(interp, args, kwargs):
    (x,) = args
    if isinstance(x, GhostHits):
        return SInt(x.total, 'npint')
    from pyvc.lib import _np_sum_c
    return _np_sum_c(interp, args, kwargs)


def cell(col, k, pred):
    """cell k of the column holds a value satisfying pred"""
    if col.dtype == 'unset':
        return z3.BoolVal(False)
    d = col.defd(k) if col.defd is not None else z3.BoolVal(True)
    return And(d, pred(col[k]))


def _amount_inv(E, i):
    T, self = E.pdf, E.self
    g = self.ghost
    N, mh, nh = g['N'], g['max_hits'], g['nhits']
    max0, max8 = self.fields['_prms']['MAX_HITS_OKTA0'].t, self.fields['_prms']['MAX_HOLES_OKTA8'].t
    okta, nhits, perc = T.col('okta'), T.col('n_hits'), T.col('perc')
    inv = {
        'n_hits': Forall(0, i, lambda k: cell(nhits, k, lambda v: v == nh[k])),
        'perc': Forall(0, i, lambda k: cell(perc, k, lambda v: And(Not(_isnan(v)), _rv(v) * z3.ToReal(mh) == 100 * z3.ToReal(nh[k])))),
        'okta': Forall(0, i, lambda k: cell(okta, k, lambda v: And(v == okta_of(nh[k], mh, max0, max8), v >= 0, v <= 8))),
        'rows': T.n == N,
    }
    return inv


def register_metarize(reg):
    from pyvc.lib import LIB, LIB_DOC
    LIB['numpy.sum'] = _np_sum
    LIB_DOC['numpy.sum'] = 'np.sum(list of per-ceilometer counts): their sum (numpy integer)'

    reg.add(Contract(
        f'{CHUNK}.max_hits_per_layer', properties=('C03',),
        params={'self': ChunkForMetarize('layers')},
        result=lambda name, ctx, self: SInt(self.ghost['max_hits'], 'int'),
        ensures=lambda result, self, _ty=None: {'is_total': result == self.ghost['max_hits']},
        expr_contracts={'out': dict(
            source="[len(np.unique(self.data[self.data['ceilo'] == ceilo]['dt'])) for ceilo in self.ceilos]",
            value=lambda interp, fr: GhostHits(fr.env['self'].ghost['max_hits']),
            doc=('per-ceilometer numbers of distinct time stamps of the chunk; their sum is the number of distinct (ceilometer, time) '
                 'measurements (ghost max_hits >= 1); ASSUMED library meaning, checked by the bounded stand-in of C03'))},
        canaries={'zero': lambda result, self: result == 0},
        notes='the counting expression is pinned by its exact AST; the function body around it is verified (sum, int())'))

    for which in WHICH:
        pass
    cases = [(w, {'self': ChunkForMetarize(w), 'which': Const(w), 'pdf': PdfAfterSetup(w), 'cluster_ids': CidsSpec()}) for w in WHICH]
    reg.add(Contract(
        f'{CHUNK}._calculate_cloud_amount', properties=('C03', 'C01'),
        cases=cases,
        result=_amount_result,
        ensures=_amount_ensures,
        loops={0: {'invariant': _amount_inv, 'modifies': ['pdf', 'ind', 'cid', 'in_sligrolay', 'hits_per_ceilo'],
                   'modifies_cols': {'pdf': ['n_hits', 'perc', 'okta']},
                   'col_models': {'n_hits': lambda n: fresh_column(n, 'n_hits', 'int', 'npint', with_defd=True),
                                  'perc': lambda n: fresh_column(n, 'perc', 'float', 'npfloat', with_defd=True),
                                  'okta': lambda n: fresh_column(n, 'okta', 'int', 'int', with_defd=True)}}},
        expr_contracts={
            'in_sligrolay': dict(source="self.data[which[:-1]+'_id'] == cid",
                                 value=lambda interp, fr: Opaque('member mask'),
                                 doc='boolean row mask of the members of set cid (only used inside the counting expression)'),
            'hits_per_ceilo': dict(
                source="""[len(np.unique(self.data[in_sligrolay * (self.data['ceilo'] == ceilo)]['dt'])) for ceilo in self.ceilos]""",
                value=_hits_value,
                doc=('per-ceilometer numbers of distinct time stamps among the members of set cid; their sum is the number of '
                     'distinct (ceilometer, time) measurements contributing to the set (ghost nhits[ind]); ASSUMED library meaning '
                     'of np.unique / boolean masks, checked by the bounded stand-in of C03')),
        },
        canaries={'okta_never_8': lambda result, self, which, pdf, cluster_ids: Forall(0, result.n, lambda i: result.col('okta')[i] != 8),
                  'lt_instead_of_le': lambda result, self, which, pdf, cluster_ids: Forall(
                      0, result.n, lambda i: Implies(self.ghost['nhits'][i] == self.fields['_prms']['MAX_HITS_OKTA0'].t,
                                                     result.col('okta')[i] != 0))},
    ))


# ---- metarize ----------------------------------------------------------------------------------------

def _setup_result(name, ctx, self, which='slices'):
    N = self.ghost['N']
    t = _unset_table(N, which)
    t.cols['cluster_id'] = fresh_column(N, 'cluster_id', 'int', 'npint')
    if which == 'groups':
        nc = fresh_column(N, 'ncomp', 'int', 'int')
        t.cols['ncomp'] = nc
    cids = SList('int', N, z3.Array('cids', z3.IntSort(), z3.IntSort()), None, 'npint')
    return (t, cids)


def _base_result(name, ctx, self, which, pdf, cluster_ids):
    pdf.cols['height_base'] = fresh_column(pdf.n, 'height_base', 'float', 'npfloat')
    return pdf


def _base_ensures(result, self, which, pdf, cluster_ids):
    b = result.col('height_base')
    # a base is the percentile of a non-empty selection of member heights: finite, and inside the range of the
    # hit heights -- [0, 1e5) ft by the properties' own quantifier
    return {'finite_in_range': Forall(0, result.n, lambda i: And(Not(_isnan(b[i])), _rv(b[i]) >= 0, _rv(b[i]) < 100000))}


def _info_result(name, ctx, self, which, pdf, cluster_ids):
    for c in ('height_mean', 'height_std', 'height_min', 'height_max', 'thickness', 'fluffiness'):
        pdf.cols[c] = fresh_column(pdf.n, c, 'float', 'npfloat')
    return pdf


def _metarize_inv(E, i):
    T = E.pdf
    okta, base, code = T.col('okta'), T.col('height_base'), T.col('code')
    return {'code': Forall(0, i, lambda k: cell(code, k, lambda v: v == code_text(okta[k], base[k])))}


def _metarize_post(result, self, which):
    T = self.fields['_' + which]
    if not isinstance(T, STable):
        return {'table_assigned': False}
    g = self.ghost
    N = g['N']
    inv = table_inv(T, tag='post')
    out = {'TI.' + k: v for k, v in inv.items()}
    out['TI.rows'] = T.n == N           # one row per set id >= 0
    out['TI.range_index'] = T.index_is_range
    okta = T.col('okta')
    nh, mh = g['nhits'], g['max_hits']
    max0, max8 = self.fields['_prms']['MAX_HITS_OKTA0'].t, self.fields['_prms']['MAX_HOLES_OKTA8'].t
    pi = getattr(T, 'ghost_perm', (None, None))[0]
    if pi is not None:
        # C03 through the sort: row i of the final table is set pi(i) and carries that set's okta
        out['C03.okta_rule'] = Forall(0, N, lambda i: okta[i] == okta_of(nh[pi(i)], mh, max0, max8))
    # C04: every base lies between the lowest and the highest member hit of its own set; thickness = max - min; mean inside
    mn, mx, me, th = (T.col(c) for c in ('height_min', 'height_max', 'height_mean', 'thickness'))
    base = T.col('height_base')
    out['C04.base_between_min_and_max'] = Forall(0, N, lambda i: And(_rv(mn[i]) <= _rv(base[i]), _rv(base[i]) <= _rv(mx[i])))
    out['C04.mean_between_min_and_max'] = Forall(0, N, lambda i: And(_rv(mn[i]) <= _rv(me[i]), _rv(me[i]) <= _rv(mx[i])))
    out['C04.thickness'] = Forall(0, N, lambda i: And(Not(_isnan(th[i])), _rv(th[i]) == _rv(mx[i]) - _rv(mn[i]), _rv(th[i]) >= 0))
    return out


def register_metarize2(reg):
    def _setup_ensures(result, self, which='slices'):
        pdf, cids = result
        return {'ids_are_sets': Forall(0, cids.len, lambda k: cids[k] >= 0), 'one_row_per_set': And(cids.len == self.ghost['N'], pdf.n == self.ghost['N'])}

    for nm, res, ens, props in (
            ('_setup_sligrolay_pdf', _setup_result, _setup_ensures, ('C05', 'C14', 'C01')),
            ('_calculate_sligrolay_base_height', _base_result, _base_ensures, ('C04', 'C01')),
            ('_add_sligrolay_information', _info_result, None, ('C04',))):
        reg.add(Contract(f'{CHUNK}.{nm}', properties=props, result=res, ensures=ens,
                         notes='ASSUMED at the call site in metarize (not yet verified against its body)'))
    # raises of _setup_sligrolay_pdf in modular use
    reg.get(f'{CHUNK}._setup_sligrolay_pdf').raises = {
        'AmpycloudError': lambda self, which='slices': Or(self.ghost.get('n_' + which) is None,
                                                          And(which == 'groups', self.fields['_layers'] is not None,
                                                              self.ghost['N'] >= 1) if which == 'groups' else False)}

    reg.add(Contract(
        f'{CHUNK}.metarize', properties=('C01', 'C02', 'C03', 'C04', 'C05'),
        cases=[(w, {'self': ChunkForMetarize(w), 'which': Const(w)}) for w in WHICH],
        ensures=_metarize_post,
        loops={0: {'invariant': _metarize_inv, 'modifies': ['pdf', 'ind', '_'], 'modifies_cols': {'pdf': ['code']},
                   'col_models': {'code': lambda n: fresh_column(n, 'code', 'str', None, with_defd=True)}}},
        canaries={'unsorted': lambda result, self, which: z3.BoolVal(False) if not isinstance(self.fields['_' + which], STable) else
                  Forall(0, self.fields['_' + which].n, lambda i: Not(self.fields['_' + which].col('significant')[i])),
                  'base_is_always_the_minimum': lambda result, self, which: z3.BoolVal(False) if not isinstance(self.fields['_' + which], STable) else
                  Forall(0, self.fields['_' + which].n, lambda i: _rv(self.fields['_' + which].col('height_base')[i]) == _rv(self.fields['_' + which].col('height_min')[i]))},
    ))


# =============================================================================================
# _cleanup_pdf (C07): cropping above MSA + MSA_HIT_BUFFER, row by row
# =============================================================================================
from pyvc.rows_model import SRows
from pyvc.values import cnt as _cnt_fn, BoolArr as _BoolArr


def _checked_frame(name, ctx, pdf=None, req_cols=None):
    """modular result of check_data_consistency: a fresh frame with exactly the four columns and the required dtypes;
    nothing is known about its index labels (the user's labels are kept)"""
    n = z3.Int('rows_n')
    ctx.assume(n >= 1)
    ctx.len_vars.append(n)
    ceilo = z3.Array('in_ceilo', z3.IntSort(), z3.StringSort())
    dt = z3.Array('in_dt', z3.IntSort(), z3.RealSort())
    h = z3.Array('in_height', z3.IntSort(), z3.RealSort())
    hn = z3.Array('in_height_nan', z3.IntSort(), z3.BoolSort())
    ty = z3.Array('in_type', z3.IntSort(), z3.IntSort())
    lab = z3.Array('in_label', z3.IntSort(), z3.IntSort())
    cols = {'ceilo': (lambda i: SStr(ceilo[i])), 'dt': (lambda i: SFloat(dt[i], False, 'npfloat')),
            'height': (lambda i: SFloat(h[i], hn[i], 'npfloat')), 'type': (lambda i: SInt(ty[i], 'npint'))}
    fr = SRows(n, cols, (lambda i: lab[i]))
    fr.kinds = {'ceilo': 'str', 'dt': 'float', 'height': 'float', 'type': 'int'}
    ctx.ghost['checked'] = dict(n=n, ceilo=ceilo, dt=dt, h=h, hn=hn, ty=ty, lab=lab)

    def ext(m):
        ln = smt.z3val_to_py(m.eval(n, model_completion=True))
        ev = lambda t: smt.z3val_to_py(m.eval(t, model_completion=True))
        return [{'label': ev(lab[j]), 'ceilo': 'A', 'dt': float(-j), 'type': ev(ty[j]),
                 'height': float('nan') if ev(hn[j]) else ev(h[j])} for j in range(min(ln, 8))]
    ctx.extractors['rows'] = ext
    return fr


class ChunkForCleanup(Spec):
    def __init__(self, msa):
        self.msa = msa

    def make(self, name, ctx):
        msa = None if self.msa is None else Float(nan=False).make('MSA', ctx)
        buf = Float(nan=False).make('MSA_HIT_BUFFER', ctx)
        max0 = Int().make('MAX_HITS_OKTA0', ctx)
        fields = {'_prms': {'MSA': msa, 'MSA_HIT_BUFFER': buf, 'MAX_HITS_OKTA0': max0}, 'DATA_COLS': Opaque('DATA_COLS')}
        return SChunk('ampycloud.data.AbstractChunk', fields, {})

    def describe(self):
        return f'chunk under construction (MSA {"None" if self.msa is None else "float"})'


def _same_float(a, b):
    return And(_isnan(a) == _isnan(b), Implies(Not(_isnan(a)), _rv(a) == _rv(b)))


def _cleanup_post(result, self, data):
    ctx = smt.CURRENT_CTX
    g = ctx.ghost['checked']
    n, h, hn, ty, dt, ceilo = g['n'], g['h'], g['hn'], g['ty'], g['dt'], g['ceilo']
    msa = self.fields['_prms']['MSA']
    flag = self.fields.get('_clouds_above_msa_buffer')
    flag_t = lift(flag) if isinstance(flag, bool) else flag.t
    R = result
    rt, rh, rdt, rc = R.cols['type'], R.cols['height'], R.cols['dt'], R.cols['ceilo']

    def unchanged(i):
        return And(rt(i).t == ty[i], _same_float(rh(i), SFloat(h[i], hn[i])), rdt(i).v == dt[i], rc(i).t == ceilo[i])
    if msa is None:
        return {'no_msa.nothing_cropped': Forall(0, n, lambda i: And(R.present(i), unchanged(i))),
                'no_msa.flag_false': Not(flag_t)}
    lim = msa.v + self.fields['_prms']['MSA_HIT_BUFFER'].v
    max0 = self.fields['_prms']['MAX_HITS_OKTA0'].t
    above = lambda i: And(Not(hn[i]), h[i] > lim)
    out = {
        # every hit at or below the limit (and every non-detection) is kept unchanged
        'rows.kept_at_or_below_limit': Forall(0, n, lambda i: Implies(Not(above(i)), And(R.present(i), unchanged(i)))),
        # first hits / VV hits above the limit become non-detections
        'rows.first_hits_become_nondetections': Forall(0, n, lambda i: Implies(And(above(i), ty[i] <= 1), And(
            R.present(i), rt(i).t == 0, _isnan(rh(i)), rdt(i).v == dt[i], rc(i).t == ceilo[i]))),
        # second and higher hits above the limit are removed
        'rows.higher_hits_dropped': Forall(0, n, lambda i: Implies(And(above(i), ty[i] > 1), Not(R.present(i)))),
    }
    # the high-cloud flag: raised iff the number of hits above the limit exceeds MAX_HITS_OKTA0 -- stated whatever way the code
    # counts; the lemma instances below only help with the two counting idioms known so far
    U = smt.fresh('above', _BoolArr)
    ctx.assume(Forall(0, n, lambda i: U[i] == above(i), name='ua'))
    ctx.note_cnt(U)
    goal = flag_t == (_cnt_fn(U, n) > max0)
    masks = ctx.ghost.get('label_masks', [])
    sums = [m for _, m in ctx.ghost.get('mask_sums', [])]
    if len(masks) == 2 and not sums:
        A, B = masks          # len(labels of first / VV hits above) + len(labels of higher hits above)
        out['flag.masks_partition_the_hits_above'] = Forall(0, n, lambda i: And(U[i] == Or(A[i], B[i]), Not(And(A[i], B[i]))))
        # cnt_union (proved lemma): for a disjoint union the counts add up -- premise = the clause above
        out['flag.raised_iff_more_than_MAX_HITS_OKTA0_above'] = Sequent(
            [LemmaInst('cnt_union', _cnt_fn(U, n) == _cnt_fn(A, n) + _cnt_fn(B, n))], goal)
    elif len(sums) == 1:
        M = sums[0]           # (some mask).sum(): the mask must be "above the limit" row by row (then the counts agree: lemma cnt_ext)
        out['flag.counted_mask_is_the_hits_above'] = Forall(0, n, lambda i: M[i] == U[i])
        out['flag.raised_iff_more_than_MAX_HITS_OKTA0_above'] = Sequent(
            [LemmaInst('cnt_ext', _cnt_fn(M, n) == _cnt_fn(U, n))], goal)
    else:
        out['flag.raised_iff_more_than_MAX_HITS_OKTA0_above'] = goal
    return out


def register_cleanup(reg):
    refused = z3.Bool('input_refused')
    reg.add(Contract(
        'ampycloud.utils.utils.check_data_consistency', properties=('C15', 'C07', 'C10'),
        result=_checked_frame,
        raises={'AmpycloudError': lambda pdf, req_cols=None: refused},
        notes='ASSUMED at the call site in _cleanup_pdf: a fresh four-column frame with the required dtypes (see C15 for the function itself)'))
    reg.add(Contract(
        'ampycloud.data.AbstractChunk._cleanup_pdf', properties=('C07', 'C05', 'C10'),
        cases=[('msa=None', {'self': ChunkForCleanup(None), 'data': Const(Opaque('user frame (deep copy)'))}),
               ('msa=float', {'self': ChunkForCleanup('float'), 'data': Const(Opaque('user frame (deep copy)'))})],
        raises={'AmpycloudError': lambda self, data: refused},
        ensures=_cleanup_post,
        native_oracle=cleanup_oracle,
        canaries={'nothing_ever_dropped': lambda result, self, data: Forall(0, smt.CURRENT_CTX.ghost['checked']['n'], lambda i: result.present(i)),
                  'flag_never_raised': lambda result, self, data: Not(lift(self.fields['_clouds_above_msa_buffer'])
                                                                    if isinstance(self.fields['_clouds_above_msa_buffer'], bool)
                                                                    else self.fields['_clouds_above_msa_buffer'].t)},
    ))


# =============================================================================================
# _get_min_sep_for_height (C06, C08)
# =============================================================================================

class ChunkForMinSep(Spec):
    def make(self, name, ctx):
        lims = ListOf('float', elem_ty='float').make('MIN_SEP_LIMS', ctx)
        vals = ListOf('float', elem_ty='float').make('MIN_SEP_VALS', ctx)
        # documented meaning of the parameters: ascending limits (lengths are checked by the code itself)
        ctx.assume(Forall(0, lims.len, lambda i, j: _rv(lims[i]) <= _rv(lims[j]), arity=2, name='so'))
        return SChunk(CHUNK, {'_prms': {'MIN_SEP_LIMS': lims, 'MIN_SEP_VALS': vals}}, {})

    def describe(self):
        return 'chunk with symbolic MIN_SEP_LIMS (ascending) / MIN_SEP_VALS lists'


def _minsep_post(result, self, height):
    lims, vals = self.fields['_prms']['MIN_SEP_LIMS'], self.fields['_prms']['MIN_SEP_VALS']
    calls = smt.CURRENT_CTX.ghost.get('searchsorted_calls', [])
    if len(calls) != 1:
        return {'one_lookup': False}
    _, _, k = calls[0]
    h = _rv(height)
    return {
        # the value of the bin the height falls into: all limits below k are < height, all from k on are >= height
        'bin': And(k >= 0, k <= lims.len, Forall(0, lims.len, lambda i: And(Implies(i < k, _rv(lims[i]) < h), Implies(i >= k, _rv(lims[i]) >= h)))),
        'value': And(_rv(result) == _rv(vals[k]), _isnan(result) == _isnan(vals[k])),
    }


def register_minsep(reg):
    reg.add(Contract(
        f'{CHUNK}._get_min_sep_for_height', properties=('C06', 'C08'),
        params={'self': ChunkForMinSep(), 'height': Float(nan=False)},
        result=Float(nan=False),
        raises={'AmpycloudError': lambda self, height: self.fields['_prms']['MIN_SEP_LIMS'].len != self.fields['_prms']['MIN_SEP_VALS'].len - 1},
        ensures=_minsep_post,
        canaries={'always_first_value': lambda result, self, height: _rv(result) == _rv(self.fields['_prms']['MIN_SEP_VALS'][0])},
    ))


# =============================================================================================
# base height of a set: selection logic (C04) -- _calculate_sligrolay_base_height / _calculate_base_height_for_selection
# =============================================================================================
from pyvc.lib import SArr
from pyvc.rows_model import SRowSeries

BaseOfSet = z3.Function('base_of_set', z3.IntSort(), z3.RealSort())        # ghost: value returned by the base routine for table row k
#: ghost row -> hit maps.  In the base routine: a member hit not above / not below the base of row k (ghost-assigned per iteration).
#: In _add_sligrolay_information they are unconstrained, so a clause stated at WitLo(k) / WitHi(k) is the clause for every hit.
WitLo = z3.Function('wit_lo', z3.IntSort(), z3.IntSort())
WitHi = z3.Function('wit_hi', z3.IntSort(), z3.IntSort())


def _between_members(base_k, k, g, cid_k, lo=None, hi=None):
    lo = WitLo if lo is None else lo
    hi = WitHi if hi is None else hi
    n, ids, h = g['n'], g['ids'], g['h']
    return And(lo(k) >= 0, lo(k) < n, ids[lo(k)] == cid_k, h[lo(k)] <= base_k,
               hi(k) >= 0, hi(k) < n, ids[hi(k)] == cid_k, base_k <= h[hi(k)])


import itertools as _itw
_witno = _itw.count()


def _base_ensures_full(result, self, which, pdf, cluster_ids):
    ctx = smt.CURRENT_CTX
    out = {
        # a base lies between two member hits: finite and inside the range of the hit heights
        'finite_in_range': Forall(0, result.n, lambda i: cell(result.col('height_base'), i, lambda v: And(Not(_isnan(v)), _rv(v) >= 0, _rv(v) < 100000))),
        'same_table': result is pdf}
    if ctx.modular_site is None:
        # own proof: the ghost functions BaseOfSet / WitLo / WitHi are assigned row by row in the loop
        out['every_row_gets_its_base'] = Forall(0, result.n, lambda k: cell(result.col('height_base'), k, lambda v: And(Not(_isnan(v)), _rv(v) == BaseOfSet(k))))
        lo = hi = None
    else:
        # at a call site: the witnesses of *this* call (a second call on another table must not speak about the same symbols)
        j = next(_witno)
        lo = z3.Function(f'wit_lo@{j}', z3.IntSort(), z3.IntSort())
        hi = z3.Function(f'wit_hi@{j}', z3.IntSort(), z3.IntSort())
        ctx.ghost.setdefault('base_wits', []).append((lo, hi))
    # C04: each base lies between two member hits of its own set
    out['between_two_members'] = Forall(0, result.n, lambda k: cell(result.col('height_base'), k, lambda v: _between_members(
        _rv(v), k, ctx.ghost['hits'], cluster_ids[k], lo, hi)))
    return out


def _hit_table(ctx, idcol, facts=True):
    n = z3.Int('hits_n')
    ctx.assume(n >= 1)
    ctx.len_vars.append(n)
    ceilo = z3.Array('hit_ceilo', z3.IntSort(), z3.StringSort())
    dt = z3.Array('hit_dt', z3.IntSort(), z3.RealSort())
    h = z3.Array('hit_height', z3.IntSort(), z3.RealSort())
    hn = z3.Array('hit_height_nan', z3.IntSort(), z3.BoolSort())
    ty = z3.Array('hit_type', z3.IntSort(), z3.IntSort())
    ids = z3.Array('hit_' + idcol, z3.IntSort(), z3.IntSort())
    cols = {'ceilo': (lambda i: SStr(ceilo[i])), 'dt': (lambda i: SFloat(dt[i], False, 'npfloat')),
            'height': (lambda i: SFloat(h[i], hn[i], 'npfloat')), 'type': (lambda i: SInt(ty[i], 'npint')),
            idcol: (lambda i: SInt(ids[i], 'npint'))}
    fr = SRows(n, cols, (lambda i: i), positional=True)
    fr.kinds = {'ceilo': 'str', 'dt': 'float', 'height': 'float', 'type': 'int', idcol: 'int'}
    if facts:
        # class invariant of the hit table (C05): a hit belongs to a set iff its height is valid
        ctx.assume(Forall(0, n, lambda i: (ids[i] >= 0) == Not(hn[i]), name='ci'))
        # the properties' own quantifier: hit heights in [0, 100000) ft
        ctx.assume(Forall(0, n, lambda i: Implies(Not(hn[i]), And(h[i] >= 0, h[i] < 100000)), name='hr'))
    ctx.ghost['hits'] = dict(n=n, ceilo=ceilo, dt=dt, h=h, hn=hn, ty=ty, ids=ids, frame=fr)

    def ext(m):
        ev = lambda t: smt.z3val_to_py(m.eval(t, model_completion=True))
        ln = ev(n)
        return [{'ceilo': ev(ceilo[j]), 'dt': ev(dt[j]), 'height': None if ev(hn[j]) else ev(h[j]), 'type': ev(ty[j]), idcol: ev(ids[j])}
                for j in range(min(int(ln), 8))]
    ctx.extractors['hits'] = ext
    return fr


class ChunkWithHits(Spec):
    def __init__(self, which, n_excl):
        self.which, self.n_excl = which, n_excl

    def make(self, name, ctx):
        idcol = IDCOLS[self.which]
        fr = _hit_table(ctx, idcol)
        excl = [SStr(z3.String(f'excluded_{k}')) for k in range(self.n_excl)]
        prms = {'EXCLUDE_FOR_BASE_HEIGHT_CALC': excl, 'MAX_HITS_OKTA0': Int(lo=0).make('MAX_HITS_OKTA0', ctx),     # documented meaning: a count
                'BASE_LVL_LOOKBACK_PERC': Int(lo=1, hi=100).make('BASE_LVL_LOOKBACK_PERC', ctx),
                'BASE_LVL_HEIGHT_PERC': Int(lo=0, hi=100).make('BASE_LVL_HEIGHT_PERC', ctx),
                'LOWESS': {'frac': SFloat(z3.Real('LOWESS_frac'), False, 'float'), 'it': SInt(z3.Int('LOWESS_it'), 'int')}}
        N = z3.Int('N')
        ctx.assume(N >= 0)
        return SChunk(CHUNK, {'_prms': prms, '_data': fr}, {'N': N, 'which': self.which})

    def describe(self):
        return f'chunk with a symbolic hit table, which={self.which}, {self.n_excl} excluded ceilometer name(s)'


IDCOLS = {'slices': 'slice_id', 'groups': 'group_id', 'layers': 'layer_id'}


class MaskParam(Spec):
    """a boolean row mask over the chunk's hit table (argument of _calculate_base_height_for_selection)"""

    def make(self, name, ctx):
        M = z3.Array('selection', z3.IntSort(), z3.BoolSort())
        fr = ctx.ghost['hits']['frame']
        return SRowSeries(fr, lambda i: SBool(M[i], 'npbool'), 'bool')

    def describe(self):
        return 'boolean row mask over the hit table'


def _time_sorted_selection(interp, fr):
    """assumed meaning of the pinned argument: heights of the selected hits, ordered by ascending dt (most recent last)"""
    ctx = interp.ctx
    L = smt.fresh_int('sel_len')
    ctx.assume(L >= 0)
    v = smt.fresh('sel_heights', z3.ArraySort(z3.IntSort(), z3.RealSort()))
    vn = smt.fresh('sel_heights_nan', BoolArr)
    arr = SArr(L, lambda i: SFloat(v[i], vn[i], 'npfloat'), 'float')
    ctx.ghost['time_sorted_selection'] = arr
    mask = fr.env['data_indexer']
    g = ctx.ghost['hits']
    # length = number of selected rows; non-empty iff some row is selected; values are heights of selected rows (NaN iff that height is NaN)
    w = smt.fresh_int('selw')
    ctx.assume(z3.Implies(L > 0, z3.And(w >= 0, w < g['n'], to_bool(mask.at(w)))))
    ctx.assume(Forall(0, g['n'], lambda j: Implies(to_bool(mask.at(j)), L > 0), name='sl'))
    pos = z3.Function('sel_pos', z3.IntSort(), z3.IntSort())
    ctx.assume(Forall(0, L, lambda k: And(pos(k) >= 0, pos(k) < g['n'], to_bool(mask.at(pos(k))), v[k] == g['h'][pos(k)], vn[k] == g['hn'][pos(k)]), name='sp'))
    ctx.assume(Forall(0, L, lambda a, b: g['dt'][pos(a)] <= g['dt'][pos(b)], arity=2, name='st'))
    ctx.term_maps.append(pos)
    ctx.hint(w)
    return arr


def _sel_base_result(name, ctx, self, data_indexer):
    r = smt.fresh_real('set_base')
    out = SFloat(r, False, 'npfloat')
    ctx.ghost.setdefault('base_calls', []).append((data_indexer, out))
    return out


def _sel_requires(self, data_indexer):
    fr = self.fields['_data']
    g = smt.CURRENT_CTX.ghost['hits']
    # the selection handed in is non-empty and holds valid heights only (else calc_base_height refuses / percentile is NaN)
    return {'selection_non_empty': Exists(0, fr.n, lambda j: to_bool(data_indexer.at(j))),
            'selection_has_valid_heights': Forall(0, fr.n, lambda j: Implies(to_bool(data_indexer.at(j)), Not(g['hn'][j])))}


def to_bool(v):
    from pyvc.values import to_bool_term
    return to_bool_term(v)


def _slb_inv(E, i):
    T = E.pdf
    base = T.col('height_base')
    g = smt.CURRENT_CTX.ghost['hits']
    return {'bases': Forall(0, i, lambda k: cell(base, k, lambda v: And(Not(_isnan(v)), _rv(v) == BaseOfSet(k), _rv(v) >= 0, _rv(v) < 100000))),
            'between_two_members': Forall(0, i, lambda k: cell(base, k, lambda v: _between_members(_rv(v), k, g, E.cluster_ids[k]))),
            'rows': T.n == E.cluster_ids.len}


def _slb_body(E, i):
    """what one iteration does for table row i (set id cid): the base routine is called once, on the right selection"""
    ctx = smt.CURRENT_CTX
    self = E.self
    g = ctx.ghost['hits']
    n, ids, ceilo = g['n'], g['ids'], g['ceilo']
    excl = self.fields['_prms']['EXCLUDE_FOR_BASE_HEIGHT_CALC']
    max0 = self.fields['_prms']['MAX_HITS_OKTA0'].t
    calls = ctx.ghost.get('base_calls', [])
    if len(calls) != 1:
        return {'one_call_of_the_base_routine': False}
    mask, res = calls[0]
    cid = E.cid
    member = lambda j: ids[j] == cid
    allowed = lambda j: And([ceilo[j] != x.t for x in excl]) if excl else True
    # ghost assignment: BaseOfSet(i) := the value the base routine returned for this set (unconstrained before: the invariant only
    # speaks about rows k < i)
    ctx.assume(BaseOfSet(i) == res.v)
    wits = ctx.ghost.get('sel_witnesses', [])
    if len(wits) != 1:
        return {'one_call_of_the_base_routine': False}
    # ghost assignment: WitLo(i) / WitHi(i) := the selected hits the base routine's contract names as lying not above / not below
    ctx.assume(And(WitLo(i) == wits[0][0], WitHi(i) == wits[0][1]))
    ctx.hint(wits[0][0], wits[0][1])
    out = {'cell_holds_the_result': cell(E.pdf.col('height_base'), i, lambda v: _rv(v) == res.v)}
    if not excl:
        out['selection_is_all_members'] = Forall(0, n, lambda j: to_bool(mask.at(j)) == member(j))
        return out
    F = smt.fresh('filtered', BoolArr)
    ctx.assume(Forall(0, n, lambda j: F[j] == And(member(j), allowed(j)), name='fd'))
    ctx.note_cnt(F)
    enough = cnt(F, n) > max0
    # hits of the excluded ceilometers are left out when more than MAX_HITS_OKTA0 other hits remain *in this set*, else all members
    out['selection_with_fallback'] = Forall(0, n, lambda j: to_bool(mask.at(j)) == If(enough, And(member(j), allowed(j)), member(j)))
    sums = ctx.ghost.get('mask_sums', [])
    if sums:
        Mexec = sums[-1][1]
        # the count that decides the fall-back is taken over the filtered members of *this* set (pointwise equal masks; equal
        # counts then follow by lemma cnt_ext, which the selection clause uses)
        out['count_is_of_this_set'] = Forall(0, n, lambda j: Mexec[j] == F[j])
        ctx.assume(cnt(Mexec, n) == cnt(F, n))        # instance of the proved lemma cnt_ext (premise = the clause above)
        ctx.used_lemmas.add('cnt_ext')
    return out


def register_base_selection(reg):
    import pyvc.inframe_model      # noqa: F401  (registers the warnings.warn model)
    cases = [(f'{w},excl={k}', {'self': ChunkWithHits(w, k), 'which': Const(w), 'pdf': PdfAfterSetup(w), 'cluster_ids': CidsSpec()})
             for w in ('layers', 'groups') for k in (0, 1, 2)] + [('slices,excl=1', {'self': ChunkWithHits('slices', 1), 'which': Const('slices'),
                                                                              'pdf': PdfAfterSetup('slices'), 'cluster_ids': CidsSpec()})]
    old = reg.get(f'{CHUNK}._calculate_sligrolay_base_height')
    def sel_post(result, self, data_indexer):
        g_ = smt.CURRENT_CTX.ghost['hits']
        inside = {'finite': Not(_isnan(result)),
                  'not_below_a_selected_hit': Exists(0, g_['n'], lambda a: And(to_bool(data_indexer.at(a)), g_['h'][a] <= _rv(result))),
                  'not_above_a_selected_hit': Exists(0, g_['n'], lambda b: And(to_bool(data_indexer.at(b)), _rv(result) <= g_['h'][b]))}
        if not (smt.CURRENT_CTX.fn_stack and smt.CURRENT_CTX.fn_stack[0].endswith('._calculate_base_height_for_selection')):
            # what call sites may rely on (the two existentials with explicit, logged witnesses)
            c_ = smt.CURRENT_CTX
            wa, wb = smt.fresh_int('sel_lo'), smt.fresh_int('sel_hi')
            c_.ghost.setdefault('sel_witnesses', []).append((wa, wb))
            c_.hint(wa, wb)
            return {'finite': Not(_isnan(result)),
                    'not_below_a_selected_hit': And(wa >= 0, wa < g_['n'], to_bool(data_indexer.at(wa)), g_['h'][wa] <= _rv(result)),
                    'not_above_a_selected_hit': And(wb >= 0, wb < g_['n'], to_bool(data_indexer.at(wb)), _rv(result) <= g_['h'][wb])}
        calls = [c for c in smt.CURRENT_CTX.ghost.get('calls', []) if c[0] == 'ampycloud.utils.utils.calc_base_height']
        if len(calls) != 1:
            return {'one_call_of_calc_base_height': False}
        env = calls[0][1]
        prms = self.fields['_prms']
        return {**inside,
                'values_are_the_time_ordered_selection': env['vals'] is smt.CURRENT_CTX.ghost.get('time_sorted_selection'),
                'lookback_is_BASE_LVL_LOOKBACK_PERC': env['lookback_perc'] is prms['BASE_LVL_LOOKBACK_PERC'],
                'percentile_is_BASE_LVL_HEIGHT_PERC': env['height_perc'] is prms['BASE_LVL_HEIGHT_PERC'],
                'result_returned_unchanged': And(_rv(result) == smt.CURRENT_CTX.ghost['cbh_result'].v, Not(_isnan(result)))}

    reg.add(Contract(
        f'{CHUNK}._calculate_base_height_for_selection', properties=('C04', 'C06'),
        params={'self': ChunkWithHits('layers', 0), 'data_indexer': MaskParam()},
        result=_sel_base_result, requires=_sel_requires,
        ensures=sel_post,
        raises={},
        arg_pins={('calc_base_height', 0): dict(
            source="self.data.sort_values('dt').loc[data_indexer]['height'].values",
            value=_time_sorted_selection,
            doc=('heights of the hits selected by the mask, in ascending time order (most recent last); ASSUMED pandas meaning of '
                 'sort_values / .loc[bool Series] / .values, checked by the bounded stand-in of C04'))},
        notes='at the call sites: result = base routine on the mask handed in (ghost log of the call)'))

    reg.add(Contract(
        f'{CHUNK}._calculate_sligrolay_base_height', properties=('C04', 'C06', 'C01'),
        cases=cases,
        requires=lambda self, which, pdf, cluster_ids: {
            # ids handed in are the ids of existing sets (>= 0), each with at least one member hit (TI / _get_cluster_ids)
            'ids_are_sets': Forall(0, cluster_ids.len, lambda k: cluster_ids[k] >= 0),
            'rows': cluster_ids.len == pdf.n},
        result=old.result if old is not None else None,
        ensures=_base_ensures_full,
        loops={0: {'invariant': _slb_inv, 'modifies': ['pdf', 'ind', 'cid', 'in_sligrolay', 'in_sligrolay_filtered'],
                   'modifies_cols': {'pdf': ['height_base']},
                   'col_models': {'height_base': lambda n: fresh_column(n, 'height_base', 'float', 'npfloat', with_defd=True)},
                   'body_obligations': _slb_body,
                   'assume_in_body': lambda E, i: [_member_exists(E)]}},
    ))


# =============================================================================================
# statistics of a set (C04): _add_sligrolay_information
# =============================================================================================
STAT_COLS = ('height_mean', 'height_std', 'height_min', 'height_max', 'thickness', 'fluffiness')


def _fluff_result(name, ctx, pts, kwargs):
    f = SFloat(smt.fresh_real('fluffiness'), False, 'npfloat')
    ctx.ghost.setdefault('fluff_calls', []).append((pts, kwargs, f))
    return (f, Opaque('LOWESS-smoothed points'))


def _info_facts(T, k, g, cids, wits=None):
    """what holds for row k of the table once its statistics are filled in (dict of named facts)"""
    mn, mx, me, sd, th, fl = (T.col(c) for c in ('height_min', 'height_max', 'height_mean', 'height_std', 'thickness', 'fluffiness'))
    n, ids, h = g['n'], g['ids'], g['h']
    if any(c.dtype == 'unset' for c in (mn, mx, me, sd, th, fl)):
        return {'filled': z3.BoolVal(False)}
    inside = lambda W: Implies(And(W(k) >= 0, W(k) < n, ids[W(k)] == cids[k]), And(_rv(mn[k]) <= h[W(k)], h[W(k)] <= _rv(mx[k])))
    return {'min_max_mean_finite': And(cell(mn, k, lambda v: Not(_isnan(v))), cell(mx, k, lambda v: Not(_isnan(v))), cell(me, k, lambda v: Not(_isnan(v)))),
            'std_nan_or_non_negative': cell(sd, k, lambda v: Or(_isnan(v), _rv(v) >= 0)),
            'thickness_is_max_minus_min': cell(th, k, lambda v: And(Not(_isnan(v)), _rv(v) == _rv(mx[k]) - _rv(mn[k]), _rv(v) >= 0)),
            'fluffiness_finite_non_negative': cell(fl, k, lambda v: And(Not(_isnan(v)), _rv(v) >= 0)),
            'mean_between_min_and_max': And(_rv(mn[k]) <= _rv(me[k]), _rv(me[k]) <= _rv(mx[k])),
            'min_max_in_range': And(_rv(mn[k]) >= 0, _rv(mx[k]) < 100000),
            # (proved for the unconstrained WitLo / WitHi, i.e. for every hit; at a call site it is stated for the witnesses that
            #  earlier calls of the base routine on this path have introduced)
            'every_member_between_min_and_max': And(inside(WitLo), inside(WitHi)) if wits is None else
            And(*[And(inside(lo_), inside(hi_)) for lo_, hi_ in wits])}


INFO_FACTS = ('min_max_mean_finite', 'std_nan_or_non_negative', 'thickness_is_max_minus_min', 'fluffiness_finite_non_negative',
              'mean_between_min_and_max', 'min_max_in_range', 'every_member_between_min_and_max')


def _info_all(T, hi, g, cids):
    # (decided now, not when the schema is instantiated: at a call site the clause speaks about the witnesses of the earlier
    #  base-routine calls on this path)
    wits = None if smt.CURRENT_CTX.modular_site is None else list(smt.CURRENT_CTX.ghost.get('base_wits', []))
    return {f: Forall(0, hi, lambda k, f=f: _info_facts(T, k, g, cids, wits).get(f, z3.BoolVal(False))) for f in INFO_FACTS}


def _info_inv(E, i):
    g = smt.CURRENT_CTX.ghost['hits']
    return {**_info_all(E.pdf, i, g, E.cluster_ids), 'rows': E.pdf.n == E.self.ghost['N']}


def _info_body(E, i):
    """one iteration, table row i / set id cid: each statistic is the library reduction of the heights of exactly the member hits"""
    ctx = smt.CURRENT_CTX
    g = ctx.ghost['hits']
    n, ids = g['n'], g['ids']
    member = lambda j: ids[j] == E.cid
    red = ctx.ghost.get('reductions', [])
    out = {}
    if [r[0] for r in red] != ['mean', 'std', 'min', 'max']:
        return {'one_mean_std_min_max_each': False}
    T = E.pdf
    for (kind, selc, res), colname in zip(red, ('height_mean', 'height_std', 'height_min', 'height_max')):
        out[f'{kind}_is_over_the_heights'] = selc.col == 'height'
        out[f'{kind}_is_over_the_members'] = Forall(0, n, lambda j, selc=selc: selc.sel(j) == member(j))
        out[f'{kind}_stored_in_its_cell'] = cell(T.col(colname), i, lambda v, res=res: And(_isnan(v) == _isnan(res), _rv(v) == _rv(res)))
    fc = ctx.ghost.get('fluff_calls', [])
    if len(fc) != 1:
        return {'one_fluffiness_call': False}
    pts, kwargs, f = fc[0]
    from pyvc.rows_model import SSelValues
    if not isinstance(pts, SSelValues):
        return {'fluffiness_of_a_selection': False}
    out['fluffiness_of_time_and_height'] = pts.selection.cols == ('dt', 'height')
    out['fluffiness_is_over_the_members'] = Forall(0, n, lambda j: pts.selection.sel(j) == member(j))
    lw = E.self.fields['_prms']['LOWESS']
    out['fluffiness_with_the_LOWESS_settings'] = (set(kwargs) == set(lw)) and all(kwargs[k_] is lw[k_] for k_ in lw)
    out['fluffiness_stored_in_its_cell'] = cell(T.col('fluffiness'), i, lambda v: _rv(v) == _rv(f))
    return out


def register_info(reg):
    reg.add(Contract(
        'ampycloud.fluffer.get_fluffiness', properties=('C04',),
        params={'pts': Custom(lambda name, ctx: Opaque('pts'), 'a 2-D array of (dt, height) points'), 'kwargs': Custom(lambda name, ctx: {}, 'LOWESS settings')},
        result=_fluff_result,
        ensures=lambda result, pts, kwargs: {'finite_non_negative': And(Not(_isnan(result[0])), _rv(result[0]) >= 0)},
        raises={}, notes='ASSUMED at call sites (statsmodels LOWESS; 2 * mean |y - fit|): finite and non-negative; checked by the bounded stand-in of C04'))
    cases = [(w, {'self': ChunkWithHits(w, 0), 'which': Const(w), 'pdf': PdfAfterSetup(w), 'cluster_ids': CidsSpec()}) for w in WHICH]
    reg.add(Contract(
        f'{CHUNK}._add_sligrolay_information', properties=('C04', 'C01'),
        cases=cases,
        requires=lambda self, which, pdf, cluster_ids: {
            'ids_are_sets': Forall(0, cluster_ids.len, lambda k: cluster_ids[k] >= 0),
            'rows': cluster_ids.len == self.ghost['N']},
        result=_info_result,
        ensures=lambda result, self, which, pdf, cluster_ids: {
            **_info_all(result, result.n, smt.CURRENT_CTX.ghost['hits'], cluster_ids),
            'same_table': result is pdf},
        canaries={'thickness_always_zero': lambda result, self, which, pdf, cluster_ids: Forall(0, result.n, lambda k: _rv(result.col('thickness')[k]) == 0),
                  'std_never_nan': lambda result, self, which, pdf, cluster_ids: Forall(0, result.n, lambda k: Not(_isnan(result.col('height_std')[k])))},
        loops={0: {'invariant': _info_inv, 'modifies': ['pdf', 'ind', 'cid', 'in_sligrolay', '_'],
                   'modifies_cols': {'pdf': list(STAT_COLS)},
                   'col_models': {c: (lambda n, c=c: fresh_column(n, c, 'float', 'npfloat', with_defd=True)) for c in STAT_COLS},
                   'body_obligations': _info_body,
                   'assume_in_body': lambda E, i: [_member_exists(E), _hint_witnesses(i)]}},
    ))


# =============================================================================================
# _setup_sligrolay_pdf: the empty table, one row per set, ids recorded
# =============================================================================================
class ChunkForSetup(Spec):
    """chunk as seen by _setup_sligrolay_pdf: ghost n_<which> (None = stage not run, else N >= 0) and the layers table (None or present)"""

    def __init__(self, which, computed=True, layered=False):
        self.which, self.computed, self.layered = which, computed, layered

    def make(self, name, ctx):
        N = z3.Int('N')
        ctx.assume(N >= 0)
        ctx.len_vars.append(N)
        ghost = {'N': N, 'which': self.which}
        if self.which in WHICH:
            ghost['n_' + self.which] = SInt(N, 'int') if self.computed else None
        fields = {'_slices': None, '_groups': None, '_layers': Opaque('layers table') if self.layered else None, '_data': Opaque('chunk data'),
                  '_prms': {}}
        return SChunk(CHUNK, fields, ghost)

    def describe(self):
        return f'chunk(which={self.which}, stage run={self.computed}, layers table present={self.layered})'


def _pd_dataframe(interp, args, kwargs):
    """pd.DataFrame(index=range(n), columns=[names]): n rows labelled 0..n-1, every cell a NaN object"""
    from pyvc.engine import SRange
    from pyvc.values import Unsupported
    idx, cols = kwargs.get('index'), kwargs.get('columns')
    if args or set(kwargs) != {'index', 'columns'} or not isinstance(cols, list) or not all(isinstance(c, str) for c in cols) or len(set(cols)) != len(cols):
        raise Unsupported('pd.DataFrame(...) shape')
    if isinstance(idx, range) and idx.step == 1 and idx.start == 0:
        n = z3.IntVal(len(idx))
    elif isinstance(idx, SRange) and z3.is_int_value(idx.lo) and idx.lo.as_long() == 0:
        n = z3.If(idx.hi > 0, idx.hi, 0)
    else:
        raise Unsupported('pd.DataFrame index kind')
    return STable(n, {c: fresh_column(n, c, 'unset') for c in cols})


def _cluster_ids_result(name, ctx, self, which):
    N = self.ghost['N']
    return SList('int', N, z3.Array('cids', z3.IntSort(), z3.IntSort()), None, 'npint')


def _setup_post(result, self, which='slices'):
    pdf, cids = result
    N = self.ghost['N']
    want = TABLE_COLS + (['isolated'] if which == 'slices' else []) + (['ncomp'] if which == 'groups' else [])
    cid_col = pdf.col('cluster_id')
    out = {'one_row_per_set': And(cids.len == N, pdf.n == N),
           'ids_are_sets': Forall(0, cids.len, lambda k: cids[k] >= 0),
           'columns': list(pdf.cols) == want,
           'row_labels_are_positions': pdf.index_is_range is True,
           'cluster_id_is_the_set_id': Forall(0, N, lambda k: cell(cid_col, k, lambda v: v == cids[k])),
           'other_cells_empty': all(pdf.col(c).dtype == 'unset' for c in want if c not in ('cluster_id', 'ncomp'))}
    if which == 'groups':
        out['ncomp_minus_one'] = Forall(0, N, lambda k: cell(pdf.col('ncomp'), k, lambda v: v == -1))
    return out


def _setup_inv(E, i):
    pdf = E.pdf
    inv = {'cluster_id': Forall(0, i, lambda k: cell(pdf.col('cluster_id'), k, lambda v: v == E.cluster_ids[k])),
           'rows': And(pdf.n == E.self.ghost['N'], E.cluster_ids.len == E.self.ghost['N'])}
    if E.which == 'groups':
        inv['ncomp'] = Forall(0, i, lambda k: cell(pdf.col('ncomp'), k, lambda v: v == -1))
        if E.self.fields['_layers'] is not None:
            inv['no_iteration_once_layered'] = i == 0
    return inv


def register_setup(reg):
    from pyvc.lib import LIB, LIB_DOC
    LIB['pandas.DataFrame'] = _pd_dataframe
    LIB_DOC['pandas.DataFrame'] = 'pd.DataFrame(index=range(n), columns=names): n rows labelled 0..n-1 (RangeIndex), the named columns, every cell NaN'
    reg.add(Contract(
        f'{CHUNK}._get_cluster_ids', properties=('C05', 'C01'),
        result=_cluster_ids_result,
        ensures=lambda result, self, which: {'ids_are_sets': Forall(0, result.len, lambda k: result[k] >= 0),
                                             'one_per_set': result.len == self.ghost['N']},
        notes=('ASSUMED at call sites (np.unique / np.delete on the id column): the distinct ids other than -1, ascending; their number is '
               'n_<which> because ids are -1 or >= 0 (class invariant of the hit table, C05); checked by the bounded stand-in of C05')))
    cases = []
    for w in WHICH:
        cases.append((w, {'self': ChunkForSetup(w), 'which': Const(w)}))
        cases.append((f'{w},stage-not-run', {'self': ChunkForSetup(w, computed=False), 'which': Const(w)}))
    cases.append(('groups,layered', {'self': ChunkForSetup('groups', layered=True), 'which': Const('groups')}))
    cases.append(('layers,layered', {'self': ChunkForSetup('layers', layered=True), 'which': Const('layers')}))
    cases.append(('unknown-which', {'self': ChunkForSetup('clusters'), 'which': Const('clusters')}))
    old = reg.get(f'{CHUNK}._setup_sligrolay_pdf')
    reg.add(Contract(
        f'{CHUNK}._setup_sligrolay_pdf', properties=('C05', 'C14', 'C01', 'C08'),
        cases=cases,
        result=_setup_result,
        ensures=_setup_post,
        raises={'AmpycloudError': lambda self, which='slices': True if which not in WHICH else Or(
            self.ghost.get('n_' + which) is None,
            And(self.fields['_layers'] is not None, self.ghost['N'] >= 1) if which == 'groups' else False)},
        loops={0: {'invariant': _setup_inv, 'modifies': ['pdf', 'ind', 'cid'],
                   'modifies_cols': {'pdf': ['cluster_id', 'ncomp']},
                   'col_models': {'cluster_id': lambda n: fresh_column(n, 'cluster_id', 'int', 'npint', with_defd=True),
                                  'ncomp': lambda n: fresh_column(n, 'ncomp', 'int', 'int', with_defd=True)}}},
        canaries={'never_any_row': lambda result, self, which='slices': result[0].n == 0},
    ))


def _hint_witnesses(i):
    smt.CURRENT_CTX.hint(WitLo(i), WitHi(i))
    return True


def _member_exists(E):
    """every id in cluster_ids is the id of at least one hit (they come from np.unique of the id column)"""
    g = smt.CURRENT_CTX.ghost['hits']
    return Exists(0, g['n'], lambda j: g['ids'][j] == E.cid)


def finalize(reg):
    """after every module has registered: let the modular result of calc_base_height be observable by sel_post"""
    cbh = reg.get('ampycloud.utils.utils.calc_base_height')
    if cbh is not None and not getattr(cbh, '_logs_result', False):
        spec_ = cbh.result

        def logged(name, ctx, **env):
            r = spec_.make(name, ctx)
            ctx.ghost['cbh_result'] = r
            return r
        cbh.result = logged
        cbh._logs_result = True


# =============================================================================================
# _merge_close_groups (C06): the merge loop stops only when adjacent groups are separated
# =============================================================================================
from pyvc.pandas_model import SSeries as _SSeries

#: the value _get_min_sep_for_height returns for a height -- a function of the height (the method is pure: frame contract; its own
#: contract says which MIN_SEP_VALS entry it is)
MinSepF = z3.Function('min_sep_of', z3.RealSort(), z3.RealSort())


class ChunkForMerge(Spec):
    def __init__(self, n_excl):
        self.n_excl = n_excl

    def make(self, name, ctx):
        ch = ChunkWithHits('groups', self.n_excl).make(name, ctx)
        ch.fields.update({'_layers': None, '_slices': Opaque('slices table'), '_groups': None})
        ch.ghost['n_groups'] = SInt(ch.ghost['N'], 'int')
        ctx.len_vars.append(ch.ghost['N'])
        return ch

    def describe(self):
        return f'sliced chunk with a symbolic hit table carrying group ids ({self.n_excl} excluded ceilometer name(s))'


def _merge_table_facts(T, idx):
    base, cid = T.col('height_base'), T.col('cluster_id')
    n = T.n
    if base.dtype == 'unset' or cid.dtype == 'unset':
        return {'table_has_bases': False}
    close = lambda k: And(k >= 1, _rv(base[k]) - _rv(base[k - 1]) < MinSepF(_rv(base[k])))
    return {
        # the "too close" flags are those of the *current* table: row k is flagged iff it is closer to the row below it than the
        # minimum separation at its own height
        'flags_are_current': Forall(0, n, lambda k: to_bool(idx.at(k)) == close(k)),
        'bases_finite': Forall(0, n, lambda k: cell(base, k, lambda v: And(Not(_isnan(v)), _rv(v) >= 0, _rv(v) < 100000))),
        'ids_are_sets': Forall(0, n, lambda k: cell(cid, k, lambda v: v >= 0)),
        'shape': And(idx.n == n, n >= 0),
        'row_labels_are_positions': T.index_is_range is True}


def _merge_inv(E):
    return _merge_table_facts(E.prelim_groups, E.lt_min_sep_indexer)


def _merge_havoc(env, ctx):
    """state at the head of an arbitrary iteration: a table with some number of rows, fresh id / base columns, fresh flags; the
    group ids of the hits have been rewritten by earlier merges"""
    T = env['prelim_groups']
    n = smt.fresh_int('groups_left')
    cols = {}
    for name, c in T.cols.items():
        if name == 'cluster_id':
            cols[name] = fresh_column(n, name, 'int', 'npint', with_defd=True)
        elif name == 'height_base':
            cols[name] = fresh_column(n, name, 'float', 'npfloat', with_defd=True)
        elif name == 'ncomp':
            cols[name] = fresh_column(n, name, 'int', 'int', with_defd=True)
        else:
            cols[name] = fresh_column(n, name, 'unset')
    newT = STable(n, cols)
    env['prelim_groups'] = newT
    F = smt.fresh('too_close', BoolArr)
    flags = _SSeries(n, lambda i: SBool(F[i], 'npbool'), 'bool', arr=F)
    env['lt_min_sep_indexer'] = flags
    for nm in ('min_seps_grp', 'base_height_diffs'):
        a = smt.fresh(nm, z3.ArraySort(z3.IntSort(), z3.RealSort()))
        an = smt.fresh(nm + '_nan', BoolArr)
        env[nm] = _SSeries(n, (lambda i, a=a, an=an: SFloat(a[i], an[i], 'npfloat')), 'float')
    for nm in ('idx', 'data_idxer'):
        env.pop(nm, None)
    # the hits' group ids after the merges so far (all other hit columns are untouched: checked by the frame contracts of C05)
    g = ctx.ghost['hits']
    ids = smt.fresh('hit_group_id', z3.ArraySort(z3.IntSort(), z3.IntSort()))
    fr = g['frame']
    fr.cols['group_id'] = smt.memo1(lambda i: SInt(ids[i], 'npint'))
    g['ids'] = ids
    ctx.assume(Forall(0, g['n'], lambda i: (ids[i] >= 0) == Not(g['hn'][i]), name='ci2'))


def _merge_body(E):
    """one merge: the hits of the flagged group go to the group *below* it, its row is dropped, every base is recomputed by the
    routine that also produces the reported bases"""
    ctx = smt.CURRENT_CTX
    out = {}
    writes = [w for w in ctx.ghost.get('row_writes', []) if w[0] == 'group_id']
    out['one_reassignment_of_hits'] = len(writes) == 1 and len(ctx.ghost.get('row_writes', [])) == 1
    calls = [c for c in ctx.ghost.get('calls', []) if c[0].endswith('._calculate_sligrolay_base_height')]
    # (the call before the loop is on this path too: the one made by the body is the last)
    if not calls:
        return {'bases_recomputed_by_the_shared_routine': False}
    env = calls[-1][1]
    T = E.prelim_groups
    out['bases_recomputed_by_the_shared_routine'] = (env['pdf'] is T) and env['which'] == 'groups'
    cid = T.col('cluster_id')
    out['recomputed_for_the_remaining_groups'] = And(env['cluster_ids'].len == T.n,
                                                      Forall(0, T.n, lambda k: env['cluster_ids'][k] == cid[k]))
    return out


def _merge_post(result, self):
    ctx = smt.CURRENT_CTX
    loc = ctx.ghost.get('locals_at_exit') or {}
    T = loc.get('prelim_groups')
    if not isinstance(T, STable):
        return {'worked_on_a_table': False}
    base = T.col('height_base')
    return {
        # C06: when the loop stops, any two adjacent groups of the table the merge decisions were taken on are at least the minimum
        # separation (at the height of the upper one) apart
        'adjacent_groups_separated': Forall(0, T.n, lambda k: Implies(k >= 1, _rv(base[k]) - _rv(base[k - 1]) >= MinSepF(_rv(base[k])))),
        'returns_nothing': result is None}


def register_merge(reg):
    ms = reg.get(f'{CHUNK}._get_min_sep_for_height')
    ms.pure_function = MinSepF
    reg.add(Contract(
        f'{CHUNK}._merge_close_groups', properties=('C06',),
        cases=[(f'excl={k}', {'self': ChunkForMerge(k)}) for k in (0, 1)],
        ensures=_merge_post,
        raises={'AmpycloudError': lambda self: 'maybe'},
        loops={0: {'invariant': _merge_inv, 'havoc': _merge_havoc, 'modifies': [],
                   'variant': lambda E: E.prelim_groups.n,
                   'body_obligations': lambda E, i=None: _merge_body(E)}},
        canaries={'never_more_than_one_group': lambda result, self: (smt.CURRENT_CTX.ghost.get('locals_at_exit') or {}).get('prelim_groups').n <= 1},
        notes=('MinSepF: the separation looked up for a height is a function of the height (purity of _get_min_sep_for_height: frame '
               'contract + A-DET); AmpycloudError only from that lookup (MIN_SEP_LIMS / MIN_SEP_VALS of incompatible lengths)')))


# =============================================================================================
# find_slices (C05, slice clause): every hit with a valid height gets a slice id >= 0, every non-detection -1
# =============================================================================================
class ChunkForSlicing(Spec):
    def make(self, name, ctx):
        n = z3.Int('hits_n')
        ctx.assume(n >= 1)
        ctx.len_vars.append(n)
        ceilo = z3.Array('hit_ceilo', z3.IntSort(), z3.StringSort())
        dt = z3.Array('hit_dt', z3.IntSort(), z3.RealSort())
        h = z3.Array('hit_height', z3.IntSort(), z3.RealSort())
        hn = z3.Array('hit_height_nan', z3.IntSort(), z3.BoolSort())
        ty = z3.Array('hit_type', z3.IntSort(), z3.IntSort())
        cols = {'ceilo': (lambda i: SStr(ceilo[i])), 'dt': (lambda i: SFloat(dt[i], False, 'npfloat')),
                'height': (lambda i: SFloat(h[i], hn[i], 'npfloat')), 'type': (lambda i: SInt(ty[i], 'npint'))}
        fr = SRows(n, cols, (lambda i: i), positional=True)        # the private hit table carries a RangeIndex (constructor: _cleanup_pdf)
        fr.kinds = {'ceilo': 'str', 'dt': 'float', 'height': 'float', 'type': 'int'}
        ctx.ghost['hits'] = dict(n=n, ceilo=ceilo, dt=dt, h=h, hn=hn, ty=ty, frame=fr, cols0=dict(fr.cols))
        sl = {'dt_scale': Opaque('prm'), 'height_scale_mode': Opaque('prm'), 'height_scale_kwargs': Opaque('prm'), 'distance_threshold': Opaque('prm')}
        return SChunk(CHUNK, {'_prms': {'SLICING_PRMS': sl}, '_data': fr, '_slices': None, '_groups': None, '_layers': None}, {})

    def describe(self):
        return 'chunk with a symbolic hit table (no ids yet), RangeIndex'


def _rescaled_result(name, ctx, self, dt_mode=None, dt_kwargs=None, height_mode=None, height_kwargs=None):
    g = ctx.ghost['hits']
    fr = self.fields['_data']
    dts = smt.fresh('scaled_dt', z3.ArraySort(z3.IntSort(), z3.RealSort()))
    hs = smt.fresh('scaled_height', z3.ArraySort(z3.IntSort(), z3.RealSort()))
    cols = dict(fr.cols)
    cols['dt'] = (lambda i: SFloat(dts[i], False, 'npfloat'))
    cols['height'] = (lambda i: SFloat(hs[i], g['hn'][i], 'npfloat'))          # scaling is NaN-blind (C19: apply_scaling::post.nan_blind)
    out = SRows(fr.n, cols, fr.label, fr.keep, positional=fr.positional)
    out.kinds = dict(fr.kinds)
    out.index_id = getattr(fr, 'index_id', fr.fid)
    return out


def _clusterize_result(name, ctx, data, algo=None, kwargs=None):
    from pyvc.rows_model import SSelValues
    if not isinstance(data, SSelValues):
        from pyvc.values import Unsupported
        raise Unsupported('clusterize of this value')
    sel = data.selection
    fr = sel.frame
    S = smt.fresh('clustered_rows', BoolArr)
    m = sel.mask.at
    ctx.assume(Forall(0, fr.n, lambda i: S[i] == And(fr.present(i), to_bool(m(i))), name='cs'))
    ctx.note_cnt(S)
    k = _cnt_fn(S, fr.n)
    nlab = smt.fresh_int('n_clusters')
    lab = smt.fresh('labels', z3.ArraySort(z3.IntSort(), z3.IntSort()))
    labels = SArr(k, lambda i: SInt(lab[i], 'npint'), 'int')
    labels.of_selection = S
    ctx.assume(nlab >= 1)
    ctx.assume(Forall(0, k, lambda j: And(lab[j] >= 0, lab[j] < nlab), name='lb'))
    ctx.ghost['labels'] = (lab, k, S)
    return (SInt(nlab, 'npint'), labels)


def _metarize_effect(ctx, self, which='slices'):
    self.fields['_' + which] = Opaque(f'{which} table (metarize)')


def _slices_post(result, self):
    ctx = smt.CURRENT_CTX
    g = ctx.ghost['hits']
    fr = self.fields['_data']
    n, hn = g['n'], g['hn']
    if 'slice_id' not in fr.cols:
        return {'slice_id_column_created': False}
    sid = fr.cols['slice_id']
    from pyvc.values import to_int_term
    return {
        # C05 (slice clause): a hit belongs to a slice iff its height is valid; non-detections carry -1
        'valid_hits_get_a_slice': Forall(0, n, lambda i: Implies(Not(hn[i]), to_int_term(sid(i)) >= 0)),
        'non_detections_get_none': Forall(0, n, lambda i: Implies(hn[i], to_int_term(sid(i)) == -1)),
        # no hit is created, lost or altered
        'hit_columns_untouched': all(fr.cols[c] is g['cols0'][c] for c in ('ceilo', 'dt', 'height', 'type')) and fr is g['frame'] and fr.keep is None,
        'slices_table_built': self.fields['_slices'] is not None}


def register_slicing(reg):
    reg.add(Contract(
        f'{CHUNK}.data_rescaled', properties=('C05', 'C19'),
        result=_rescaled_result,
        raises={'AmpycloudError': lambda self, **kw: 'maybe'},
        notes=('ASSUMED at call sites: an independent copy of the hit table with the same rows and index, dt and height replaced by '
               'scaled values; a height is NaN exactly where the original is (apply_scaling is NaN-blind: proved in C19); AmpycloudError '
               'for scaling parameters that cannot be derived; checked by the bounded stand-ins of C05 / C19')))
    reg.add(Contract(
        'ampycloud.cluster.clusterize', properties=('C05',),
        result=_clusterize_result,
        raises={},
        notes=('ASSUMED at call sites (scikit-learn AgglomerativeClustering): one label per sample, labels 0..n_clusters-1; checked by '
               'the bounded stand-in of C05')))
    mz = reg.get(f'{CHUNK}.metarize')
    mz.modular_effect = _metarize_effect
    reg.add(Contract(
        f'{CHUNK}.find_slices', properties=('C05', 'C08'),
        params={'self': ChunkForSlicing()},
        ensures=_slices_post,
        raises={'AmpycloudError': lambda self: 'maybe'},
        canaries={'everything_in_one_slice': lambda result, self: Forall(0, smt.CURRENT_CTX.ghost['hits']['n'], lambda i: __import__('pyvc.values', fromlist=['x']).to_int_term(
            self.fields['_data'].cols['slice_id'](i)) == 1)},
        notes='the labels come from the assumed clustering contract; metarize is applied by its contract'))
