"""Frame contracts (label F) and the obligations they generate, per property.

A frame contract bounds what a function may write / read / alias, in terms of abstract locations
(param:<p>, self.<field>, global:<qualified name>, ghost:<RNG|RC|FIGS|FS|WARN|LOG|CLOCK|ENV>).  The inferred summary of
the real code (pyvc.frames, modular: callee summaries at call sites) must be inside the contract.  Each clause is a
named obligation `<function>::frame.<clause>` with back end `frame`.
"""
import ast
import time

from pyvc import frames, source
from pyvc.frames import GLOBAL_PRMS
from pyvc.smt import Verdict

CH = 'ampycloud.data.CeiloChunk'
AC = 'ampycloud.data.AbstractChunk'
STAGES = [f'{CH}.find_slices', f'{CH}.find_groups', f'{CH}.find_layers', f'{CH}.metarize', f'{CH}.metar_msg']
CHUNK_METHODS_NO_INIT = None      # filled lazily: every CeiloChunk / AbstractChunk method except __init__

#: functions on the processing path (everything run() and metar_msg() can reach, plus the helpers modules)
PP_MODULES = ('ampycloud.data', 'ampycloud.layer', 'ampycloud.cluster', 'ampycloud.scaler', 'ampycloud.fluffer',
              'ampycloud.wmo', 'ampycloud.icao', 'ampycloud.logger', 'ampycloud.errors')
PP_EXTRA = ('ampycloud.core.run', 'ampycloud.core.metar', 'ampycloud.utils.utils.check_data_consistency',
            'ampycloud.utils.utils.calc_base_height', 'ampycloud.utils.utils.adjust_nested_dict')
#: module-level objects that are only ever read (checked: no function writes them)
READONLY_GLOBALS = ('global:ampycloud.data.AbstractChunk.DATA_COLS', 'global:ampycloud.hardcoded.REQ_DATA_COLS')
HARMLESS_GHOSTS = {'ghost:LOG', 'ghost:WARN'}

_cache = {}


def analysis():
    key = source.REPO_SRC
    if key not in _cache:
        t = time.time()
        an = frames.analyze_all()
        _cache[key] = (an, time.time() - t)
    return _cache[key]


def pp_functions(an):
    out = [q for q in an.summaries if q.rsplit('.', 1)[0].startswith(PP_MODULES) or any(q.startswith(m + '.') for m in PP_MODULES)]
    out += [q for q in PP_EXTRA if q in an.summaries]
    return sorted(set(out))


def chunk_methods(an, with_init=False):
    out = [q for q in an.summaries if q.startswith(CH + '.') or q.startswith(AC + '.')]
    if not with_init:
        out = [q for q in out if not q.endswith('.__init__')]
    return sorted(out)


class FrameCheck:
    def __init__(self):
        self.verdicts = []
        self.an, self.secs = analysis()
        self.functions = set()

    def ob(self, fn, clause, ok, detail='', undecided=False):
        self.functions.add(fn)
        st = 'discharged' if ok else ('unknown' if undecided else 'refuted')
        v = Verdict(f'{fn}::frame.{clause}', st, 'frame', 0.0,
                    None if ok else {'frame_detail': detail}, '' if ok else detail, 0, 'summary')
        self.verdicts.append(v)
        return ok

    def S(self, q):
        return self.an.summaries[q]

    def sites(self, q, root):
        return self.S(q).ghost_sites.get(root, [])

    def no_unknown(self, fns, clause='effects_known'):
        for q in fns:
            s = self.S(q)
            # an effect the analysis does not know is not a violation: the function is UNDECIDED (fail closed)
            self.ob(q, clause, not s.unknown, f'calls with unknown effect: {sorted(s.unknown)}', undecided=True)


def _shares(avs, root_prefixes):
    return sorted(av for av in avs if av[0] in ('R', 'S') and av[1].startswith(root_prefixes))


# ---------------------------------------------------------------------------------------------
# C11: caller data, caller parameters, global parameters never modified; snapshot is private
# ---------------------------------------------------------------------------------------------

def c11(run=None):
    fc = FrameCheck()
    an = fc.an
    entry = [f'{CH}.__init__', f'{AC}.__init__', 'ampycloud.core.run', 'ampycloud.core.metar', 'ampycloud.core.demo',
             'ampycloud.utils.utils.check_data_consistency', f'{AC}._cleanup_pdf', f'{AC}._setup_prms'] + STAGES + \
            [f'{CH}._merge_close_groups', f'{CH}.data_rescaled']
    for q in entry:
        s = fc.S(q)
        bad = sorted(w for w in s.writes if w.startswith('param:') and not w.startswith('param:self')
                     and w.split(':')[1] in ('data', 'prms', 'pdf', 'new_dict'))
        fc.ob(q, 'caller_arguments_not_written', not bad, f'writes {bad} at {[fc.sites(q, b) for b in bad]}')
        badg = sorted(w for w in s.writes if w.startswith('global:'))
        fc.ob(q, 'globals_not_written', not badg, f'writes {badg} at {[fc.sites(q, b) for b in badg]}')
    # adjust_nested_dict: the per-call dictionary is read only
    s = fc.S('ampycloud.utils.utils.adjust_nested_dict')
    fc.ob(s.qualname, 'new_dict_not_written', 'param:new_dict' not in s.writes, str(fc.sites(s.qualname, 'param:new_dict')))
    fc.ob(s.qualname, 'returns_ref_dict', any(av == ('R', 'param:ref_dict') for av in s.ret), str(sorted(s.ret, key=repr)))
    # the snapshot shares nothing with the global parameters (deep copy): both directions of the snapshot claim
    s = fc.S(f'{AC}._setup_prms')
    sh = _shares(s.ret, ('global:',))
    fc.ob(s.qualname, 'post.fresh_wrt_global', not sh and ('F',) in s.ret,
          f'result may share {sh} with the global parameters (shallow copy / alias)')
    for q in (f'{AC}.__init__', f'{CH}.__init__'):
        s = fc.S(q)
        sh = sorted((x, av) for (x, av) in s.stores if x.startswith('self.') and av[1].startswith('global:'))
        fc.ob(q, 'post.fields_share_nothing_with_globals', not sh, f'{sh}')
        shd = sorted((x, av) for (x, av) in s.stores if x == 'self._data' and av[1].startswith('param:'))
        fc.ob(q, 'post.data_is_private_copy', not shd, f'{shd}')
    # nobody but the constructor writes the parameter snapshot; nothing writes *through* it
    for q in chunk_methods(an):
        s = fc.S(q)
        fc.ob(q, 'prms_snapshot_not_written', 'self._prms' not in s.writes and 'self.*' not in s.writes, str(fc.sites(q, 'self._prms')))
    fc.no_unknown(entry)
    return fc


# ---------------------------------------------------------------------------------------------
# C12: every step reads parameters through the chunk snapshot; set / reset go through the same merge
# ---------------------------------------------------------------------------------------------
ALLOWED_GLOBAL_READERS = {f'{AC}._setup_prms', 'ampycloud.core.set_prms', 'ampycloud.core.reset_prms',
                          'ampycloud.plots.tools.set_mplstyle',          # documented: plotting style comes from the global set
                          'ampycloud.plots.diagnostics.DiagnosticPlot.__init__', 'ampycloud.plots.diagnostics.DiagnosticPlot.show_hits_only',
                          'ampycloud.plots.diagnostics.DiagnosticPlot.show_slices', 'ampycloud.plots.diagnostics.DiagnosticPlot.show_groups',
                          'ampycloud.plots.diagnostics.DiagnosticPlot.show_layers', 'ampycloud.plots.diagnostics.DiagnosticPlot.add_ref_metar',
                          'ampycloud.plots.diagnostics.DiagnosticPlot.add_metar', 'ampycloud.plots.diagnostics.DiagnosticPlot.format_slice_axes',
                          'ampycloud.plots.diagnostics.DiagnosticPlot.format_group_axes', 'ampycloud.plots.diagnostics.DiagnosticPlot.add_vv_legend',
                          'ampycloud.plots.diagnostics.DiagnosticPlot.add_ceilo_count', 'ampycloud.plots.diagnostics.DiagnosticPlot.add_max_hits',
                          'ampycloud.plots.diagnostics.DiagnosticPlot.add_geoloc_and_ref_dt', 'ampycloud.plots.diagnostics.DiagnosticPlot.format_primary_axes',
                          'ampycloud.plots.diagnostics.DiagnosticPlot.save', 'ampycloud.plots.diagnostics.DiagnosticPlot.new_fig',
                          'ampycloud.plots.secondary.scaling_fcts', 'ampycloud.plots.tools.texify', 'ampycloud.plots.tools.get_scaling_kwargs',
                          'ampycloud.utils.performance.get_speed_benchmark', 'ampycloud.__main__.ampycloud_speed_test'}


def c12(run=None):
    fc = FrameCheck()
    an = fc.an
    for q, s in sorted(an.summaries.items()):
        if GLOBAL_PRMS in s.direct_reads:
            # documented: the plotting code looks the style (MPL_STYLE) up in the global set
            ok = q in ALLOWED_GLOBAL_READERS or q.startswith('ampycloud.plots.')
            fc.ob(q, 'reads.global_prms_only_where_allowed', ok,
                  f'reads dynamic.AMPYCLOUD_PRMS directly at lines {[l for l, h in fc.sites(q, GLOBAL_PRMS)]} (allowed: _setup_prms, set_prms, reset_prms, plotting style)')
    # the processing steps do not reach the global at all (not even through callees)
    for q in STAGES + [f'{CH}._merge_close_groups', f'{CH}.data_rescaled', f'{CH}._calculate_cloud_amount',
                       f'{CH}._calculate_sligrolay_base_height', f'{CH}._add_sligrolay_information', f'{CH}._setup_sligrolay_pdf',
                       f'{CH}._get_min_sep_for_height', f'{CH}._calculate_base_height_for_selection', f'{AC}._cleanup_pdf',
                       'ampycloud.layer.ncomp_from_gmm', 'ampycloud.layer.best_gmm', 'ampycloud.cluster.clusterize',
                       'ampycloud.fluffer.get_fluffiness', 'ampycloud.scaler.apply_scaling', 'ampycloud.utils.utils.calc_base_height',
                       'ampycloud.wmo.perc2okta', 'ampycloud.wmo.okta2code', 'ampycloud.wmo.height2code', 'ampycloud.icao.significant_cloud',
                       'ampycloud.utils.utils.check_data_consistency']:
        s = fc.S(q)
        fc.ob(q, 'reads.no_global_prms', GLOBAL_PRMS not in s.reads, f'reaches dynamic.AMPYCLOUD_PRMS: {fc.sites(q, GLOBAL_PRMS)}')
    # the constructor takes the snapshot through _setup_prms only
    s = fc.S(f'{AC}.__init__')
    fc.ob(s.qualname, 'snapshot_via_setup_prms', f'{AC}._setup_prms' in s.calls and GLOBAL_PRMS not in s.direct_reads, '')
    # set_prms merges into the global through the same recursive merge; reset_prms rebinds from a fresh read
    s = fc.S('ampycloud.core.set_prms')
    fc.ob(s.qualname, 'uses_adjust_nested_dict', 'ampycloud.utils.utils.adjust_nested_dict' in s.calls and GLOBAL_PRMS in s.writes, '')
    s = fc.S('ampycloud.core.reset_prms')
    fc.ob(s.qualname, 'rebinds_from_fresh_defaults', 'ampycloud.dynamic.get_default_prms' in s.calls and GLOBAL_PRMS in s.writes, '')
    s = fc.S('ampycloud.dynamic.get_default_prms')
    fc.ob(s.qualname, 'returns_fresh', s.ret <= {('F',)}, f'ret {sorted(s.ret, key=repr)}')
    # after reset_prms the global shares nothing with older objects: stores into GLOBAL come from fresh defaults only
    s = fc.S('ampycloud.core.reset_prms')
    sh = sorted((x, av) for (x, av) in s.stores if x == GLOBAL_PRMS and av[1] != GLOBAL_PRMS)
    fc.ob(s.qualname, 'stores_only_fresh_defaults', not sh, str(sh))
    return fc


# ---------------------------------------------------------------------------------------------
# C13: premises of non-interference between chunks
# ---------------------------------------------------------------------------------------------

def c13(run=None):
    fc = FrameCheck()
    an = fc.an
    for q in pp_functions(an):
        s = fc.S(q)
        wg = sorted(w for w in s.writes if w.startswith('global:') or w in ('ghost:EXTMOD',))
        fc.ob(q, 'no_module_state_written', not wg, f'writes {wg} at {[fc.sites(q, w) for w in wg]}')
        # ... not even temporarily: a restoring context (tmp_seed, a style context) changes process-wide state while it is open,
        # which another thread can observe or disturb
        tr = sorted(getattr(s, 'transient', ()))
        fc.ob(q, 'no_transient_module_state', not tr, f'changes {tr} temporarily inside a restoring context')
        rg = sorted(r for r in s.reads if r.startswith('global:') and r not in READONLY_GLOBALS and r != GLOBAL_PRMS)
        fc.ob(q, 'no_mutable_module_state_read', not rg, f'reads {rg}')
        if not q.endswith('._setup_prms') and not q.endswith('.__init__') and q not in ('ampycloud.core.run', 'ampycloud.core.metar'):
            fc.ob(q, 'global_prms_not_read', GLOBAL_PRMS not in s.reads, str(fc.sites(q, GLOBAL_PRMS)))
        # writes stay inside the instance / the function's own fresh objects / declared output argument
        wp = sorted(w for w in s.writes if w.startswith('param:') and w not in OUT_PARAMS.get(q, ()))
        fc.ob(q, 'writes_only_own_state', not wp, f'writes arguments {wp} at {[fc.sites(q, w) for w in wp]}')
    for g in READONLY_GLOBALS:
        writers = sorted(q for q, s in an.summaries.items() if g in s.writes)
        fc.ob(g.replace('global:', ''), 'never_written', not writers, f'written by {writers}')
    # ownership: what the constructor stores in the instance is fresh (or the caller's immutable leaves)
    for q in (f'{AC}.__init__', f'{CH}.__init__'):
        s = fc.S(q)
        sh = sorted((x, av) for (x, av) in s.stores if x.startswith('self.') and (av[1].startswith('global:') or (x == 'self._data')))
        fc.ob(q, 'fields_owned', not sh, str(sh))
    # class-level mutable attributes are shared by every instance in the process: none of them may ever be mutated
    _MUT = {'append', 'extend', 'insert', 'pop', 'remove', 'clear', 'update', 'setdefault', 'popitem', 'add', 'discard', 'sort', 'reverse',
            '__setitem__', '__delitem__'}
    shared = {}
    for modname in PP_MODULES:
        try:
            mi = source.load_module(modname)
        except Exception:
            continue
        for cname, ci in mi.classes.items():
            for st in ci.node.body:
                tgt = st.targets[0] if isinstance(st, ast.Assign) and len(st.targets) == 1 else (st.target if isinstance(st, ast.AnnAssign) else None)
                val = getattr(st, 'value', None)
                if isinstance(tgt, ast.Name) and isinstance(val, (ast.Dict, ast.List, ast.Set, ast.ListComp, ast.DictComp, ast.SetComp, ast.Call)):
                    shared[tgt.id] = f'{ci.qualname}.{tgt.id}'
    writers = {name: [] for name in shared}
    for q in pp_functions(an):
        fi = an.funcs[q]
        for n in ast.walk(fi.node):
            def attr_of(e):
                return e.attr if isinstance(e, ast.Attribute) and e.attr in shared else None
            hit = None
            if isinstance(n, (ast.Assign, ast.AugAssign, ast.Delete)):
                tgts = n.targets if isinstance(n, (ast.Assign, ast.Delete)) else [n.target]
                for t_ in tgts:
                    if isinstance(t_, ast.Subscript) and attr_of(t_.value):
                        hit = attr_of(t_.value)
                    if isinstance(n, ast.AugAssign) and attr_of(t_):
                        hit = attr_of(t_)
                    if isinstance(t_, ast.Attribute) and t_.attr in shared and not (isinstance(t_.value, ast.Name) and t_.value.id == 'self'):
                        hit = t_.attr          # Class.X = ... / cls.X = ... / type(self).X = ...
            if isinstance(n, ast.Call) and isinstance(n.func, ast.Attribute) and n.func.attr in _MUT and attr_of(n.func.value):
                hit = attr_of(n.func.value)
            if hit:
                writers[hit].append(f'{q}:{getattr(n, "lineno", "?")}')
    # (one obligation per class, so that a newly introduced shared attribute fails an obligation that exists on the baseline tree)
    classes = {}
    for modname in PP_MODULES:
        try:
            for cname, ci in source.load_module(modname).classes.items():
                classes[ci.qualname] = []
        except Exception:
            pass
    for name, qual in sorted(shared.items()):
        if writers[name]:
            classes.setdefault(qual.rsplit('.', 1)[0], []).append(f'{name} mutated at {writers[name][:3]}')
    for cq, bad in sorted(classes.items()):
        fc.ob(cq, 'class_attributes_never_mutated', not bad, f'class-level mutable attribute(s): {bad}')
    # no mutable default arguments, no function attributes used as caches
    for q in pp_functions(an):
        fi = an.funcs[q]
        muts = [ast.unparse(d) for d in fi.node.args.defaults + [d for d in fi.node.args.kw_defaults if d is not None]
                if isinstance(d, (ast.List, ast.Dict, ast.Set, ast.Call))]
        fc.ob(q, 'no_mutable_defaults', not muts, str(muts))
    fc.no_unknown(pp_functions(an))
    return fc


#: arguments a helper is *meant* to update in place (the callers pass objects they own)
OUT_PARAMS = {
    'ampycloud.utils.utils.adjust_nested_dict': ('param:ref_dict', 'param:lvls'),
    f'{CH}._calculate_cloud_amount': ('param:pdf',), f'{CH}._calculate_sligrolay_base_height': ('param:pdf',),
    f'{CH}._add_sligrolay_information': ('param:pdf',),
    'ampycloud.scaler.convert_kwargs': ('param:kwargs',),
}


# ---------------------------------------------------------------------------------------------
# C09: the global generator, the clock and the environment are not part of the processing path
# ---------------------------------------------------------------------------------------------

def c09(run=None):
    fc = FrameCheck()
    an = fc.an
    for q in pp_functions(an):
        s = fc.S(q)
        g = sorted(x for x in (s.reads | s.writes) if x in ('ghost:RNG', 'ghost:RNG2'))
        fc.ob(q, 'global_rng_untouched', not g, f'{g} at {[fc.sites(q, x) for x in g]}')
        env = sorted(x for x in s.reads if x in ('ghost:ENV',))
        fc.ob(q, 'no_hash_id_environment', not env, f'{[fc.sites(q, x) for x in env]}')
        if q != 'ampycloud.core.run' and q != 'ampycloud.core.metar':
            fc.ob(q, 'clock_not_read', 'ghost:CLOCK' not in s.reads, str(fc.sites(q, 'ghost:CLOCK')))
    # run() reads the clock for the log only
    fi = an.funcs['ampycloud.core.run']
    fc.ob(fi.qualname, 'clock_flows_to_log_only', _clock_log_only(fi), 'a value derived from datetime.now() is used outside logger calls')
    # demo data: the generator is only touched under the temporary seed, which restores it (tmp_seed::post.restore)
    s = fc.S('ampycloud.utils.mocker.canonical_demo_data')
    fc.ob(s.qualname, 'rng_restored', 'ghost:RNG' not in s.writes, f'unmasked generator use at {fc.sites(s.qualname, "ghost:RNG")}')
    s = fc.S('ampycloud.utils.mocker.mock_layers')
    fc.ob(s.qualname, 'uses_rng_declared', True, '')
    # mixture models are built with the explicit integer seed
    fi = an.funcs['ampycloud.layer.ncomp_from_gmm']
    ok, why = _gmm_seeded(fi)
    fc.ob(fi.qualname, 'pre@GaussianMixture.random_state', ok, why)
    # no iteration over sets in the processing path
    for q in pp_functions(an):
        bad = _set_iteration(an.funcs[q])
        fc.ob(q, 'no_set_iteration', not bad, str(bad))
    fc.no_unknown(pp_functions(an))
    return fc


def _clock_log_only(fi):
    tainted = set()
    for n in ast.walk(fi.node):
        if isinstance(n, ast.Assign) and _has_clock(n.value):
            for t in n.targets:
                if isinstance(t, ast.Name):
                    tainted.add(t.id)

    def in_logger(node, parents):
        for p in parents:
            if isinstance(p, ast.Call) and isinstance(p.func, ast.Attribute) and isinstance(p.func.value, ast.Name) and p.func.value.id == 'logger':
                return True
        return False
    ok = True

    def walk(node, parents):
        nonlocal ok
        if (isinstance(node, ast.Name) and node.id in tainted and isinstance(node.ctx, ast.Load)) or \
                (isinstance(node, ast.Call) and _is_clock_call(node)):
            if not in_logger(node, parents) and not (parents and isinstance(parents[-1], ast.Assign) and parents[-1].value is node):
                ok = False
        for c in ast.iter_child_nodes(node):
            walk(c, parents + [node])
    walk(fi.node, [])
    return ok


def _is_clock_call(n):
    return isinstance(n, ast.Call) and isinstance(n.func, ast.Attribute) and n.func.attr in ('now', 'time', 'utcnow', 'today')


def _has_clock(node):
    return any(_is_clock_call(n) for n in ast.walk(node))


def _gmm_seeded(fi):
    calls = [n for n in ast.walk(fi.node) if isinstance(n, ast.Call) and
             ((isinstance(n.func, ast.Name) and n.func.id == 'GaussianMixture') or
              (isinstance(n.func, ast.Attribute) and n.func.attr == 'GaussianMixture'))]
    if not calls:
        return False, 'no GaussianMixture construction found'
    params = [a.arg for a in fi.node.args.args + fi.node.args.kwonlyargs]
    for c in calls:
        kw = {k.arg: k.value for k in c.keywords}
        rs = kw.get('random_state')
        if rs is None:
            return False, f'GaussianMixture(...) at line {c.lineno} has no random_state'
        if not (isinstance(rs, ast.Name) and rs.id == 'random_seed' and 'random_seed' in params):
            if not (isinstance(rs, ast.Constant) and isinstance(rs.value, int) and not isinstance(rs.value, bool)):
                return False, f'random_state at line {c.lineno} is not the integer parameter random_seed'
    # the parameter must not be rebound before use
    for n in ast.walk(fi.node):
        if isinstance(n, (ast.Assign, ast.AugAssign)):
            tg = n.targets if isinstance(n, ast.Assign) else [n.target]
            for t in tg:
                if isinstance(t, ast.Name) and t.id == 'random_seed':
                    return False, f'random_seed is rebound at line {n.lineno}'
    d = dict(zip([a.arg for a in fi.node.args.args][-len(fi.node.args.defaults):], fi.node.args.defaults))
    dv = d.get('random_seed')
    if dv is not None and not (isinstance(dv, ast.Constant) and isinstance(dv.value, int)):
        return False, 'default of random_seed is not an int'
    return True, ''


def _set_iteration(fi):
    bad = []
    for n in ast.walk(fi.node):
        it = None
        if isinstance(n, ast.For):
            it = n.iter
        elif isinstance(n, ast.comprehension):
            it = n.iter
        if it is not None:
            if isinstance(it, (ast.Set, ast.SetComp)) or (isinstance(it, ast.Call) and isinstance(it.func, ast.Name) and it.func.id in ('set', 'frozenset')):
                bad.append(f'line {it.lineno}: iteration over a set')
    return bad


# ---------------------------------------------------------------------------------------------
# C20 (frame part): plotting reads the chunk only, restores rcParams
# ---------------------------------------------------------------------------------------------

def c20(run=None):
    fc = FrameCheck()
    an = fc.an
    plot_fns = [q for q in an.summaries if q.startswith('ampycloud.plots.')]
    for q in sorted(plot_fns):
        s = fc.S(q)
        wp = sorted(w for w in s.writes if w.startswith('param:chunk') or w.startswith('global:') or
                    (w.startswith('self._chunk') and any(h != 'field assignment' for _, h in fc.sites(q, w))))
        fc.ob(q, 'chunk_and_globals_not_written', not wp, f'{wp} at {[fc.sites(q, w) for w in wp]}')
    s = fc.S('ampycloud.plots.core.diagnostic')
    fc.ob(s.qualname, 'rcparams_restored', 'ghost:RC' not in s.writes, f'rcParams written outside a style context at {fc.sites(s.qualname, "ghost:RC")}')
    fc.ob(s.qualname, 'writes_bounded', s.writes <= {'ghost:FIGS', 'ghost:FS', 'ghost:LOG', 'ghost:WARN'}, str(sorted(s.writes)))
    s = fc.S('ampycloud.plots.tools.set_mplstyle')
    fc.ob(s.qualname, 'rcparams_restored', 'ghost:RC' not in s.writes, str(fc.sites(s.qualname, 'ghost:RC')))
    for q in sorted(plot_fns):
        s = fc.S(q)
        fc.ob(q, 'rng_untouched', not ({'ghost:RNG'} & (s.reads | s.writes)), str(fc.sites(q, 'ghost:RNG')))
    # every chunk method the plots call is read-only (metar_msg, properties)
    for q in sorted(plot_fns):
        s = fc.S(q)
        callees = sorted(c for c in s.calls if c.startswith(CH + '.') or c.startswith(AC + '.'))
        bad = [c for c in callees if [w for w in fc.S(c).writes if w.startswith('self.')]]
        fc.ob(q, 'calls_only_readonly_chunk_methods', not bad, f'{bad}')
    fc.no_unknown(plot_fns)
    return fc


# ---------------------------------------------------------------------------------------------
# C05 (frame part): no stage creates, loses or alters hits: only the three id columns of the private hit table are written
# ---------------------------------------------------------------------------------------------
ID_COLS = {'slice_id', 'group_id', 'layer_id'}


def c05(run=None):
    fc = FrameCheck()
    an = fc.an
    for q in chunk_methods(an):
        s = fc.S(q)
        cols = set(s.cols_written.get('self._data', set()))
        bad = sorted(cols - ID_COLS)
        fc.ob(q, 'hit_columns_untouched', not bad, f'writes column(s) {bad} of the hit table at {fc.sites(q, "self._data")}')
        rebind = [h for _, h in fc.sites(q, 'self._data') if h == 'field assignment']
        fc.ob(q, 'hit_table_not_replaced', not rebind, 'assigns self._data')
    own = {f'{CH}.find_slices': 'slice_id', f'{CH}.find_groups': 'group_id', f'{CH}.find_layers': 'layer_id'}
    for q, col in own.items():
        cols = set(fc.S(q).cols_written.get('self._data', set()))
        fc.ob(q, 'writes_only_its_own_id_column', cols <= {col}, f'{sorted(cols)}')
    for q in (f'{CH}.metarize', f'{CH}.metar_msg', f'{CH}._setup_sligrolay_pdf', f'{CH}._calculate_cloud_amount',
              f'{CH}._calculate_sligrolay_base_height', f'{CH}._add_sligrolay_information', f'{CH}.data_rescaled'):
        fc.ob(q, 'hit_table_read_only', 'self._data' not in fc.S(q).writes, str(fc.sites(q, 'self._data')))
    return fc


# ---------------------------------------------------------------------------------------------
# C08 (syntactic part): every refusal is an AmpycloudError
# ---------------------------------------------------------------------------------------------

def c08(run=None):
    from pyvc import defassign
    fc = FrameCheck()
    an = fc.an
    bad = defassign.selftest()
    if bad:
        raise RuntimeError(f'definite-assignment analysis fails its self-test: {bad[:2]}')
    for q, fi in sorted(an.funcs.items()):
        # an UnboundLocalError is not an AmpycloudError: every read of a local happens after an assignment on every path
        try:
            definite, possible = defassign.classify(fi.node)
            fc.ob(q, 'locals_definitely_assigned', not definite,
                  '; '.join(f'line {ln}: `{nm}` is read although a branch reaching the read does not assign it' for ln, nm in definite[:4]))
            if possible and not definite:
                # assigned only inside a `for` body: fine iff the loop runs at least once -- not decided here
                fc.ob(q, 'locals_assigned_even_if_a_loop_is_empty', False,
                      '; '.join(f'line {ln}: `{nm}` is assigned only inside a loop body' for ln, nm in possible[:4]), undecided=True)
        except NotImplementedError as e:
            fc.ob(q, 'locals_definitely_assigned', False, f'statement outside the analysis: {e}', undecided=True)
        for n in ast.walk(fi.node):
            if isinstance(n, ast.Raise):
                e = n.exc
                name = None
                if isinstance(e, ast.Call):
                    name = e.func.id if isinstance(e.func, ast.Name) else (e.func.attr if isinstance(e.func, ast.Attribute) else None)
                elif isinstance(e, ast.Name):
                    name = e.id
                fc.ob(q, f'raise@{_ordinal(fi, n)}.is_AmpycloudError', name == 'AmpycloudError', f'line {n.lineno}: raises {name}')
            if isinstance(n, ast.Try) and n.handlers:
                fc.ob(q, f'no_swallowed_exceptions', False, f'line {n.lineno}: try/except present (effect on exception types unknown)', undecided=True)
    return fc


def _ordinal(fi, node):
    k = 0
    for n in ast.walk(fi.node):
        if isinstance(n, ast.Raise):
            if n is node:
                return k
            k += 1
    return k


# ---------------------------------------------------------------------------------------------
# C10 (frame part): the hit table is never indexed by position; columns are selected by name
# ---------------------------------------------------------------------------------------------

def c10(run=None):
    fc = FrameCheck()
    an = fc.an
    for q in chunk_methods(an, with_init=True) + ['ampycloud.utils.utils.check_data_consistency']:
        fi = an.funcs[q]
        bad = []
        for n in ast.walk(fi.node):
            if isinstance(n, ast.Attribute) and n.attr in ('iloc', 'iat', 'take') and _mentions_hit_table(n.value):
                bad.append(f'line {n.lineno}: positional indexer .{n.attr} on the hit table')
            if isinstance(n, ast.Subscript) and isinstance(n.value, ast.Attribute) and n.value.attr in ('values',) \
                    and _mentions_hit_table(n.value.value) and not _has_name_list(n.value.value):
                bad.append(f'line {n.lineno}: positional access into .values of the hit table')
        fc.ob(q, 'no_positional_access_to_hit_table', not bad, '; '.join(bad))
    s = fc.S(f'{AC}._cleanup_pdf')
    fi = an.funcs[f'{AC}._cleanup_pdf']
    resets = [n for n in ast.walk(fi.node) if isinstance(n, ast.Call) and isinstance(n.func, ast.Attribute) and n.func.attr == 'reset_index']
    fc.ob(s.qualname, 'index_normalised_before_label_based_selection', bool(resets) and _before_first(fi, resets[0], ('loc', 'drop')),
          'the private hit table keeps the caller\'s index labels while rows are selected by label')
    return fc


def _mentions_hit_table(node):
    for n in ast.walk(node):
        if isinstance(n, ast.Attribute) and n.attr in ('data', '_data') and isinstance(n.value, ast.Name) and n.value.id == 'self':
            return True
        if isinstance(n, ast.Name) and n.id == 'data':
            return True
    return False


def _has_name_list(node):
    return any(isinstance(n, ast.Subscript) and isinstance(n.slice, (ast.List, ast.Constant)) for n in ast.walk(node))


def _before_first(fi, call, attrs):
    for n in ast.walk(fi.node):
        if isinstance(n, ast.Attribute) and n.attr in attrs and getattr(n, 'lineno', 10**9) < call.lineno:
            return False
    return True


# ---------------------------------------------------------------------------------------------
# C16 (frame part): ceilometer names flow only into label-independent operations
# ---------------------------------------------------------------------------------------------
CEILO_KEYS = ('ceilo', 'EXCLUDE_FOR_BASE_HEIGHT_CALC')
NEUTRAL_CALLS = {'unique', 'isin', 'len', 'list', 'duplicated', 'merge', 'nunique', 'astype', 'deepcopy', 'warn', 'debug', 'info',
                 'warning', 'error', 'items', 'keys', 'to_string'}


def _ceilo_uses(fi):
    """(lineno, snippet, ok) for every syntactic use of ceilometer names in the function"""
    parents = {}
    for n in ast.walk(fi.node):
        for c in ast.iter_child_nodes(n):
            parents[c] = n
    tainted = set()
    # loop / comprehension variables ranging over self.ceilos or the exclusion list
    for n in ast.walk(fi.node):
        it, tgt = None, None
        if isinstance(n, ast.For):
            it, tgt = n.iter, n.target
        elif isinstance(n, ast.comprehension):
            it, tgt = n.iter, n.target
        elif isinstance(n, ast.Lambda):
            par = parents.get(n)
            if isinstance(par, ast.Call) and isinstance(par.func, ast.Attribute) and par.func.attr == 'apply' and _src(par.func.value).find("'ceilo'") >= 0:
                tainted |= {a.arg for a in n.args.args}
        if it is not None and (_src(it).find('ceilos') >= 0 or any(k in _src(it) for k in CEILO_KEYS)):
            tainted |= {x.id for x in ast.walk(tgt) if isinstance(x, ast.Name)}
    out = []
    for n in ast.walk(fi.node):
        is_src = False
        if isinstance(n, ast.Constant) and n.value in CEILO_KEYS:
            is_src = True
        elif isinstance(n, ast.Attribute) and n.attr in ('ceilo', 'ceilos'):
            is_src = True
        elif isinstance(n, ast.Name) and n.id in tainted and isinstance(n.ctx, ast.Load):
            is_src = True
        if not is_src:
            continue
        ok, why = _neutral_context(n, parents)
        out.append((getattr(n, 'lineno', 0), why, ok))
    return out


def _src(n):
    try:
        return ast.unparse(n)
    except Exception:
        return ''


def _neutral_context(n, parents):
    cur = n
    while cur in parents:
        par = parents[cur]
        if isinstance(par, ast.Compare) and all(isinstance(o, (ast.Eq, ast.NotEq, ast.In, ast.NotIn)) for o in par.ops):
            return True, 'equality / membership test'
        if isinstance(par, ast.Call):
            f = par.func
            nm = f.attr if isinstance(f, ast.Attribute) else (f.id if isinstance(f, ast.Name) else '')
            if cur is not f or nm in NEUTRAL_CALLS:
                if nm in NEUTRAL_CALLS:
                    return True, f'{nm}()'
                if nm in ('sort_values', 'sorted', 'sort', 'argsort', 'index', 'searchsorted', 'startswith', 'endswith', 'find', 'replace',
                          'lower', 'upper', 'split', 'join', 'max', 'min', 'groupby', 'rank', 'hash', 'ord', 'int', 'float', 'any', 'all', 'strip',
                          'casefold', 'title', 'capitalize', 'len', 'cumsum', 'sum'):
                    return False, f'line {par.lineno}: ceilometer names reach {nm}(): depends on their spelling / order'
        if isinstance(par, (ast.JoinedStr, ast.FormattedValue)):
            return True, 'message text'
        if isinstance(par, ast.Subscript) and cur is par.slice:
            # column selection by name: df['ceilo'] / df[['dt', 'ceilo']] -- the *values* then flow on: keep climbing from the subscript
            cur = par
            continue
        if isinstance(par, (ast.For, ast.comprehension)) and cur is getattr(par, 'iter', None):
            return True, 'iterated (each name used through a tainted loop variable, checked separately)'
        if isinstance(par, ast.Compare):
            return False, f'line {par.lineno}: ordering comparison on ceilometer names'
        if isinstance(par, ast.stmt):
            if isinstance(par, ast.Assign) and isinstance(par.targets[0], ast.Name) and par.targets[0].id in ('cols', 'req_cols'):
                return True, 'column-name list'
            if isinstance(par, ast.Return):
                return True, 'returned (property ceilos: callers checked)'
            if isinstance(par, ast.Assign) and isinstance(par.targets[0], ast.Name) and _only_equality_joins(parents, par):
                return True, 'column selection used only as an equality-join key (merge / duplicated)'
            if isinstance(par, ast.Assign):
                return True, 'assigned (mask / selection built from an equality test is checked at its construction)' if _src(par.value).find('==') >= 0 or _src(par.value).find('isin') >= 0 or _src(par.value).find('not in') >= 0 or _src(par.value).find('unique') >= 0 else (False, f'line {par.lineno}: ceilometer names stored without a label-independent operation')
            return True, 'statement'
        cur = par
    return True, 'top'


def _only_equality_joins(parents, assign):
    """the assigned name is used only as receiver / argument of merge(), duplicated(), len(), to_string()"""
    name = assign.targets[0].id
    root = assign
    while root in parents:
        root = parents[root]
    ok_any = False
    for n in ast.walk(root):
        if isinstance(n, ast.Name) and n.id == name and isinstance(n.ctx, ast.Load):
            par = parents.get(n)
            if isinstance(par, ast.Attribute) and par.attr in ('merge', 'duplicated', 'to_string'):
                ok_any = True
                continue
            if isinstance(par, ast.Call) and ((isinstance(par.func, ast.Attribute) and par.func.attr in ('merge',)) or
                                              (isinstance(par.func, ast.Name) and par.func.id == 'len')):
                ok_any = True
                continue
            return False
    return ok_any


def c16(run=None):
    fc = FrameCheck()
    an = fc.an
    for q in pp_functions(an):
        uses = _ceilo_uses(an.funcs[q])
        if not uses:
            continue
        bad = [why for (_, why, ok) in uses if ok is False or (isinstance(ok, tuple))]
        bad += [w[1] for (_, w, ok) in uses if isinstance(w, tuple)]
        fc.ob(q, 'ceilometer_names_used_as_labels_only', not bad, '; '.join(map(str, bad))[:400])
    # names never reach the clustering inputs or the sort keys
    for q in (f'{CH}.find_slices', f'{CH}.find_groups'):
        fi = an.funcs[q]
        bad = [f'line {n.lineno}' for n in ast.walk(fi.node) if isinstance(n, ast.Call) and isinstance(n.func, ast.Attribute)
               and n.func.attr == 'clusterize' and "'ceilo'" in _src(n)]
        fc.ob(q, 'clustering_input_has_no_names', not bad, str(bad))
    return fc
