"""Contracts for ampycloud.plots (C20): the files written by DiagnosticPlot.save are exactly <stem>.<fmt> for the formats requested."""
import z3

from pyvc import smt
from pyvc.contracts import Contract, Spec, Str, Const, Custom
from pyvc.smt import And, Implies, Forall
from pyvc.values import Model, SStr, SList, Unsupported
from pyvc.lib import LIB_DOC

SAVED = z3.Array('saved_names', z3.IntSort(), z3.StringSort())      # ghost: k-th file name handed to Figure.savefig

LIB_DOC['matplotlib.figure.Figure.savefig(name)'] = 'writes the figure to the file `name` (ghost log of the names, in call order); format taken from the extension'


class SFig(Model):
    """the matplotlib figure of a DiagnosticPlot: only savefig is modelled (ghost log)"""
    pytype = 'Figure'

    def __init__(self):
        self.count = z3.IntVal(0)
        self.names = SAVED

    def m_savefig(self, ctx, name, **kw):
        if kw or not isinstance(name, (SStr, str)):
            raise Unsupported('savefig shape')
        t = name.t if isinstance(name, SStr) else z3.StringVal(name)
        self.names = z3.Store(self.names, self.count, t)
        self.count = z3.simplify(self.count + 1)
        return None

    def havoc(self, ctx):
        self.count = smt.fresh_int('saved_count')
        self.names = smt.fresh('saved_names', z3.ArraySort(z3.IntSort(), z3.StringSort()))
        return self


class PlotSelf(Spec):
    def make(self, name, ctx):
        from pyvc.pandas_model import SChunk
        return SChunk('ampycloud.plots.diagnostics.DiagnosticPlot', {'_fig': SFig()}, {})

    def describe(self):
        return 'DiagnosticPlot with a figure (ghost log of savefig calls)'


class FmtList(Spec):
    def make(self, name, ctx):
        n = z3.Int('fmts_n')
        ctx.assume(n >= 0)
        ctx.len_vars.append(n)
        return SList('str', n, z3.Array('fmts', z3.IntSort(), z3.StringSort()), None, 'str')

    def describe(self):
        return 'list of str (any length)'


class NoneSpec(Spec):
    def make(self, name, ctx):
        return None

    def describe(self):
        return 'None'


def _name(stem, fmt):
    return z3.Concat(stem, z3.StringVal('.'), fmt)


def _save_inv(E, i):
    fig = E.self.fields['_fig']
    stem = smt.lift(E.fn_out)
    return {'one_file_per_format_so_far': fig.count == i,
            'names': Forall(0, i, lambda j: fig.names[j] == _name(stem, E.fmts[j]))}


def _save_post(result, self, fn_out, fmts):
    fig = self.fields['_fig']
    stem = smt.lift(fn_out)
    if fmts is None:
        return {'one_pdf': And(fig.count == 1, fig.names[0] == _name(stem, z3.StringVal('pdf')))}
    return {'one_file_per_format': fig.count == fmts.len,
            # exactly <stem>.<fmt>: the stem is kept whole (dots in it included), the format is appended
            'names_are_stem_dot_format': Forall(0, fmts.len, lambda j: fig.names[j] == _name(stem, fmts[j]))}


def register(reg):
    reg.add(Contract(
        'ampycloud.plots.diagnostics.DiagnosticPlot.save', properties=('C20',),
        cases=[('fmts=None', {'self': PlotSelf(), 'fn_out': Str(), 'fmts': NoneSpec()}),
               ('fmts=list', {'self': PlotSelf(), 'fn_out': Str(), 'fmts': FmtList()})],
        ensures=_save_post,
        raises={},
        loops={0: {'invariant': _save_inv, 'modifies': ['fmt'], 'modifies_fields': {'self': ['_fig']}}},
        canaries={'never_saves': lambda result, self, fn_out, fmts: self.fields['_fig'].count == 0},
        notes='Figure.savefig is a ghost log (A-LIB); which file a name denotes and that matplotlib writes it are bounded only'))
