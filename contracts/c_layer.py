"""Block contract for the re-merge pass of ampycloud.layer.ncomp_from_gmm (C06 layer clause, C08).

The function is verified from the statement that computes the component bases (`base_comp_heights = [...]`) to its end, from the real
AST.  Everything before that statement -- the mixture fits of scikit-learn, the information criteria, best_gmm -- is NOT verified
here: it is replaced by the ASSUMED mid-condition `_mid_state` (one label in 0..K-1 per value, every component of the chosen model
populated, K = ncomp[best_model_ind] >= 2), which the evidence lists as an unchecked assumption.
"""
import z3
from pyvc import smt
from pyvc.contracts import Contract, Int, Float, Const, Custom
from pyvc.lib import ArrOf, SArr, CArr
from pyvc.smt import And, Or, Not, Implies, Forall, Exists, Sequent, lift
from pyvc.values import SInt, SFloat
from .spec import ln, _rv, _isnan

Q = 'ampycloud.layer.ncomp_from_gmm'
CBH = 'ampycloud.utils.utils.calc_base_height'


def _mid_state(K, kmax):
    def state(ctx, env):
        n = z3.Int('nvals')
        ctx.assume(n >= 1)
        ctx.len_vars.append(n)
        h = z3.Array('vals_orig', z3.IntSort(), z3.RealSort())
        ids0 = z3.Array('best_ids_raw', z3.IntSort(), z3.IntSort())
        ctx.assume(Forall(0, n, lambda r: And(ids0[r] >= 0, ids0[r] < K), name='labels_in_range'))
        wit = []
        for v in range(K):
            m = z3.Int(f'populated_{v}')
            ctx.assume(And(m >= 0, m < n, ids0[m] == v))
            ctx.hint(m)
            wit.append(m)
        vals_orig = SArr(n, lambda i: SFloat(h[i], False, 'npfloat'), 'float')
        best_ids = SArr(n, lambda i: SInt(ids0[i], 'npint'), 'int')
        ctx.ghost['mid'] = {'n': n, 'h': h, 'ids0': ids0, 'K': K, 'wit': wit, 'vals_orig': vals_orig, 'raw_at': best_ids.at}
        ctx.ghost['int_domain'] = list(range(K))        # hint for len(np.unique(.)): proved at the call (safe.unique_domain)
        ctx.extractors['vals_orig'] = lambda m_: [smt.z3val_to_py(m_.eval(h[j], model_completion=True))
                                                 for j in range(min(smt.z3val_to_py(m_.eval(n, model_completion=True)), 40))]
        ctx.extractors['best_ids_raw'] = lambda m_: [smt.z3val_to_py(m_.eval(ids0[j], model_completion=True))
                                                    for j in range(min(smt.z3val_to_py(m_.eval(n, model_completion=True)), 40))]
        abics = CArr([SFloat(z3.Real(f'abics_{j}'), False, 'npfloat') for j in range(kmax)], 'float')
        return {'vals_orig': vals_orig, 'best_ids': best_ids, 'ncomp': CArr([j + 1 for j in range(kmax)], 'int'),
                'best_model_ind': K - 1, 'best_ncomp': K, 'abics': abics,
                # the prefix rebinds this parameter only when it is None (then to the documented defaults): a caller's dict stays
                'layer_base_params': env['layer_base_params'], 'min_sep': env['min_sep']}
    return state


def _dict_spec():
    def mk(name, ctx):
        lb, hp = z3.Int('lookback_perc'), z3.Int('height_perc')
        ctx.assume(And(lb >= 1, lb <= 100, hp >= 0, hp <= 100))
        ctx.extractors[name] = lambda m: {'lookback_perc': smt.z3val_to_py(m.eval(lb, model_completion=True)),
                                          'height_perc': smt.z3val_to_py(m.eval(hp, model_completion=True))}
        return {'lookback_perc': SInt(lb), 'height_perc': SInt(hp)}
    return Custom(mk, "{'lookback_perc': 1..100, 'height_perc': 0..100}")


def _component_values(interp, frame):
    """ASSUMED numpy meaning of vals_orig[best_ids == i].flatten(): the values carrying label i, in row order -- a non-empty 1-D array
    (every component is populated: mid-condition) whose every element is one of the values with that label"""
    ctx = interp.ctx
    g = ctx.ghost['mid']
    i = frame.env['i']
    it = lift(i if isinstance(i, int) else i.t)
    best = frame.env['best_ids']
    k = smt.fresh_int('ncomp_vals')
    arr = smt.fresh('comp_vals', z3.ArraySort(z3.IntSort(), z3.RealSort()))
    src = smt.fresh('comp_row', z3.ArraySort(z3.IntSort(), z3.IntSort()))
    # at this point of the code best_ids still holds the raw labels (obligation in the post: pins.selection_by_raw_label)
    ctx.assume(k >= 1)
    ctx.assume(Forall(0, k, lambda j: And(src[j] >= 0, src[j] < g['n'], g['ids0'][src[j]] == it, arr[j] == g['h'][src[j]]), name='component_rows'))
    out = SArr(k, lambda j: SFloat(arr[j], False, 'npfloat'), 'float')
    ctx.ghost.setdefault('component_selections', []).append((i, out, best.at is g['raw_at']))
    return out


def _post(result, vals, ncomp_max, min_sep, layer_base_params, scores, rescale_0_to_x, random_seed, kwargs):
    ctx = smt.CURRENT_CTX
    g = ctx.ghost['mid']
    K, n, ids0, wit = g['K'], g['n'], g['ids0'], g['wit']
    loc = ctx.ghost['locals_at_exit']
    bases = loc.get('base_comp_heights')
    out = {}
    calls = [c for c in ctx.ghost.get('calls', []) if c[0] == CBH]
    sels = ctx.ghost.get('component_selections', [])
    ok = isinstance(bases, list) and len(bases) == K and len(calls) == K and len(sels) == K
    out['pins.one_base_per_component_by_the_shared_routine'] = ok
    if not ok:
        return out
    # each base is the routine's result for the values of *that* component (selected by the raw labels), with the caller's parameters
    out['pins.component_j_selected_by_raw_label_j'] = all(_is_const(s[0], j) and s[2] and calls[j][1]['vals'] is s[1] for j, s in enumerate(sels))
    out['pins.lookback_is_the_callers'] = all(c[1]['lookback_perc'] is layer_base_params['lookback_perc'] for c in calls)
    out['pins.percentile_is_the_callers'] = all(c[1]['height_perc'] is layer_base_params['height_perc'] for c in calls)
    b = [_rv(x) for x in bases]
    ms = _rv(min_sep)
    n_out, ido, abics_out = result
    n_out = lift(n_out.t if hasattr(n_out, 't') else n_out)

    # the sorted order, stated independently of the code's sort / argsort: c below d  iff  b[c] < b[d]  (ties: by index)
    def below(c, d):
        return Or(b[c] < b[d], And(b[c] == b[d], c < d))

    def close_neighbours(c, d):
        """d follows c directly in the sorted order and is less than min_sep above it"""
        between = [And(below(c, e), below(e, d)) for e in range(K) if e not in (c, d)]
        return And(below(c, d), Not(Or(*between)) if between else True, b[d] - b[c] < ms)

    def direct(c, d):
        return Or(close_neighbours(c, d), close_neighbours(d, c))

    def linked(c, d):
        return Or(direct(c, d), *[And(direct(c, e), direct(e, d)) for e in range(K) if e not in (c, d)])
    pairs = [(c, d) for c in range(K) for d in range(K) if c != d]
    n_close = sum([z3.If(close_neighbours(c, d), 1, 0) for c, d in pairs])
    # C06: nothing re-merged  =>  any two component bases are at least min_sep apart
    out['C06.no_remerge_implies_separated'] = Implies(n_out == K, And(*[Or(b[c] - b[d] >= ms, b[d] - b[c] >= ms)
                                                                        for c in range(K) for d in range(c + 1, K)]))
    # C05 (k components <-> k layers) / the layer-id lemma of C05: one label in 0..K-1 (K <= 3) per value, and the number returned is
    # the number of distinct labels handed back
    from pyvc.lib import distinct_count
    in_range = And(ln(ido) == n, Forall(0, n, lambda r: And(ido[r] >= 0, ido[r] < K)))
    out['C05.one_label_in_0_to_K_minus_1_per_value'] = in_range
    ido_model = result[1]
    if isinstance(ido_model, SArr) and ido_model.dtype == 'int':
        out['C05.number_returned_is_number_of_distinct_labels'] = n_out == distinct_count(ctx, ido_model, list(range(K)))
    else:
        out['C05.number_returned_is_number_of_distinct_labels'] = False
    out['scores_returned_unchanged'] = abics_out is loc.get('abics')
    return out


def _is_const(v, j):
    if isinstance(v, int):
        return v == j
    t = getattr(v, 't', None)
    return t is not None and z3.is_int_value(t) and t.as_long() == j


def _state(ctx, env):
    kmax = env['ncomp_max']
    K = 2 if kmax == 2 else ctx.choose('components_of_the_chosen_model', [2, 3])
    return _mid_state(K, kmax)(ctx, env)


def register(reg):
    reg.add(Contract(
        Q, properties=('C06', 'C08'),
        params={'vals': ArrOf('float'), 'ncomp_max': Const(3), 'min_sep': Float(nan=False, lo=0),
                'layer_base_params': _dict_spec(), 'scores': Const('BIC'), 'rescale_0_to_x': Const(None), 'random_seed': Const(42),
                'kwargs': Const({})},
        cases=[('ncomp_max=2', {'ncomp_max': Const(2)}), ('ncomp_max=3', {'ncomp_max': Const(3)})],
        entry_cut={'first_assigns': 'base_comp_heights', 'state': _state,
                   'doc': 'ASSUMED mid-condition after the mixture fit: best_ids holds one label in 0..K-1 per value, every component of the '
                          'chosen model is populated, K = ncomp[best_model_ind] >= 2, vals_orig are the (finite) input heights, layer_base_params '
                          'and min_sep are still the caller\'s'},
        arg_pins={('calc_base_height', 0): dict(
            source='vals_orig[best_ids == i].flatten()', value=_component_values,
            doc='values carrying the raw label i, as a non-empty 1-D array (ASSUMED numpy meaning of boolean-mask selection + flatten)')},
        ensures=_post,
        native_oracle=__import__('contracts.native', fromlist=['x']).ncomp_suffix_oracle,
        canaries={'never_remerged': lambda result, **kw: lift(result[0].t if hasattr(result[0], 't') else result[0]) == smt.CURRENT_CTX.ghost['mid']['K'],
                  'always_remerged': lambda result, **kw: lift(result[0].t if hasattr(result[0], 't') else result[0]) < smt.CURRENT_CTX.ghost['mid']['K'],
                  'bases_always_separated': lambda result, min_sep, **kw: _rv(smt.CURRENT_CTX.ghost['locals_at_exit']['base_comp_heights'][1])
                  - _rv(smt.CURRENT_CTX.ghost['locals_at_exit']['base_comp_heights'][0]) >= _rv(min_sep)},
        raises={},
        notes='block contract: verified from `base_comp_heights = [...]` to the end; the prefix is replaced by the assumed mid-condition',
    ))
    register_best_gmm(reg)


# =============================================================================================
# best_gmm (part of the prefix of ncomp_from_gmm that the block contract above assumes away): which model index comes back
# =============================================================================================
BG = 'ampycloud.layer.best_gmm'


def _bg_post(result, abics, mode, min_prob, delta_mul_gain):
    r = lift(result.t if hasattr(result, 't') else result)
    n = ln(abics)
    g = _rv(delta_mul_gain)
    return {
        # the index names one of the models scored (C05: K <= len(ncomp) <= ncomp_max; C08: ncomp[best_model_ind] cannot run off the end)
        'index_in_range': And(r >= 0, Or(r < n, And(n == 0, r == 0))),
        # a model other than the simplest one is returned only for a score that beat an earlier model's score times the gain: its score
        # is a number (a NaN score is never selected) and lies strictly below gain * an earlier (non-NaN) score
        'a_nan_score_is_never_selected': Implies(r >= 1, Not(_isnan(abics[r]))),
        'later_model_only_for_a_beating_score': Sequent([r >= 1], Exists(0, r, lambda j: And(
            Not(_isnan(abics[j])), _rv(abics[r]) < g * _rv(abics[j])))),
    }


def _bg_inv(E, i):
    b = lift(E.best_model_ind.t if hasattr(E.best_model_ind, 't') else E.best_model_ind)
    g = _rv(E.delta_mul_gain)
    smt.CURRENT_CTX.hint(b)          # the witness of the existential after an update is the model that was the best one before it
    return {
        'best_seen_so_far': And(b >= 0, b <= i),
        # with an unknown mode no iteration ever completes (the first one raises)
        'unknown_mode_never_completes_an_iteration': True if E.mode == 'delta' else i == 0,
        'beating_score_is_a_number': Implies(b >= 1, Not(_isnan(E.abics[b]))),
        'beating_score': Sequent([b >= 1], Exists(0, b, lambda j: And(
            Not(_isnan(E.abics[j])), _rv(E.abics[b]) < g * _rv(E.abics[j])))),
    }


def register_best_gmm(reg):
    reg.add(Contract(
        BG, properties=('C05', 'C08'),
        params={'abics': ArrOf('float'), 'mode': Const('delta'), 'min_prob': Float(nan=False), 'delta_mul_gain': Float(nan=False)},
        cases=[('mode=delta', {'mode': Const('delta')}), ('mode=unknown', {'mode': Const('no-such-mode')})],
        result=Int(),
        ensures=_bg_post,
        # an unknown mode is refused -- but only once a second model is looked at (with fewer than two scores the loop body never runs)
        raises={'AmpycloudError': lambda abics, mode, min_prob, delta_mul_gain: And(mode != 'delta', ln(abics) >= 2) if isinstance(mode, str)
                else False},
        loops={0: {'invariant': _bg_inv}},
        canaries={'always_the_simplest_model': lambda result, **kw: lift(result.t if hasattr(result, 't') else result) == 0,
                  'always_the_lowest_score': lambda result, abics, **kw: Forall(0, ln(abics), lambda j: Implies(
                      Not(_isnan(abics[j])), _rv(abics[lift(result.t if hasattr(result, 't') else result)]) <= _rv(abics[j])))},
        native_call=lambda abics, mode, min_prob, delta_mul_gain: __import__('ampycloud.layer', fromlist=['x']).best_gmm(
            __import__('numpy').array([float(x) for x in abics], dtype=float), mode=mode, min_prob=float(min_prob),
            delta_mul_gain=float(delta_mul_gain)),
        notes="mode='prob' (scores2nrl: exp / sum of relative likelihoods) is not under contract; the documented default 'delta' is",
    ))
