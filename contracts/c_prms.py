"""Contracts for the parameter handling (C12): utils.adjust_nested_dict, CeiloChunk._setup_prms, core.reset_prms.

The merge is specified by a recursive predicate over parameter values (pyvc.dict_model):

  IsAdj(f, r, n)  --  "f is r adjusted by n"  :<=>  f is a dictionary with exactly the keys of r, and for every key k
      * named in n and known in r, with a nested dictionary in n:   IsAdj(f[k], r[k], n[k])
      * named in n and known in r, with a plain value in n:         f[k] == n[k]
      * otherwise (not named, or unknown in r):                     f[k] == r[k]

i.e. "per-call values override only the keys named, unknown keys are ignored without adding keys" -- taken from the property text.
`valid assignment` (the property's quantifier): Compat(r, n) -- wherever n names a known key, n and r agree on dict / plain value,
recursively.
"""
import z3

from pyvc import smt
from pyvc.contracts import Contract, Spec, Const, Custom
from pyvc.smt import And, Or, Not, Implies, Forall, ForallKey
from pyvc.values import SStr, SList, Opaque
from pyvc import dict_model as dm
from pyvc.dict_model import PVal, isdict, has, get, nkeys, key_at, idx, depth, SPVal

IsAdj = z3.Function('IsAdj', PVal, PVal, PVal, z3.BoolSort())
Compat = z3.Function('Compat', PVal, PVal, z3.BoolSort())


def named_known(r, n, k):
    return And(has(n, k), has(r, k))


def adj_key_clause(f, r, n, k):
    """the per-key part of the definition of IsAdj(f, r, n)"""
    return And(has(f, k) == has(r, k),
               Implies(And(named_known(r, n, k), isdict(get(n, k))), IsAdj(get(f, k), get(r, k), get(n, k))),
               Implies(And(named_known(r, n, k), Not(isdict(get(n, k)))), get(f, k) == get(n, k)),
               Implies(Not(named_known(r, n, k)), get(f, k) == get(r, k)))


def unfold_isadj(ctx, f, r, n):
    """definition of the predicate, direction  IsAdj => clauses  (used where the predicate is assumed)"""
    ctx.assume(Implies(IsAdj(f, r, n), isdict(f)))
    ctx.assume(ForallKey(lambda k: Implies(IsAdj(f, r, n), adj_key_clause(f, r, n, k)), name='ua'))


def unfold_compat(ctx, r, n):
    """definition of Compat(r, n), direction  Compat => clauses"""
    ctx.assume(Implies(Compat(r, n), And(isdict(r), isdict(n))))
    ctx.assume(ForallKey(lambda k: Implies(And(Compat(r, n), named_known(r, n, k)),
                                           And(isdict(get(n, k)) == isdict(get(r, k)),
                                               Implies(isdict(get(n, k)), Compat(get(r, k), get(n, k))))), name='uc'))


class DictParam(Spec):
    """a dictionary object with an arbitrary (symbolic) value"""

    def __init__(self, tag):
        self.tag = tag

    def make(self, name, ctx):
        v = z3.Const(self.tag + '0', PVal)
        ctx.assume(isdict(v))
        h = SPVal(v, name=self.tag)
        h.entry = v
        return h

    def describe(self):
        return 'dict (arbitrary nested parameter dictionary, tree-shaped)'


class LvlsParam(Spec):
    def __init__(self, none):
        self.none = none

    def make(self, name, ctx):
        if self.none:
            return None
        n = z3.Int('lvls_n')
        ctx.assume(n >= 0)
        return SList('str', n, z3.Array('lvls', z3.IntSort(), z3.StringSort()), None, 'str')

    def describe(self):
        return 'None' if self.none else 'list of str'


def _adj_requires(ref_dict, new_dict, lvls=None):
    r, n = ref_dict.val, new_dict.val
    ctx = smt.CURRENT_CTX
    if ctx.modular_site is None and not ctx.obligations and not getattr(ctx, '_compat_unfolded', False):
        ctx._compat_unfolded = True
        unfold_compat(ctx, r, n)          # own proof: the precondition is assumed, together with its definition
    return {'valid_assignment': Compat(r, n)}


def _adj_effect(ctx, ref_dict, new_dict, lvls=None):
    """modular use: the object handed in as ref_dict is updated in place; its new value is *some* f with IsAdj(f, old, new)"""
    r, n = ref_dict.val, new_dict.val
    ref_dict.entry = r
    f = smt.fresh('adjusted', PVal)
    ref_dict.set_value(ctx, f)
    unfold_isadj(ctx, f, r, n)


def _adj_result(name, ctx, ref_dict, new_dict, lvls=None):
    return ref_dict


def _adj_post(result, ref_dict, new_dict, lvls=None):
    r, n = ref_dict.entry, new_dict.val
    f = ref_dict.val
    if smt.CURRENT_CTX.modular_site is not None:
        # what call sites learn: the predicate (its unfolding was assumed by the effect)
        return {'returns_the_updated_object': result is ref_dict, 'adjusted': IsAdj(f, r, n)}
    return {'returns_the_updated_object': result is ref_dict,
            'the_assignment_dict_is_not_written': new_dict.writes == 0 and new_dict.val is new_dict.entry,
            'still_a_dict': isdict(f),
            # the definition of IsAdj(f, r, n), clause by clause, for every key
            'no_key_added_or_removed': ForallKey(lambda k: has(f, k) == has(r, k)),
            'named_nested_keys_adjusted_recursively': ForallKey(lambda k: Implies(And(named_known(r, n, k), isdict(get(n, k))),
                                                                                  IsAdj(get(f, k), get(r, k), get(n, k)))),
            'named_plain_keys_overridden': ForallKey(lambda k: Implies(And(named_known(r, n, k), Not(isdict(get(n, k)))), get(f, k) == get(n, k))),
            'other_keys_untouched': ForallKey(lambda k: Implies(Not(named_known(r, n, k)), get(f, k) == get(r, k)))}


def _processed(n, k, i):
    return And(has(n, k), idx(n, k) < i)


def _adj_inv(E, i):
    r, n = E.ref_dict.entry, E.new_dict.val
    f = E.ref_dict.val
    done = lambda k: And(_processed(n, k, i), has(r, k))
    return {'dict': isdict(f),
            'keys': ForallKey(lambda k: has(f, k) == has(r, k)),
            'nested': ForallKey(lambda k: Implies(And(done(k), isdict(get(n, k))), IsAdj(get(f, k), get(r, k), get(n, k)))),
            'plain': ForallKey(lambda k: Implies(And(done(k), Not(isdict(get(n, k)))), get(f, k) == get(n, k))),
            'rest': ForallKey(lambda k: Implies(Not(done(k)), get(f, k) == get(r, k)))}


def _adj_body(E, i):
    """one iteration (key number i of new_dict): an unknown key gives exactly one AmpycloudWarning and no write; a known key no
    warning at this level"""
    ctx = smt.CURRENT_CTX
    r, n = E.ref_dict.entry, E.new_dict.val
    k = key_at(n, i)
    warns = [e for e in ctx.effects if e[0] == 'WARN']
    known = has(r, k)
    out = {}
    if warns:
        out['warning_only_for_unknown_keys'] = Not(known)
        out['one_warning'] = len(warns) == 1
        out['warning_is_AmpycloudWarning'] = all(str(w[-1]).endswith('AmpycloudWarning') for w in warns)
        out['unknown_key_writes_nothing'] = len([w for w in ctx.ghost.get('dict_writes', []) if w[0] is E.ref_dict]) == 0
    else:
        out['silent_only_for_known_keys'] = known
    return out


def register(reg):
    dm.install()
    cases = [('lvls=None', {'ref_dict': DictParam('ref'), 'new_dict': DictParam('new'), 'lvls': LvlsParam(True)}),
             ('lvls=list', {'ref_dict': DictParam('ref'), 'new_dict': DictParam('new'), 'lvls': LvlsParam(False)})]
    reg.add(Contract(
        'ampycloud.utils.utils.adjust_nested_dict', properties=('C12', 'C11'),
        cases=cases,
        requires=_adj_requires,
        modular_effect=_adj_effect,
        result=_adj_result,
        ensures=_adj_post,
        raises={},
        decreases=lambda ref_dict, new_dict, lvls=None: depth(new_dict.val),
        loops={0: {'invariant': _adj_inv, 'modifies': ['ref_dict', 'lvls', 'key', 'item'],
                   'body_obligations': _adj_body}},
        local_models={'lvls': lambda: SList('str', z3.IntVal(0), z3.K(z3.IntSort(), z3.StringVal('')), None, 'str')},
        canaries={'never_changes_anything': lambda result, ref_dict, new_dict, lvls=None: ForallKey(lambda k: get(ref_dict.val, k) == get(ref_dict.entry, k)),
                  'overrides_unknown_keys_too': lambda result, ref_dict, new_dict, lvls=None: ForallKey(
                      lambda k: Implies(And(has(new_dict.val, k), Not(isdict(get(new_dict.val, k)))), get(ref_dict.val, k) == get(new_dict.val, k)))},
        notes='dictionaries are tree-shaped (A-TREE) and finite; valid assignment = Compat(ref, new)'))
    register_more(reg)
    register_setprms(reg)


# =============================================================================================
# CeiloChunk._setup_prms: the snapshot = deep copy of the global, adjusted by the per-call dictionary
# =============================================================================================
GLOBAL = 'ampycloud.dynamic.AMPYCLOUD_PRMS'
Defaults = z3.Const('packaged_defaults', PVal)          # the content of the packaged YAML file


class NoneParam(Spec):
    def make(self, name, ctx):
        return None

    def describe(self):
        return 'None'


def _setup_post(result, self, prms):
    ctx = smt.CURRENT_CTX
    G = ctx.ghost['globals'][GLOBAL]
    G0 = ctx.ghost['globals_at_entry'][GLOBAL]
    out = {'is_a_parameter_dict': isinstance(result, SPVal),
           'fresh_object': (result is not G0) and (result is not prms),
           'global_not_rebound': G is G0 and not ctx.ghost.get('global_rebinds'),
           'global_value_untouched': G0.val is G0.entry,
           'snapshot_not_linked_to_the_global': isinstance(result, SPVal) and result.parent is None}
    if prms is None:
        out['copy_of_the_global'] = result.val is G0.entry
    else:
        out['global_adjusted_by_the_per_call_values'] = IsAdj(result.val, G0.entry, prms.val)
        out['per_call_dict_untouched'] = prms.val is prms.entry
    return out


def _setup_requires(self, prms):
    ctx = smt.CURRENT_CTX
    if prms is None:
        return {}
    G = ctx.ghost['globals'][GLOBAL]
    if not getattr(ctx, '_compat_unfolded', False):
        ctx._compat_unfolded = True
    return {'valid_assignment': Compat(G.val, prms.val)}


# =============================================================================================
# core.reset_prms: all, one name, a list of names
# =============================================================================================
Named = z3.Function('Named', z3.IntSort(), dm.K, z3.BoolSort())      # Named(i, k): k occurs among the first i names handed in


def _defaults_result(name, ctx):
    h = SPVal(Defaults, name='defaults')         # a new object on every call (fresh YAML load), always the packaged content
    ctx.ghost.setdefault('default_objects', []).append(h)
    return h


class NamesParam(Spec):
    def make(self, name, ctx):
        n = z3.Int('names_n')
        ctx.assume(n >= 0)
        ctx.len_vars.append(n)
        arr = z3.Array('names', z3.IntSort(), z3.StringSort())
        # definition of Named by recursion over the prefix length
        ctx.assume(ForallKey(lambda k: Not(Named(0, k)), name='n0'))
        ctx.assume(Forall(0, n, lambda j: True, name='nn'))
        ctx.ghost['names'] = (n, arr)
        return SList('str', n, arr, None, 'str')

    def describe(self):
        return 'list of str (any length, repetitions allowed)'


class NameParam(Spec):
    def make(self, name, ctx):
        return SStr(z3.String('name'))

    def describe(self):
        return 'str'


def _named_step(ctx, i):
    n, arr = ctx.ghost['names']
    ctx.assume(ForallKey(lambda k: Named(i + 1, k) == Or(Named(i, k), arr[i] == k), name='ns'))
    return True


def _reset_inv(E, i):
    ctx = smt.CURRENT_CTX
    G = ctx.ghost['globals'][GLOBAL]
    G0 = ctx.ghost['globals_at_entry'][GLOBAL]
    n, arr = ctx.ghost['names']
    f, r = G.val, G0.entry
    return {'same_object': G is G0,
            'dict': isdict(f),
            'named_are_defaults': ForallKey(lambda k: Implies(Named(i, k), And(has(f, k), get(f, k) == get(Defaults, k)))),
            'others_untouched': ForallKey(lambda k: Implies(Not(Named(i, k)), And(has(f, k) == has(r, k), get(f, k) == get(r, k)))),
            'names_so_far_are_known': Forall(0, i, lambda j: has(Defaults, arr[j]))}


def _is_name(which):
    return isinstance(which, SStr) or (z3.is_expr(which) and which.sort() == z3.StringSort())


def _name_term(which):
    return which.t if isinstance(which, SStr) else which


def _reset_post(result, which):
    ctx = smt.CURRENT_CTX
    G = ctx.ghost['globals'][GLOBAL]
    G0 = ctx.ghost['globals_at_entry'][GLOBAL]
    fresh_defaults = ctx.ghost.get('default_objects', [])
    if which is None:
        return {'rebound_to_a_fresh_defaults_object': any(G is h for h in fresh_defaults) and G is not G0,
                'value_is_the_packaged_defaults': G.val is Defaults}
    f, r = G.val, G0.entry
    if _is_name(which):
        w = _name_term(which)
        return {'same_object': G is G0,
                'named_is_default': And(has(f, w), get(f, w) == get(Defaults, w)),
                'others_untouched': ForallKey(lambda k: Implies(k != w, And(has(f, k) == has(r, k), get(f, k) == get(r, k))))}
    n, arr = ctx.ghost['names']
    return {'same_object': G is G0,
            'named_are_defaults': ForallKey(lambda k: Implies(Named(n, k), And(has(f, k), get(f, k) == get(Defaults, k)))),
            'others_untouched': ForallKey(lambda k: Implies(Not(Named(n, k)), And(has(f, k) == has(r, k), get(f, k) == get(r, k))))}


def _reset_raises(which):
    if which is None:
        return False
    if _is_name(which):
        return Not(has(Defaults, _name_term(which)))
    n, arr = smt.CURRENT_CTX.ghost['names']
    return smt.Exists(0, n, lambda j: Not(has(Defaults, arr[j])))


def register_more(reg):
    reg.add(Contract(
        'ampycloud.dynamic.get_default_prms', properties=('C12',),
        result=_defaults_result,
        ensures=lambda result: {'packaged_content': result.val is Defaults, 'is_dict': isdict(Defaults)},
        notes=('ASSUMED at call sites (ruamel.yaml safe load of the packaged file): a new object tree on every call whose content is the '
               'packaged defaults; checked by the bounded stand-in of C12')))
    reg.add(Contract(
        'ampycloud.data.AbstractChunk._setup_prms', properties=('C12', 'C11', 'C13'),
        cases=[('prms=None', {'self': Custom(lambda name, ctx: Opaque('self'), 'chunk (unused)'), 'prms': NoneParam()}),
               ('prms=dict', {'self': Custom(lambda name, ctx: Opaque('self'), 'chunk (unused)'), 'prms': DictParam('prms')})],
        globals_spec={GLOBAL: DictParam('global')},
        requires=_setup_requires,
        ensures=_setup_post,
        raises={},
        canaries={'always_the_global_itself': lambda result, self, prms: result.val is smt.CURRENT_CTX.ghost['globals_at_entry'][GLOBAL].entry}))
    reg.add(Contract(
        'ampycloud.core.reset_prms', properties=('C12',),
        cases=[('which=None', {'which': NoneParam()}), ('which=str', {'which': NameParam()}), ('which=list', {'which': NamesParam()})],
        globals_spec={GLOBAL: DictParam('global')},
        raises={'AmpycloudError': _reset_raises},
        ensures=_reset_post,
        loops={0: {'invariant': _reset_inv, 'modifies': ['prm'], 'modifies_globals': [GLOBAL],
                   'assume_in_body': lambda E, i: [_named_step(smt.CURRENT_CTX, i)]}},
        canaries={'resets_everything': lambda result, which: ForallKey(
            lambda k: get(smt.CURRENT_CTX.ghost['globals'][GLOBAL].val, k) == get(Defaults, k))}))


# =============================================================================================
# core.set_prms: the YAML route = the same merge, applied to the global, with the content of the file
# =============================================================================================
from pyvc.values import Model, SBool, Unsupported
from pyvc.lib import LIB, LIB_DOC

FileContent = z3.Const('yaml_file_content', PVal)       # the nested dict the YAML file denotes


class SPath(Model):
    """pathlib.Path: ghost facts exists / is_file / suffix"""
    pytype = 'Path'

    def __init__(self, tag='pth'):
        self.exists = z3.Bool(f'{tag}_exists')
        self.is_file = z3.Bool(f'{tag}_is_file')
        self.suffix = z3.String(f'{tag}_suffix')

    def m_exists(self, ctx):
        return SBool(self.exists)

    def m_is_file(self, ctx):
        return SBool(self.is_file)

    def a_suffix(self, ctx):
        return SStr(self.suffix)


class SYaml(Model):
    pytype = 'YAML'

    def m_load(self, ctx, pth):
        if not isinstance(pth, SPath):
            raise Unsupported('YAML.load of this value')
        ctx.assume(isdict(FileContent))
        h = SPVal(FileContent, name='user_prms')
        h.entry = FileContent
        ctx.ghost.setdefault('yaml_loads', []).append((pth, h))
        return h


def _path_ctor(interp, args, kwargs):
    (x,) = args
    if isinstance(x, SPath):
        return x
    if isinstance(x, (SStr, str)):
        p = SPath('pth')
        interp.ctx.ghost['path_of_str'] = p
        return p
    raise Unsupported('Path(...) of this value')


def _yaml_ctor(interp, args, kwargs):
    if args or kwargs != {'typ': 'safe'}:
        raise Unsupported('YAML(...) options')
    return SYaml()


LIB['pathlib.Path'] = _path_ctor
LIB_DOC['pathlib.Path'] = 'Path(str): a path object; exists() / is_file() / suffix are facts about the file system (ghost values)'
LIB['ruamel.yaml.YAML'] = _yaml_ctor
LIB_DOC['ruamel.yaml.YAML'] = "YAML(typ='safe').load(path): the nested dict the file denotes, as a new object tree (A-TREE)"


class PathParam(Spec):
    def __init__(self, kind):
        self.kind = kind

    def make(self, name, ctx):
        if self.kind == 'str':
            return SStr(z3.String('pth_str'))
        if self.kind == 'path':
            return SPath('pth')
        return 42          # neither a str nor a Path

    def describe(self):
        return {'str': 'str', 'path': 'pathlib.Path', 'other': 'an int'}[self.kind]


def _the_path(pth):
    ctx = smt.CURRENT_CTX
    return pth if isinstance(pth, SPath) else ctx.ghost.get('path_of_str') or SPath('pth')


def _setprms_raises(pth):
    if not (isinstance(pth, (SPath, SStr)) or (z3.is_expr(pth) and pth.sort() == z3.StringSort())):
        return True
    p = _the_path(pth)
    return Or(Not(p.exists), Not(p.is_file))


def _setprms_requires(pth):
    ctx = smt.CURRENT_CTX
    G = ctx.ghost['globals'][GLOBAL]
    if not getattr(ctx, '_compat_unfolded2', False):
        ctx._compat_unfolded2 = True
        unfold_compat(ctx, G.val, FileContent)
    return {'valid_assignment_in_the_file': Compat(G.val, FileContent)}


def _setprms_post(result, pth):
    ctx = smt.CURRENT_CTX
    G = ctx.ghost['globals'][GLOBAL]
    G0 = ctx.ghost['globals_at_entry'][GLOBAL]
    p = _the_path(pth)
    warns = [e for e in ctx.effects if e[0] == 'WARN']
    return {
        # the YAML route is the same merge as the other routes, applied to the global in place
        'global_adjusted_by_the_file_content': IsAdj(G.val, G0.entry, FileContent),
        'global_is_still_the_same_object': G is G0,
        'one_file_read': len(ctx.ghost.get('yaml_loads', [])) == 1 and ctx.ghost['yaml_loads'][0][0] is p,
        'suffix_warning_only': (len(warns) <= 1) and all(str(w[-1]).endswith('AmpycloudWarning') for w in warns),
        'warns_iff_suffix_is_not_yml': (p.suffix != z3.StringVal('.yml')) if warns else (p.suffix == z3.StringVal('.yml'))}


# ---- IsAdj determines its first argument (up to content): the three routes give the same snapshot ------------------------------
Equiv = z3.Function('Equiv', PVal, PVal, z3.BoolSort())     # same content: both plain and equal, or both dicts with equivalent entries


def _merge_function_step():
    """structural induction over the assignment n (finite trees, A-TREE): if f1 and f2 are both `r adjusted by n`, they have the same
    content.  Induction hypothesis: the statement for the nested dictionaries of n."""
    f1, f2, r, n = (smt.fresh(x, PVal) for x in ('f1', 'f2', 'r', 'n'))
    k = smt.fresh('k', dm.K)
    hy = [IsAdj(f1, r, n), IsAdj(f2, r, n),
          isdict(f1), isdict(f2), adj_key_clause(f1, r, n, k), adj_key_clause(f2, r, n, k),        # unfolding of the two hypotheses at k
          # induction hypothesis at the children under k
          Implies(And(IsAdj(get(f1, k), get(r, k), get(n, k)), IsAdj(get(f2, k), get(r, k), get(n, k))), Equiv(get(f1, k), get(f2, k))),
          # Equiv is reflexive (definition of Equiv, by the same induction)
          Equiv(get(n, k), get(n, k)), Equiv(get(r, k), get(r, k))]
    # goal: the clause of the definition of Equiv(f1, f2) at the arbitrary key k
    goal = And(has(f1, k) == has(f2, k), Equiv(get(f1, k), get(f2, k)))
    return hy, goal


def register_setprms(reg):
    from pyvc.contracts import Lemma
    reg.add_lemma(Lemma('prop.C12.merge_is_a_function', step=_merge_function_step, properties=('C12',),
                        doc=('IsAdj(f1, r, n) and IsAdj(f2, r, n) imply that f1 and f2 have the same content (key by key; structural induction '
                             'over n): per-call dict, edited global and YAML file with the same effective values give the same snapshot')))
    reg.add(Contract(
        'ampycloud.core.set_prms', properties=('C12',),
        cases=[('pth=str', {'pth': PathParam('str')}), ('pth=Path', {'pth': PathParam('path')}), ('pth=other', {'pth': PathParam('other')})],
        globals_spec={GLOBAL: DictParam('global')},
        requires=_setprms_requires,
        raises={'AmpycloudError': _setprms_raises},
        ensures=_setprms_post,
        canaries={'global_untouched': lambda result, pth: ForallKey(lambda k: get(smt.CURRENT_CTX.ghost['globals'][GLOBAL].val, k) ==
                                                                   get(smt.CURRENT_CTX.ghost['globals_at_entry'][GLOBAL].entry, k))},
        notes='file system and YAML parser are ghost values (A-LIB); the content of the file is an arbitrary valid assignment'))
