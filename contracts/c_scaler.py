"""Contracts for ampycloud.scaler (C19)."""
import z3
from pyvc import smt
from pyvc.contracts import Contract, Int, Float, Str, Const, Spec
from pyvc.lib import ArrOf, SArr
from pyvc.smt import And, Or, Not, Implies, Iff, If, Forall, Exists, lift, Sequent
from pyvc.values import SFloat
from .spec import ln, _rv, _isnan


def _fresh_like(vals, name):
    a = smt.fresh(name, z3.ArraySort(z3.IntSort(), z3.RealSort()))
    an = smt.fresh(name + '_nan', z3.ArraySort(z3.IntSort(), z3.BoolSort()))
    return SArr(vals.n, lambda i: SFloat(a[i], an[i], 'npfloat'), 'float')


def _nonnan(a, i):
    return Not(_isnan(a[i]))


def _nanmax_of(vals):
    """spec-level nanmax(vals) (the same ghost value the library model of np.nanmax returns)"""
    from pyvc.lib import nan_reduce
    return nan_reduce(smt.CURRENT_CTX, 'max', vals)


def _sas_post(result, vals, shift, scale, mode):
    sc = _rv(scale)
    if shift is None:
        mx = _nanmax_of(vals)
        sh = mx.v
        extra = {'default_shift_is_nanmax': And(Forall(0, ln(vals), lambda i: Implies(And(Not(mx.nan), _nonnan(vals, i)), _rv(vals[i]) <= sh)),
                                                 Implies(Not(mx.nan), Exists(0, ln(vals), lambda i: And(_nonnan(vals, i), _rv(vals[i]) == sh))))}
    else:
        sh, extra = _rv(shift), {}
    if mode == 'do':
        body = lambda i: And(_isnan(result[i]) == Or(_isnan(vals[i]), (False if shift is not None else _nanmax_of(vals).nan)),
                             Implies(Not(_isnan(result[i])), _rv(result[i]) == (_rv(vals[i]) - sh) / sc))
    else:
        body = lambda i: And(_isnan(result[i]) == Or(_isnan(vals[i]), (False if shift is not None else _nanmax_of(vals).nan)),
                             Implies(Not(_isnan(result[i])), _rv(result[i]) == _rv(vals[i]) * sc + sh))
    out = {'len': ln(result) == ln(vals), 'elementwise': Forall(0, ln(vals), body)}
    out.update(extra)
    return out


def _mm_post(result, vals, min_val, max_val, mode):
    lo, hi = _rv(min_val), _rv(max_val)
    if mode == 'do':
        body = lambda i: And(_isnan(result[i]) == _isnan(vals[i]), Implies(Not(_isnan(vals[i])), _rv(result[i]) == (_rv(vals[i]) - lo) / (hi - lo)))
    else:
        body = lambda i: And(_isnan(result[i]) == _isnan(vals[i]), Implies(Not(_isnan(vals[i])), _rv(result[i]) == _rv(vals[i]) * (hi - lo) + lo))
    return {'len': ln(result) == ln(vals), 'elementwise': Forall(0, ln(vals), body)}


def _red_of(vals, kind):
    from pyvc.lib import nan_reduce
    return nan_reduce(smt.CURRENT_CTX, kind, vals)


def _exact_when_large(vals, lo_v, hi_v, mr):
    mn, mx = _red_of(vals, 'min'), _red_of(vals, 'max')
    return Implies(mx.v - mn.v >= mr, And(lo_v == mn.v, hi_v == mx.v))


def _mr_post(result, vals, min_range):
    lo, hi = result
    lo_v, hi_v = _rv(lo), _rv(hi)
    mr = _rv(min_range)
    return {
        # the returned interval contains all the (non-NaN) data ...
        'contains_data': Forall(0, ln(vals), lambda i: Implies(_nonnan(vals, i), And(lo_v <= _rv(vals[i]), _rv(vals[i]) <= hi_v))),
        # ... has at least the minimum range ...
        'honours_min_range': hi_v - lo_v >= mr,
        # ... and is the data range itself when that is large enough
        'exact_when_large': _exact_when_large(vals, lo_v, hi_v, mr),
        'finite': And(Not(_isnan(lo)), Not(_isnan(hi))),
    }


def register(reg):
    arr = ArrOf('float')
    reg.add(Contract(
        'ampycloud.scaler.shift_and_scale', properties=('C19',),
        cases=[(f'{m},shift={"given" if s else "None"}', {'vals': arr, 'shift': (Float(nan=False) if s else Const(None)),
                                                          'scale': Float(nan=False), 'mode': Const(m)})
               for m in ('do', 'undo') for s in (True, False)] + [('bad-mode', {'vals': arr, 'shift': Float(nan=False), 'scale': Float(nan=False), 'mode': Const('x')})],
        requires=lambda vals, shift, scale, mode: {'scale_positive': _rv(scale) > 0},
        result=lambda name, ctx, vals, **kw: _fresh_like(vals, 'sas'),
        native_call=lambda vals, shift, scale, mode: __import__('ampycloud').scaler.shift_and_scale(vals, shift=shift, scale=scale, mode=mode),
        raises={'AmpycloudError': lambda vals, shift, scale, mode: mode not in ('do', 'undo')},
        ensures=_sas_post,
        canaries={'ignores_shift': lambda result, vals, shift, scale, mode: Forall(0, ln(vals), lambda i: Implies(Not(_isnan(result[i])), _rv(result[i]) == _rv(vals[i]) / _rv(scale)))},
    ))
    reg.add(Contract(
        'ampycloud.scaler.minmax_scale', properties=('C19',),
        cases=[(m, {'vals': arr, 'min_val': Float(nan=False), 'max_val': Float(nan=False), 'mode': Const(m)}) for m in ('do', 'undo', 'x')],
        requires=lambda vals, min_val, max_val, mode: {'span_positive': _rv(max_val) - _rv(min_val) >= z3.Q(1, 1000000)},
        result=lambda name, ctx, vals, **kw: _fresh_like(vals, 'mm'),
        native_call=lambda vals, min_val, max_val, mode: __import__('ampycloud').scaler.minmax_scale(vals, min_val=min_val, max_val=max_val, mode=mode),
        raises={'AmpycloudError': lambda vals, min_val, max_val, mode: mode not in ('do', 'undo')},
        ensures=_mm_post,
        canaries={'identity': lambda result, vals, min_val, max_val, mode: Forall(0, ln(vals), lambda i: Implies(Not(_isnan(vals[i])), _rv(result[i]) == _rv(vals[i])))},
    ))
    reg.add(Contract(
        'ampycloud.scaler.minrange2minmax', properties=('C19',),
        params={'vals': arr, 'min_range': Float(nan=False, lo=0)},
        result=lambda name, ctx, vals, min_range=0: (SFloat(smt.fresh_real('mr_lo'), smt.fresh_bool('mr_lo_nan'), 'npfloat'),
                                                     SFloat(smt.fresh_real('mr_hi'), smt.fresh_bool('mr_hi_nan'), 'npfloat')),
        requires=lambda vals, min_range: {'some_value': Exists(0, ln(vals), lambda i: _nonnan(vals, i))},
        native_call=lambda vals, min_range: __import__('ampycloud').scaler.minrange2minmax(vals, min_range),
        ensures=_mr_post,
        canaries={'always_data_range': lambda result, vals, min_range: Exists(0, ln(vals), lambda i: And(_nonnan(vals, i), _rv(vals[i]) == _rv(result[0])))},
    ))
    register2(reg)
    register3(reg)
    register_step(reg)
    _step_lemmas(reg)


# ---- convert_kwargs / apply_scaling -----------------------------------------------------------------
from pyvc.contracts import DictOf


def _ck_post(result, vals, fct, kwargs):
    """derived ("deterministic") keywords: what the user gave is kept; a missing shift is nanmax(vals) in 'do' mode; a missing
    (min_val, max_val) pair is minrange2minmax(vals, min_range) and min_range is consumed"""
    out = {}
    if not isinstance(result, dict):
        return {'returns_dict': False}
    if fct == 'shift-and-scale':
        out['keeps_user_keys'] = all(k in result for k in kwargs)
        if 'shift' in kwargs:
            out['shift_untouched'] = result['shift'] is kwargs['shift'] or _rv(result['shift']) == _rv(kwargs['shift'])
        else:
            mx = _red_of(vals, 'max')
            out['shift_is_nanmax'] = ('shift' in result) and And(_rv(result['shift']) == mx.v, _isnan(result['shift']) == mx.nan)
    elif fct == 'minmax-scale':
        if 'min_val' in kwargs and 'max_val' in kwargs:
            out['untouched'] = set(result) == set(kwargs)
        else:
            out['has_bounds'] = 'min_val' in result and 'max_val' in result and 'min_range' not in result
            if out['has_bounds']:
                mr = _rv(kwargs['min_range']) if 'min_range' in kwargs else 0
                lo_v, hi_v = _rv(result['min_val']), _rv(result['max_val'])
                out['bounds_contain_data'] = Forall(0, ln(vals), lambda i: Implies(_nonnan(vals, i), And(lo_v <= _rv(vals[i]), _rv(vals[i]) <= hi_v)))
                out['bounds_honour_min_range'] = hi_v - lo_v >= mr
    elif fct == 'step-scale':
        out['untouched'] = set(result) == set(kwargs)
    return out


def _ck_result(name, ctx, vals, fct, kwargs):
    """modular result of convert_kwargs: the user's keywords plus the derived ones (fresh values constrained by the post)"""
    out = dict(kwargs)
    if fct == 'shift-and-scale' and 'shift' not in out:
        out['shift'] = SFloat(smt.fresh_real('ck_shift'), smt.fresh_bool('ck_shift_nan'), 'npfloat')
    if fct == 'minmax-scale' and not ('min_val' in out and 'max_val' in out):
        out.pop('min_range', None)
        out['min_val'] = SFloat(smt.fresh_real('ck_lo'), False, 'npfloat')
        out['max_val'] = SFloat(smt.fresh_real('ck_hi'), False, 'npfloat')
    return out


def _ck_raises(vals, fct, kwargs):
    if fct not in ('shift-and-scale', 'minmax-scale', 'step-scale'):
        return True
    mode = kwargs.get('mode')
    if fct == 'shift-and-scale' and 'shift' not in kwargs and mode is not None and mode != 'do':
        return True
    if fct == 'minmax-scale' and not ('min_val' in kwargs and 'max_val' in kwargs) and mode is not None and mode != 'do':
        return True
    return False


def register2(reg):
    arr = ArrOf('float')
    F_ = lambda: Float(nan=False)
    cases = []
    for fct, shapes in {
        'shift-and-scale': [{'scale': F_()}, {'scale': F_(), 'mode': 'do'}, {'scale': F_(), 'shift': F_()}, {'scale': F_(), 'mode': 'undo'},
                            {'scale': F_(), 'shift': F_(), 'mode': 'undo'}, {'scale': F_(), 'mode': 'bogus'}],
        'minmax-scale': [{}, {'min_range': Float(nan=False, lo=0)}, {'min_val': F_(), 'max_val': F_()}, {'mode': 'do', 'min_range': Float(nan=False, lo=0)},
                         {'mode': 'undo'}, {'mode': 'undo', 'min_val': F_(), 'max_val': F_()}, {'mode': 'bogus'}],
        'step-scale': [{'steps': [1.0], 'scales': [1.0, 2.0]}],
        'nonsense': [{}],
    }.items():
        for sh in shapes:
            cases.append((f'{fct}:{",".join(f"{k}={v}" if isinstance(v, str) else k for k, v in sh.items())}',
                          {'vals': arr, 'fct': Const(fct), 'kwargs': DictOf(sh)}))
    reg.add(Contract(
        'ampycloud.scaler.convert_kwargs', properties=('C19',),
        cases=cases,
        requires=lambda vals, fct, kwargs: {'some_value': Exists(0, ln(vals), lambda i: _nonnan(vals, i))},
        raises={'AmpycloudError': _ck_raises},
        result=_ck_result,
        ensures=_ck_post,
    ))


def _as_post(result, vals, fct, kwargs):
    n = ln(vals)
    allnan = Forall(0, n, lambda i: _isnan(vals[i]))
    if fct is None:
        return {'passthrough': result is vals}
    if result is vals:
        # returned the input untouched: only when everything is NaN
        return {'passthrough_only_if_all_nan': allnan}
    out = {'len': ln(result) == n,
           # NaN entries stay NaN, the others stay numbers
           'nan_blind': Forall(0, n, lambda i: _isnan(result[i]) == _isnan(vals[i]))}
    mode = kwargs.get('mode', 'do')
    if fct == 'shift-and-scale':
        sc = _rv(kwargs['scale'])
        sh = _rv(kwargs['shift']) if 'shift' in kwargs else _nanmax_of(vals).v
        if mode == 'do':
            out['values'] = Forall(0, n, lambda i: Implies(_nonnan(vals, i), _rv(result[i]) == (_rv(vals[i]) - sh) / sc))
        else:
            out['values'] = Forall(0, n, lambda i: Implies(_nonnan(vals, i), _rv(result[i]) == _rv(vals[i]) * sc + sh))
    elif fct == 'step-scale':
        f = step_do if mode == 'do' else step_undo
        out['values'] = Forall(0, n, lambda i: Implies(_nonnan(vals, i), _rv(result[i]) == f(_rv(vals[i]), kwargs['steps'], kwargs['scales'])))
    elif fct == 'minmax-scale' and mode == 'do' and not ('min_val' in kwargs and 'max_val' in kwargs):
        # derived interval contains the data and honours min_range: image inside [0, 1] (lemma prop.C19.mm.minrange)
        out['into_unit_interval'] = Forall(0, n, lambda i: Implies(_nonnan(vals, i), And(_rv(result[i]) >= 0, _rv(result[i]) <= 1)))
    return out


def _as_raises(vals, fct, kwargs):
    if fct is None:
        return False
    # refused exactly when convert_kwargs (or the step scaling itself) refuses -- unless everything is NaN (passthrough comes first)
    some = Exists(0, ln(vals), lambda i: _nonnan(vals, i))
    if fct == 'step-scale' and not _ck_raises(vals, fct, kwargs):
        r = _ss_raises(vals, kwargs['steps'], kwargs['scales'], kwargs.get('mode', 'do'))
        return False if r is False else (some if r is True else Exists(0, ln(vals), lambda i: And(_nonnan(vals, i), r)))
    return some if _ck_raises(vals, fct, kwargs) else False


def register3(reg):
    arr = ArrOf('float')
    F_ = lambda: Float(nan=False, lo=z3.Q(1, 1000000))
    G_ = lambda: Float(nan=False)
    cases = [('None', {'vals': arr, 'fct': Const(None), 'kwargs': DictOf({})})]
    for fct, shapes in {
        'shift-and-scale': [{'scale': F_()}, {'scale': F_(), 'mode': 'do'}, {'scale': F_(), 'shift': G_()}, {'scale': F_(), 'shift': G_(), 'mode': 'undo'},
                            {'scale': F_(), 'mode': 'undo'}],
        'minmax-scale': [{'min_range': F_()}, {'mode': 'do', 'min_range': F_()}, {'mode': 'undo'}],
        'step-scale': [{'steps': FloatList(2, 'steps'), 'scales': FloatList(3, 'scales', lo=0)},
                       {'steps': FloatList(1, 'steps'), 'scales': FloatList(2, 'scales', lo=0), 'mode': 'undo'}],
        'nonsense': [{}],
    }.items():
        for sh in shapes:
            cases.append((f'{fct}:{",".join(f"{k}={v}" if isinstance(v, str) else k for k, v in sh.items())}',
                          {'vals': arr, 'fct': Const(fct), 'kwargs': DictOf(sh)}))
    reg.add(Contract(
        'ampycloud.scaler.apply_scaling', properties=('C19',),
        cases=cases,
        raises={'AmpycloudError': _as_raises},
        ensures=_as_post,
    ))


# ---- step_scale ---------------------------------------------------------------------------------------
# The property's own quantifier bounds the step lists: "sorted step lists of length 0..4 with positive scales".  Each length
# is one case with symbolic step / scale values; the value array has symbolic length.

MAX_STEPS = 4


class FloatList(Spec):
    """Python list of k floats (k concrete), symbolic values"""

    def __init__(self, k, prefix, lo=None):
        self.k, self.prefix, self.lo = k, prefix, lo

    def make(self, name, ctx):
        out, ts = [], []
        for j in range(self.k):
            t = z3.Real(f'{self.prefix}_{j}')
            if self.lo is not None:
                ctx.assume(t > self.lo)
            out.append(SFloat(t, False, 'float'))
            ts.append(t)
        ctx.extractors[name] = (lambda m, ts=ts: [smt.z3val_to_py(m.eval(t, model_completion=True)) for t in ts])
        return out

    def sample(self, rng):
        if self.prefix == 'scales':
            return [rng.choice([1.0, 2.0, 10.0, 100.0, 500.0, 0.5, rng.uniform(0.1, 1000)]) for _ in range(self.k)]
        xs = sorted(rng.choice([0.0, 10.0, 50.0, 8000.0, 14000.0, rng.uniform(-10, 100), rng.uniform(0, 20000)]) for _ in range(self.k))
        if rng.random() < 0.15 and len(xs) > 1:
            xs.reverse()
        return xs

    def describe(self):
        return f'list of {self.k} floats'


def _lower(steps, s):
    return 0 if s == 0 else _rv(steps[s - 1])


def _cum(steps, scales, s):
    """scaled position of the lower edge of bin s: the widths of the bins below it, each divided by its own scale (bin 0 is
    measured from 0)"""
    c = 0
    for j in range(s):
        c = c + (_rv(steps[j]) - _lower(steps, j)) / _rv(scales[j])
    return c


def step_do(v, steps, scales):
    """spec (from the docstring): a value in bin s -- steps[s-1] <= v < steps[s], open-ended below / above -- is measured from
    the lower edge of its bin, divided by scales[s], and shifted so that the scaled bins join without gap or overlap"""
    L = len(steps)
    out = None
    for s in range(L, -1, -1):
        val = (v - _lower(steps, s)) / _rv(scales[s]) + _cum(steps, scales, s)
        out = val if out is None else z3.If(v < _rv(steps[s]), val, out)
    return out


def step_undo(w, steps, scales):
    L = len(steps)
    out = None
    for s in range(L, -1, -1):
        val = (w - _cum(steps, scales, s)) * _rv(scales[s]) + _lower(steps, s)
        out = val if out is None else z3.If(w < _cum(steps, scales, s + 1), val, out)
    return out


def _ss_pre(vals, steps, scales, mode):
    return {'scales_positive': And(*[_rv(x) > 0 for x in scales]) if scales else True}


def _ss_raises(vals, steps, scales, mode):
    if len(steps) != len(scales) - 1:
        return True
    if mode not in ('do', 'undo'):
        return True
    return Or(*[_rv(steps[j + 1]) < _rv(steps[j]) for j in range(len(steps) - 1)]) if len(steps) > 1 else False


def _ss_post(result, vals, steps, scales, mode):
    n = ln(vals)
    f = step_do if mode == 'do' else step_undo
    val = lambda i: f(_rv(vals[i]), steps, scales)
    mn = lambda: None
    inv_min = None          # 1 / (largest scale) and 1 / (smallest scale) bound the slope of every bin
    out = {'len': ln(result) == n,
           'nan_blind': Forall(0, n, lambda i: _isnan(result[i]) == _isnan(vals[i])),
           'values': Forall(0, n, lambda i: Implies(_nonnan(vals, i), _rv(result[i]) == val(i))),
           }
    # order-preserving: two values are never reversed (distinct values stay distinct).  Proved from the element-wise
    # characterisation (cut) and the lemma "the spec function is strictly increasing" instantiated at the two values
    sorted_steps = And(*[_rv(steps[j]) <= _rv(steps[j + 1]) for j in range(len(steps) - 1)]) if len(steps) > 1 else True
    pos = And(*[_rv(x) > 0 for x in scales])
    lname = f'prop.C19.step.{mode}.mono.L{len(steps)}'

    def mono_at(i, k):
        a, b = _rv(vals[i]), _rv(vals[k])
        return And(Implies(And(pos, sorted_steps, a < b), f(a, steps, scales) < f(b, steps, scales)),
                   Implies(And(pos, sorted_steps, b < a), f(b, steps, scales) < f(a, steps, scales)))
    out['order_preserving'] = Sequent(
        [Forall(0, n, lambda i: Implies(_nonnan(vals, i), _rv(result[i]) == val(i))), sorted_steps, pos, smt.LemmaInst(lname, mono_at)],
        Forall(0, n, lambda i, k: Implies(And(_nonnan(vals, i), _nonnan(vals, k)), And(
            Implies(_rv(vals[i]) < _rv(vals[k]), _rv(result[i]) < _rv(result[k])),
            Implies(_rv(vals[k]) < _rv(vals[i]), _rv(result[k]) < _rv(result[i])),
            Implies(_rv(vals[i]) == _rv(vals[k]), _rv(result[i]) == _rv(result[k])))), arity=2),
        isolate=True)
    return out


def register_step(reg):
    arr = ArrOf('float')
    cases = []
    for L in range(0, MAX_STEPS + 1):
        for m in ('do', 'undo'):
            cases.append((f'L={L},{m}', {'vals': arr, 'steps': FloatList(L, 'steps'), 'scales': FloatList(L + 1, 'scales'), 'mode': Const(m)}))
    cases.append(('bad-mode', {'vals': arr, 'steps': FloatList(1, 'steps'), 'scales': FloatList(2, 'scales'), 'mode': Const('x')}))
    cases.append(('length-mismatch', {'vals': arr, 'steps': FloatList(2, 'steps'), 'scales': FloatList(2, 'scales'), 'mode': Const('do')}))
    reg.add(Contract(
        'ampycloud.scaler.step_scale', properties=('C19',),
        cases=cases,
        requires=_ss_pre,
        result=lambda name, ctx, vals, **kw: _fresh_like(vals, 'ss'),
        raises={'AmpycloudError': _ss_raises},
        native_call=lambda vals, steps, scales, mode: __import__('ampycloud').scaler.step_scale(vals, steps, scales, mode=mode),
        ensures=_ss_post,
        canaries={'identity': lambda result, vals, steps, scales, mode: Forall(0, ln(vals), lambda i: Implies(_nonnan(vals, i), _rv(result[i]) == _rv(vals[i])))},
    ))


def _step_lemmas(reg):
    from pyvc.contracts import Lemma

    def mk(L, mode, what):
        def make():
            steps = [SFloat(smt.fresh_real(f'st{j}'), False) for j in range(L)]
            scales = [SFloat(smt.fresh_real(f'sc{j}'), False) for j in range(L + 1)]
            a, b = smt.fresh_real('a'), smt.fresh_real('b')
            hy = [_rv(x) > 0 for x in scales] + [_rv(steps[j]) <= _rv(steps[j + 1]) for j in range(L - 1)]
            f = step_do if mode == 'do' else step_undo
            if what == 'mono':
                return hy + [a < b], f(a, steps, scales) < f(b, steps, scales)
            if what == 'inverse':          # undoing the scaling restores the value (and the other way round)
                g = step_undo if mode == 'do' else step_do
                return hy, g(f(a, steps, scales), steps, scales) == a
            if what == 'edges':
                # continuity across the steps: at every step edge the affine piece of the bin below reaches exactly the value of
                # the bin above (no gap, no overlap); inside a bin the function is affine, hence continuous
                if mode == 'do':
                    return hy, And(*[(_rv(steps[s]) - _lower(steps, s)) / _rv(scales[s]) + _cum(steps, scales, s) == f(_rv(steps[s]), steps, scales)
                                     for s in range(L)]) if L else z3.BoolVal(True)
                return hy, And(*[(_cum(steps, scales, s + 1) - _cum(steps, scales, s)) * _rv(scales[s]) + _lower(steps, s) ==
                                 f(_cum(steps, scales, s + 1), steps, scales) for s in range(L)]) if L else z3.BoolVal(True)
            raise ValueError(what)
        return make
    for L in range(0, MAX_STEPS + 1):
        for mode in ('do', 'undo'):
            reg.add_lemma(Lemma(f'prop.C19.step.{mode}.mono.L{L}', direct=mk(L, mode, 'mono'), properties=('C19',),
                                doc=f'step-scale spec function ({mode}, {L} steps) is strictly increasing'))
            reg.add_lemma(Lemma(f'prop.C19.step.{mode}.inverse.L{L}', direct=mk(L, mode, 'inverse'), properties=('C19',),
                                doc=f'step-scale ({L} steps): the opposite mode applied to the {mode} result restores the value'))
            reg.add_lemma(Lemma(f'prop.C19.step.{mode}.continuous.L{L}', direct=mk(L, mode, 'edges'), properties=('C19',),
                                doc=f'step-scale spec function ({mode}, {L} steps) has no jump at any step edge (left piece meets the right value)'))
