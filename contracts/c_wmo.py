"""Contracts for ampycloud.wmo (property C18; used by C01-C04)."""
import z3
from pyvc.contracts import Contract, ListOf, Int, Float, Str, Bool, Const
from pyvc.lib import ArrOf
from pyvc.smt import And, Or, Not, Implies, Iff, If, Forall, Exists, lift
from .spec import abbr, hcode, hnum, fmt03, p2o, ln, _rv, _isnan, abbrF, hcodeF
from pyvc.smt import Sequent, is_sym

PYINT = ('int', 'bool')     # isinstance(x, int) holds exactly for these tags


def _okta2code_raises(val, _ty):
    if _ty['val'] not in PYINT:
        return True
    v = If(val, 1, 0) if _ty['val'] == 'bool' else val
    return Or(v < 0, v > 9)


def _abbr_any(v):
    """abbreviation of okta v: opaque abbrF on symbolic values (definition revealed only where the text matters)"""
    return abbrF(v) if is_sym(v) else abbr(v)


def _okta2code_post(result, val, _ty):
    v = If(val, 1, 0) if _ty['val'] == 'bool' else val
    # 9 -> None ("nothing"), else the abbreviation
    if result is None:
        return {'none_only_for_9': v == 9}
    if is_sym(v):
        return {'abbr': Sequent([abbrF(v) == abbr(v)], And(v != 9, result == abbrF(v)))}
    return {'abbr': And(v != 9, result == abbr(v))}


def _hcode_any(val):
    """height code: opaque hcodeF on symbolic values"""
    if is_sym(_rv(val)) or is_sym(_isnan(val)):
        return hcodeF(lift(_isnan(val)), lift(_rv(val), z3.RealSort()))
    return hcode(val)


def _height2code_post(result, val):
    if is_sym(_rv(val)) or is_sym(_isnan(val)):
        return {'code': Sequent([_hcode_any(val) == hcode(val)], result == _hcode_any(val))}
    return {'code': result == hcode(val)}


def _okta2code_result(name, ctx, val):
    """modular use: None for 9, else the abbreviation (the raise condition was already excluded by the caller's path)"""
    from pyvc.values import SStr, to_int_term
    v = to_int_term(val)
    if ctx.branch(v == 9):
        return None
    return SStr(abbrF(v))


def _perc2okta_result(name, ctx, val):
    from pyvc.lib import SArr
    from pyvc.values import SInt
    from pyvc.smt import fresh
    if isinstance(val, SArr):
        arr = fresh('p2o_res', z3.ArraySort(z3.IntSort(), z3.IntSort()))
        return SArr(val.n, lambda i: SInt(arr[i], 'npint'), 'int')
    r = fresh('p2o_res', z3.IntSort())
    return SArr(1, lambda i: SInt(r, 'npint'), 'int')


def _in_range(x):
    return And(Not(_isnan(x)), _rv(x) >= 0, _rv(x) <= 100)


def register(reg):
    reg.add(Contract(
        'ampycloud.wmo.okta2code',
        properties=('C18', 'C01', 'C03'),
        cases=[('int', {'val': Int()}), ('bool', {'val': Bool()}), ('float', {'val': Float()}),
               ('npint', {'val': Int(ty='npint')}), ('str', {'val': Str()}), ('None', {'val': Const(None)})],
        raises={'AmpycloudError': _okta2code_raises},
        ensures=_okta2code_post,
        result=_okta2code_result,
        canaries={'always_few': lambda result, val: (result == 'FEW') if result is not None else False},
        native_call=lambda val: __import__('ampycloud').wmo.okta2code(val),
    ))

    reg.add(Contract(
        'ampycloud.wmo.height2code',
        properties=('C18', 'C04', 'C01'),
        cases=[('float', {'val': Float(nan=True)}), ('npfloat', {'val': Float(nan=True, ty='npfloat')}),
               ('int', {'val': Int()})],
        result=Str(),
        ensures=_height2code_post,
        canaries={'round_instead_of_floor': lambda result, val: Implies(
            And(Not(_isnan(val)), _rv(val) >= 0, _rv(val) <= 10000),
            result == fmt03(If(lift(_rv(val), z3.RealSort()) / 100 - z3.ToReal(z3.ToInt(lift(_rv(val), z3.RealSort()) / 100)) < 0.5,
                               z3.ToInt(lift(_rv(val), z3.RealSort()) / 100), z3.ToInt(lift(_rv(val), z3.RealSort()) / 100) + 1)))},
        native_call=lambda val: __import__('ampycloud').wmo.height2code(val),
    ))

    reg.add(Contract(
        'ampycloud.wmo.perc2okta',
        properties=('C18', 'C03'),
        cases=[('float', {'val': Float(nan=True)}), ('int', {'val': Int()}), ('array', {'val': ArrOf('float')})],
        result=_perc2okta_result,
        raises={'AmpycloudError': lambda val, _ty: (
            Exists(0, ln(val), lambda j: Not(_in_range(val[j]))) if _ty['val'] == 'ndarray' else Not(_in_range(val)))},
        ensures=lambda result, val, _ty: (
            {'len': ln(result) == ln(val),
             'p2o': Forall(0, ln(val), lambda j: result[j] == p2o(val[j]))} if _ty['val'] == 'ndarray' else
            {'len': ln(result) == 1, 'p2o': result[0] == p2o(val)}),
        canaries={'plain_round': lambda result, val, _ty: (
            Forall(0, ln(val), lambda j: result[j] == z3.ToInt(_rv(val[j]) * 8 / 100 + 0.5)) if _ty['val'] == 'ndarray'
            else result[0] == z3.ToInt(lift(_rv(val), z3.RealSort()) * 8 / 100 + 0.5))},
        native_call=lambda val: __import__('ampycloud').wmo.perc2okta(val),
    ))
