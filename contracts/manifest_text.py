"""Texts for MANIFEST.json (kept next to the property specs so they stay in step)."""
TEXT = {
    'C17': dict(
        text=('Unbounded proof: icao.significant_cloud is symbolically executed from its real AST for okta lists of arbitrary '
              'symbolic length; the loop is cut by an inductive invariant; the postcondition is the 1-3-5 rule at every position and one '
              'flag per layer; prefix independence is a lemma by induction. All obligations must be discharged by z3 on every run.  A bounded '
              'native companion (all sequences up to length 4 / 6 against an independent statement of the rule) supplies failing inputs.'),
        design_ref='DESIGN.md section 4 (C17)',
        note=('Trusted: pyvc VC generator (cross-checked against CPython on seeded inputs every run, canaries must be refuted), z3; '
              'okta values are ints; Python list semantics of += and count as modelled.'),
        technique='contract-based deductive verification: loop invariant + postcondition VCs from the real AST, z3'),
    'C18': dict(
        text=('Proof under floats-as-reals: the three WMO conversions are symbolically executed from their real ASTs over all entry '
              'types; results are proved equal to spec functions taken from the property text; the (n, m), monotonicity, floor and '
              'three-digit statements are lemmas over those spec functions discharged by z3.  A bounded native companion (all n/m up to '
              'm = 400 / 3000 in exact arithmetic, integers -12..12, boundary neighbours of the height code) supplies failing inputs.'),
        design_ref='DESIGN.md section 4 (C18)',
        note=('Trusted: pyvc, z3, assumed contracts of np.floor/ceil/round/isnan/all/full_like/array and masked assignment; machine floats '
              'treated as reals + NaN (A-REAL) except two standard-model rounding lemmas (A-FP).'),
        technique='contract-based deductive verification: path-wise VCs from the real AST + spec-function lemmas, z3'),
}
TEXT['C01'] = dict(
    text=('Unbounded proof over all tables satisfying the table invariant: metar_msg is symbolically executed from its real AST (all '
          'three levels, MSA None or real, table missing); grammar, 1-3-5 thresholds of the groups, height order, no zero-okta group and '
          'no group at/above the MSA are postconditions discharged by z3; the functions that establish the invariant pieces '
          '(significant_cloud, okta2code, height2code) and the table itself (metarize and its four helpers) are verified in the same check.  '
          'A bounded native companion compares the message of real runs with an independent reading of the listed sets.'),
    design_ref='DESIGN.md section 4 (C01)',
    note=('Trusted: pyvc, z3 (strings/regex), assumed pandas contracts for column access, bool-Series product, comparison, mask '
          'filtering, to_list, any, str.join; floats as reals; TI assumed at entry of metar_msg and proved as the postcondition of metarize; '
          'n_<which> / _get_cluster_ids assumed at call sites.'),
    technique='contract-based deductive verification: postconditions over a table invariant, VCs from the real AST, z3')
TEXT['C02'] = dict(
    text=('Unbounded proof: message characterisation postconditions of metar_msg (from its real AST) plus inductive lemmas over the '
          'table invariant that turn them into the property statements about okta (lowest layer first, ceiling kept, NCD/NSC exact); the '
          'meaning of the high-cloud flag is the postcondition of _cleanup_pdf, verified in the same check.  Bounded native companion as C01.'),
    design_ref='DESIGN.md section 4 (C02)',
    note='Trusted: as C01; the induction principle over table rows (base + step obligations) is the meta-rule of the lemma objects.',
    technique='contract-based deductive verification: postconditions + inductive lemmas over contracts, z3')
TEXT['C03'] = dict(
    text=('Okta rule, percentage, Python-int okta, code prefix and monotonicity are proved for all (count, total, buffer) values by '
          'symbolic execution of the real _calculate_cloud_amount / metarize / perc2okta / okta2code and lemmas over the spec function; '
          'the clause that the count is the number of distinct (ceilometer, time) measurements rests on the library meaning of one pinned '
          'numpy/pandas expression and is only checked by a bounded recount on a scene grammar (labelled bounded).'),
    design_ref='DESIGN.md section 4 (C03)',
    note='Trusted: pyvc, z3, pandas cell-access / sort / astype contracts, the pinned counting expression (bounded stand-in), floats as reals.',
    technique='contract-based deductive verification (loop invariant over table rows, z3) + bounded run-time contract for the counting clause')
_FT = 'contract-based deductive verification: frame contracts checked against modular effect summaries of the real ASTs'
TEXT['C11'] = dict(
    text=('All-inputs frame proof: write / alias effects of every function involved are inferred from the real ASTs function by function '
          '(callee summaries at call sites) and must stay inside the frame contracts: caller frame, caller dictionary and module-level '
          'objects are never written and the parameter snapshot shares no object with the global set; the same for the parameter merge '
          'as full-mode postconditions (adjust_nested_dict writes only its first argument, _setup_prms returns a fresh unlinked object).'),
    design_ref='DESIGN.md section 4 (C11)', note='Trusted: the effect analysis (A-FRAME) and its library effect table (A-LIBPURE); a native bounded run accompanies it.',
    technique=_FT)
TEXT['C12'] = dict(
    text=('Unbounded proof (tree dialect: parameter values as finite maps over string keys, arbitrary nesting) that adjust_nested_dict '
          'overrides exactly the named known keys, recursively, adds no key and warns once per unknown key; that the chunk snapshot is '
          'the global adjusted by the per-call values in a fresh object; that reset_prms restores exactly the packaged values of all / the '
          'named parameters whatever the global held; that set_prms applies the same merge to the global with the content of the file; lemma: '
          'the merge determines its result, so the three routes give equal snapshots.  Frame proof that every processing step reads parameters only through the chunk '
          'snapshot and that set_prms goes through the same merge.  Equality of whole runs through the three routes is checked by a bounded native '
          'run (labelled bounded).'),
    design_ref='DESIGN.md section 4 (C12)', note='Trusted: A-FRAME, A-TREE (dictionaries are finite trees; deepcopy / YAML load return independent trees), ruamel.yaml; bounded part never counted as proved.',
    technique='contract-based deductive verification: recursive contract over a map model of nested dicts (z3, key universals instantiated per path) + frame contracts + bounded run-time check of the route equivalence')
TEXT['C13'] = dict(
    text=('Frame proof of the premises of non-interference (disjoint footprints of operations on distinct chunks, no module-level mutable '
          'state on the processing path); interleavings at stage granularity then commute.  Thread pre-emption inside a stage is outside the '
          'technique and only explored by a bounded run.'),
    design_ref='DESIGN.md section 4 (C13)', note='Trusted: A-FRAME, A-LIBTS; schedules are not modelled.',
    technique=_FT + ' (premises of non-interference) + bounded interleaving / thread run')
TEXT['C09'] = dict(
    text=('tmp_seed proved to restore the generator on both exits (symbolic execution of the real generator body with a ghost state); '
          'frame proof that the processing path never touches the generator, clock or hash/id and that every mixture model is seeded with '
          'the integer parameter; bit-identity of the libraries is an assumption checked by digests (bounded).'),
    design_ref='DESIGN.md section 4 (C09)', note='Trusted: ghost model of np.random.get_state/seed/set_state, A-FRAME, A-DET.',
    technique='contract-based deductive verification: ghost-state postconditions (z3) + frame contracts over effect summaries')
TEXT['C20'] = dict(
    text=('Frame proof that plotting never writes the chunk or module state and changes rcParams only inside restoring style contexts; '
          'totality of matplotlib, figure closing and file set are explored by a bounded run only.'),
    design_ref='DESIGN.md section 4 (C20)', note='Trusted: A-FRAME, matplotlib style-context contract; bounded part never counted as proved.',
    technique=_FT + ' + bounded run over scenes x plot options')
TEXT['C07'] = dict(
    text=('Unbounded proof of the per-row effect of the MSA cropping and of the high-cloud flag by symbolic execution of the real '
          '_cleanup_pdf over frames with a symbolic number of rows and arbitrary index labels; the two relational clauses are lemmas over '
          'that postcondition; a bounded native run of both relations accompanies it.'),
    design_ref='DESIGN.md section 4 (C07)',
    note='Trusted: pyvc row dialect (assumed pandas contracts for masks, .index, .loc[labels]=, drop, reset_index), z3, A-FRAME for the dependency of the tables on (_data, _prms).',
    technique='contract-based deductive verification: per-row postcondition in a row dialect + relational lemmas, z3')
TEXT['C19'] = dict(
    text=('Proof under floats-as-reals for all scaling modes: shift-and-scale, min-max (incl. the derived interval), step scaling (step '
          'lists of the lengths 0..4 of the property\'s quantifier, symbolic step / scale values) and the umbrella routines, by symbolic '
          'execution of the real code over value arrays of symbolic length plus arithmetic lemmas (order, inverse, [0,1] image, '
          'continuity at the step edges); a bounded native run of all modes accompanies it.'),
    design_ref='DESIGN.md section 4 (C19)',
    note='Trusted: pyvc element-wise numpy dialect, assumed contracts of np.nanmax / nanmin / isnan / all, z3 non-linear real arithmetic; A-REAL.',
    technique='contract-based deductive verification: element-wise postconditions against spec functions + arithmetic lemmas, z3')
_PB = 'contract-based deductive verification (full-mode contracts on the real ASTs, z3; frame contracts) + bounded run-time check for the clauses resting on library semantics'
for _pid, _t in {
    'C04': 'Percentile-of-the-look-back-tail, floor coding, table order and the per-set selection of member hits (ceilometer exclusion with its per-set fall-back; one base-routine call per table row, result stored in that row) are proved on the real code; the time ordering of the pinned pandas selection expression and the statistics / fluffiness are recomputed natively on a scene grammar (bounded).',
    'C05': 'Frame proof that no stage touches the hit columns, proof of the MSA cropping at construction, proof that find_slices gives exactly the valid hits a slice id (labels by the assumed clustering contract), lemma that generated layer ids cannot collide, block contract of the re-merge pass of ncomp_from_gmm (labels in range, count = distinct labels; mixture fit assumed); the same id clause for groups and layers is bounded.',
    'C06': 'Bin lookup, percentile routine, the shared base routine and the merge loop of _merge_close_groups (invariant: the too-close flags are those of the current table; termination; on exit adjacent groups are separated; every merge recomputes all bases through the shared routine) proved; helpers of the grouping / layering loops leave their arguments unmodified (frame obligations); the re-merge pass of ncomp_from_gmm is verified from the computation of the component bases on (block contract, mixture fit assumed): nothing re-merged => component bases at least min_sep apart; the mixture re-merge pass is outside the contracts and the reported separations are checked natively on targeted scenes (bounded).',
    'C08': 'Every raise is AmpycloudError (syntactic), every local is assigned before it is read (definite-assignment analysis of all functions), all partial operations in the functions under contract are proved safe; totality of third-party code and of the stage bodies is explored on valid scenes only (bounded).',
    'C10': 'MSA cropping proved for arbitrary index labels (true pandas label semantics), frame obligations on positional access and index normalisation; equality of outcomes under relabelling is bounded.',
    'C16': 'Syntactic flow proof that names are used as labels only; the relation between two renamed runs is checked natively (bounded).',
}.items():
    TEXT[_pid] = dict(text=_t, design_ref=f'DESIGN.md section 4 ({_pid})', note='Trusted: pyvc (A-PY, A-REAL, A-FRAME), library contracts in pyvc/lib.py; bounded parts never counted as proved.', technique=_PB)
TEXT['C14'] = dict(text=('Typestate protocol proved for call sequences of any length: each of the ten operations is executed (real AST, skeleton mode, '
                         'callees by typestate contract) from each typestate; refusals are exact and leave all ghost versions unchanged, completions '
                         'write only their own id column / table.  Content-level canonicity of repeated stages is explored on bounded call sequences.'),
                   design_ref='DESIGN.md section 4 (C14)', note='Trusted: skeleton abstraction (opaque pure values, A-LIBPURE), A-DET, A-PRMS; one listed known finding (isolation flags after re-slicing).',
                   technique='contract-based deductive verification: typestate contracts + ghost write-versions, path enumeration over the real ASTs; bounded run for contents')
TEXT['C15'] = dict(text=('Unbounded proof over abstract input frames (symbolic number of rows, uninterpreted cell values and per-column coercion functions): the '
                         'real check_data_consistency raises AmpycloudError exactly under the documented conditions evaluated on the coerced '
                         'required columns, else returns a fresh normalised frame and never writes its argument; idempotence on conforming frames.'),
                   design_ref='DESIGN.md section 4 (C15)', note='Trusted: skeleton abstraction, assumed pandas contracts of the input-frame dialect (conformance-checked by the bounded run), A-FRAME.',
                   technique='contract-based deductive verification: exact raise conditions and postconditions over an abstract input frame, z3')
NA = {}
