"""Texts for MANIFEST.json (kept next to the property specs so they stay in step)."""
TEXT = {
    'C17': dict(
        text=('Unbounded proof: icao.significant_cloud is symbolically executed from its real AST for okta lists of arbitrary '
              'symbolic length; the loop is cut by an inductive invariant; the postcondition is the 1-3-5 rule at every position and one '
              'flag per layer; prefix independence is a lemma by induction. All obligations must be discharged by z3 on every run.'),
        design_ref='DESIGN.md section 4 (C17)',
        note=('Trusted: pyvc VC generator (cross-checked against CPython on seeded inputs every run, canaries must be refuted), z3; '
              'okta values are ints; Python list semantics of += and count as modelled.'),
        technique='contract-based deductive verification: loop invariant + postcondition VCs from the real AST, z3'),
    'C18': dict(
        text=('Proof under floats-as-reals: the three WMO conversions are symbolically executed from their real ASTs over all entry '
              'types; results are proved equal to spec functions taken from the property text; the (n, m), monotonicity, floor and '
              'three-digit statements are lemmas over those spec functions discharged by z3.'),
        design_ref='DESIGN.md section 4 (C18)',
        note=('Trusted: pyvc, z3, assumed contracts of np.floor/ceil/round/isnan/all/full_like/array and masked assignment; machine floats '
              'treated as reals + NaN (A-REAL) except two standard-model rounding lemmas (A-FP).'),
        technique='contract-based deductive verification: path-wise VCs from the real AST + spec-function lemmas, z3'),
}
NA = {}
