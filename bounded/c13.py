"""B stand-in / witness builder for C13: interleaved stage sequences of 2-3 chunks and threaded runs vs isolated runs."""
import copy
import itertools
import random
import sys
import threading
import warnings

from .scenes import scene
from .util import digest_chunk, nested_prms, run_quiet

STAGES = ('find_slices', 'find_groups', 'find_layers')


def _isolated(df, prms):
    return digest_chunk(run_quiet(df, copy.deepcopy(prms)))


def check(k, seed):
    import ampycloud
    from ampycloud.data import CeiloChunk
    ampycloud.reset_prms()
    rng = random.Random(seed * 11 + k)
    nch = 2 if k % 2 == 0 else 3
    items = []
    for j in range(nch):
        df, desc = scene(3 * k + j, seed)
        items.append((df, nested_prms(5 * k + j, seed), desc))
    fails = []
    try:
        refs = [_isolated(df, p) for df, p, _ in items]
    except Exception as e:
        return [d for _, _, d in items], [p for _, p, _ in items], [], type(e).__name__
    # interleavings of the stage sequences (exhaustive for 2 chunks, sampled for 3)
    seqs = [[j] * 3 for j in range(nch)]
    flat = [j for s_ in seqs for j in s_]
    perms = sorted(set(itertools.permutations(flat))) if nch == 2 else None
    if perms is None:
        perms = []
        for _ in range(12):
            f2 = flat[:]
            rng.shuffle(f2)
            perms.append(tuple(f2))
    n_inter = 0
    for order in perms:
        with warnings.catch_warnings():
            warnings.simplefilter('ignore')
            chunks = [CeiloChunk(df, prms=copy.deepcopy(p)) for df, p, _ in items]
            pos = [0] * nch
            for j in order:
                getattr(chunks[j], STAGES[pos[j]])()
                pos[j] += 1
        n_inter += 1
        for j in range(nch):
            if digest_chunk(chunks[j]) != refs[j]:
                fails.append(f'interleaving {order}: chunk {j} differs from its isolated run')
                break
        if fails:
            break
    # threads with aggressive pre-emption
    old = sys.getswitchinterval()
    sys.setswitchinterval(1e-5)
    try:
        for rep in range(2):
            out = [None] * nch

            def work(j):
                try:
                    out[j] = digest_chunk(run_quiet(items[j][0], copy.deepcopy(items[j][1])))
                except Exception as e:      # noqa
                    out[j] = f'{type(e).__name__}: {e}'
            ths = [threading.Thread(target=work, args=(j,)) for j in range(nch)]
            for t in ths:
                t.start()
            for t in ths:
                t.join()
            for j in range(nch):
                if out[j] != refs[j]:
                    fails.append(f'threaded run {rep}: chunk {j} differs from its isolated run ({str(out[j])[:80]})')
    finally:
        sys.setswitchinterval(old)
    from ampycloud import dynamic
    if dynamic.AMPYCLOUD_PRMS != dynamic.get_default_prms():
        fails.append('global parameters polluted by per-call parameters')
    ampycloud.reset_prms()
    return [d for _, _, d in items], [p for _, p, _ in items], fails, None, n_inter


def _worker(a):
    r = check(*a)
    return r if len(r) == 5 else (*r, 0)


def bounded(run):
    from pyvc.runner import _pool_map
    n = 10 if run.tier == 'quick' else 150
    tasks = [(k, run.seed) for k in range(n)]
    res = _pool_map(_worker, tasks)
    failures, crashed, inter = [], 0, 0
    for (k, _), (desc, prms, fails, crash, ni) in zip(tasks, res):
        inter += ni
        if crash:
            crashed += 1
            continue
        for f in fails[:3]:
            failures.append({'obligation': 'bounded.C13.interference', 'scenes': desc, 'prms': prms, 'what': f,
                             'rerun': f'cd /verif && PYTHONPATH=${{PYVC_REPO_SRC:-/repo/src}}:/verif .venv312/bin/python -m bounded.c13 {k} {run.seed}'})
    return {'label': 'B (bounded, never counted as proved)',
            'bound': f'{n} groups of 2-3 chunks: all 20 stage interleavings for 2 chunks, 12 sampled for 3; 2 threaded runs each with switch interval 1e-5 s; seed {run.seed}',
            'groups': n, 'interleavings_run': inter, 'groups_crashing_in_pipeline (see C08)': crashed,
            'failures': failures[:5], 'n_failures': len(failures)}


if __name__ == '__main__':
    r = _worker((int(sys.argv[1]), int(sys.argv[2])))
    print(r[0], r[1], r[3], r[4])
    for f in r[2]:
        print('FAIL', f)
    sys.exit(1 if r[2] else 0)
