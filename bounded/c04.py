"""B stand-in / witness builder for C04: base = configured percentile of the look-back / exclusion selection of the time-ordered
member hits, inside [min, max]; statistics; fluffiness finite >= 0; code digits = floor; tables sorted by base."""
import math
import warnings

import numpy as np

from .scenes import scene, prms_variant
from .util import run_quiet


def expected_base(chunk, which, cid):
    data = chunk.data
    col = which[:-1] + '_id'
    mem = data[data[col] == cid]
    excl = chunk.prms['EXCLUDE_FOR_BASE_HEIGHT_CALC']
    sel = mem
    if excl != []:
        f = mem[~mem['ceilo'].isin(excl)]
        if len(f) > chunk.prms['MAX_HITS_OKTA0']:
            sel = f
    vals = sel.sort_values('dt', kind='stable')['height'].to_numpy()
    n = len(vals)
    k = int(n * chunk.prms['BASE_LVL_LOOKBACK_PERC'] / 100)
    tail = vals[-k:] if k > 0 else vals          # vals[-0:] is the whole array (pinned behaviour, DESIGN D9)
    # simultaneous hits: their mutual order is not fixed by the property -- it matters only if the look-back cut can fall between them
    order_free = (len(tail) == n) or not sel['dt'].duplicated().any()
    return float(np.percentile(tail, chunk.prms['BASE_LVL_HEIGHT_PERC'])), mem, order_free


def multi_hit_kept_ceilometer(k, seed):
    """an instrument on the exclusion list sees the deck at every step; the instrument that is kept sees it at a few steps only, with
    two or three hits per step: more kept *rows* than MAX_HITS_OKTA0, but not more kept *measurements*"""
    import random
    from .scenes import _df
    rng = random.Random(seed * 71 + k)
    nt = rng.choice([30, 40])
    rows = []
    steps = rng.sample(range(nt), rng.choice([1, 2]))
    for t in range(nt):
        rows.append(('B', -30.0 * t, 1000.0 + rng.uniform(-3, 3), 1))
        if t in steps:
            for ty in (1, 2, 3)[:rng.choice([2, 3])]:
                rows.append(('A', -30.0 * t - 5, 1040.0 + 10 * ty + rng.uniform(0, 3), ty))
        else:
            rows.append(('A', -30.0 * t - 5, np.nan, 0))
    return _df(rows), {'k': k, 'seed': seed, 'layout': 'multi_hit_kept_ceilometer', 'ceilos': ['A', 'B'], 'rows': len(rows)}


def check(k, seed):
    import random
    rng = random.Random(seed * 3 + k)
    if k % 8 == 5:
        df, desc = multi_hit_kept_ceilometer(k, seed)
        prms = {'EXCLUDE_FOR_BASE_HEIGHT_CALC': ['B'], 'MAX_HITS_OKTA0': 3}
    else:
        df, desc = scene(k, seed)
        prms = prms_variant(k, seed)
    prms['BASE_LVL_HEIGHT_PERC'] = rng.choice([0, 5, 50, 95, 100])
    prms['BASE_LVL_LOOKBACK_PERC'] = rng.choice([1, 30, 34, 50, 100]) if k % 8 != 5 else 100
    if k % 8 != 5 and len(desc['ceilos']) > 1 and rng.random() < 0.5:
        prms['EXCLUDE_FOR_BASE_HEIGHT_CALC'] = rng.sample(desc['ceilos'], rng.choice([1, len(desc['ceilos']) - 1]))
    fails = []
    try:
        chunk = run_quiet(df, prms)
    except Exception as e:
        return desc, prms, [], type(e).__name__
    # ties in dt: the time order of simultaneous hits is not determined by the property; skip the equality clause then
    for which in ('slices', 'groups', 'layers'):
        tab = getattr(chunk, which)
        if list(tab['height_base']) != sorted(tab['height_base']):
            fails.append(f'{which}: table not sorted by ascending base')
        for _, row in tab.iterrows():
            exp, mem, order_free = expected_base(chunk, which, row['cluster_id'])
            hs = mem['height'].to_numpy()
            ties = not order_free
            if not (np.nanmin(hs) - 1e-9 <= row['height_base'] <= np.nanmax(hs) + 1e-9):
                fails.append(f'{which} {row["cluster_id"]}: base {row["height_base"]} outside [{np.nanmin(hs)}, {np.nanmax(hs)}]')
            if not ties and abs(row['height_base'] - exp) > 1e-6:
                fails.append(f'{which} {row["cluster_id"]}: base {row["height_base"]} != percentile of the selection {exp}')
            for nm, fn in (('height_min', np.nanmin), ('height_max', np.nanmax), ('height_mean', np.nanmean)):
                if abs(row[nm] - fn(hs)) > 1e-6:
                    fails.append(f'{which} {row["cluster_id"]}: {nm} {row[nm]} != {fn(hs)}')
            if len(hs) > 1 and abs(row['height_std'] - np.nanstd(hs, ddof=1)) > 1e-6:
                fails.append(f'{which} {row["cluster_id"]}: height_std')
            if abs(row['thickness'] - (np.nanmax(hs) - np.nanmin(hs))) > 1e-6:
                fails.append(f'{which} {row["cluster_id"]}: thickness')
            if not (math.isfinite(row['fluffiness']) and row['fluffiness'] >= 0):
                fails.append(f'{which} {row["cluster_id"]}: fluffiness {row["fluffiness"]}')
            b = row['height_base']
            digits = str(row['code'])[3:]
            want = int(math.floor(b / 100)) if b <= 10000 else int(math.floor(b / 1000)) * 10
            if digits != f'{want:03}' or int(digits) * 100 > b:
                fails.append(f'{which} {row["cluster_id"]}: code {row["code"]} is not the floor of {b}')
    return desc, prms, fails, None


def _worker(a):
    return check(*a)


def lookback_sweep(nmax):
    """A-REAL / A-FP conformance: the proofs treat floats as reals, in which int(n * p / 100) is the exact floor of n*p/100.  Here the
    real calc_base_height is run for every (number of values n <= nmax, look-back percentage p in 1..100): with strictly increasing
    values and percentile 0 the result *is* the first value of the look-back tail, so it reveals the tail length."""
    import numpy as np
    from ampycloud.utils.utils import calc_base_height
    bad = []
    for n in range(1, nmax + 1):
        vals = np.arange(n, dtype=float)
        for p in range(1, 101):
            k = (n * p) // 100                      # exact integer arithmetic
            start = 0 if k == 0 else n - k          # vals[-0:] is the whole array
            got = calc_base_height(vals, p, 0)
            if got != float(start):
                bad.append((n, p, float(got), float(start)))
    return bad


def bounded(run):
    from pyvc.runner import _pool_map
    n = 72 if run.tier == 'quick' else 1500
    tasks = [(k, run.seed) for k in range(n)]
    res = _pool_map(_worker, tasks)
    failures, crashed, shapes = [], 0, set()
    for (k, _), (desc, prms, fails, crash) in zip(tasks, res):
        if crash:
            crashed += 1
            continue
        shapes.add((desc['layout'], prms['BASE_LVL_HEIGHT_PERC'], prms['BASE_LVL_LOOKBACK_PERC'], 'EXCLUDE_FOR_BASE_HEIGHT_CALC' in prms))
        for f in fails[:3]:
            failures.append({'obligation': 'bounded.C04.base_height', 'scene': desc, 'prms': prms, 'what': f,
                             'rerun': f'cd /verif && PYTHONPATH=${{PYVC_REPO_SRC:-/repo/src}}:/verif .venv312/bin/python -m bounded.c04 {k} {run.seed}'})
    nmax = 250 if run.tier == 'quick' else 1200
    sweep = lookback_sweep(nmax)
    for (nn, p, got, want) in sweep[:3]:
        failures.append({'obligation': 'bounded.C04.lookback_count', 'scene': {'values': nn, 'BASE_LVL_LOOKBACK_PERC': p}, 'prms': {},
                         'what': f'calc_base_height(arange({nn}), {p}, 0) = {got}: the look-back tail should start at value {want} (floor({nn}*{p}/100) most recent values)',
                         'rerun': f'cd /verif && PYTHONPATH=${{PYVC_REPO_SRC:-/repo/src}} .venv312/bin/python -c "import numpy as np; from ampycloud.utils.utils import calc_base_height as f; print(f(np.arange({nn}, dtype=float), {p}, 0))"'})
    return {'label': 'B (bounded, never counted as proved)', 'bound': f'{n} scenes x percentile x look-back x exclusion subsets, seed {run.seed}; look-back count for all (n <= {nmax}, percentage 1..100)',
            'lookback_pairs_checked': nmax * 100, 'lookback_pairs_wrong': len(sweep),
            'scenes': n, 'distinct_cases': len(shapes), 'scenes_crashing_in_pipeline (see C08)': crashed,
            'failures': failures[:6], 'n_failures': len(failures)}


if __name__ == '__main__':
    import sys
    desc, prms, fails, crash = check(int(sys.argv[1]), int(sys.argv[2]))
    print(desc, prms, crash)
    for f in fails:
        print('FAIL', f)
    sys.exit(1 if fails else 0)
