"""B stand-in / witness builder for C16: renaming the ceilometers (exclusion list mapped) changes nothing."""
import random

from .scenes import scene, prms_variant
from .util import digest_chunk, run_quiet


def digest_renamed(chunk, inv):
    c = chunk
    c.data['ceilo'] = c.data['ceilo'].map(lambda x: inv[str(x)]).astype(c.data['ceilo'].dtype)
    return digest_chunk(c)


def synchronised(k, seed):
    """2-3 ceilometers sampling at exactly the same times, each reading the layer at its own height"""
    from .scenes import _df
    rng = random.Random(seed * 39 + k)
    names = rng.choice([['A', 'B'], ['9', '10'], ['b', 'A', 'c']])
    n = rng.choice([21, 41, 33])          # odd: with a 50 % look-back the cut falls inside a group of simultaneous hits
    offs = {c: rng.choice([0, 100, 250]) * i for i, c in enumerate(names)}
    rows = []
    for t in range(n):
        for c in names:
            rows.append((c, -900 + 30 * t, 900 + offs[c] + rng.uniform(0, 90), 1))     # every hit its own height
    rng.shuffle(rows)
    return _df(rows), {'k': k, 'seed': seed, 'layout': 'synchronised_ceilometers', 'ceilos': names, 'rows': len(rows)}


def near_simultaneous(k, seed):
    """2-3 ceilometers reporting a few hundredths of a second apart on one deck: (time, name) pairs whose *texts* can run into
    each other when names are digit strings ('-30.5' + '12' == '-30.51' + '2')"""
    from .scenes import _df
    rng = random.Random(seed * 41 + k)
    names = rng.choice([['A', 'B'], ['x', 'y', 'z']])
    n = rng.choice([20, 40])
    rows = []
    for t in range(n):
        for j, c in enumerate(names):
            rows.append((c, -(30 * t + 0.5 + 0.01 * j), 1400 + rng.uniform(0, 60), 1))
    rng.shuffle(rows)
    return _df(rows), {'k': k, 'seed': seed, 'layout': 'near_simultaneous_ceilometers', 'ceilos': names, 'rows': len(rows)}


def check(k, seed):
    rng = random.Random(seed * 37 + k)
    if k % 3 == 1:
        df, desc = synchronised(k, seed)
    elif k % 6 == 2:
        df, desc = near_simultaneous(k, seed)
    else:
        df, desc = scene(3 * k + (6 if k % 2 else 0), seed)      # favour multi-ceilometer / coincident layouts
    names = sorted(set(map(str, df['ceilo'])))
    if len(names) < 2:
        df = df.copy()
        half = df.index[::2]
        df.loc[half, 'ceilo'] = names[0] + 'x'
        df = df.drop_duplicates()
        names = sorted(set(map(str, df['ceilo'])))
    prms = prms_variant(k, seed)
    prms['BASE_LVL_LOOKBACK_PERC'] = rng.choice([100, 50, 30, 34])
    if k % 3 == 1:
        # the look-back cut must fall inside a group of simultaneous hits, and the percentile must feel one swapped hit
        prms['BASE_LVL_LOOKBACK_PERC'] = 50
        prms.pop('EXCLUDE_FOR_BASE_HEIGHT_CALC', None)
        prms['BASE_LVL_HEIGHT_PERC'] = rng.choice([50, 0, 100, 37])
        prms.pop('MSA', None)
    if rng.random() < 0.5:
        prms['EXCLUDE_FOR_BASE_HEIGHT_CALC'] = [rng.choice(names)]
    fails = []
    try:
        ref = run_quiet(df, prms)
        ref_dig = digest_chunk(ref)
    except Exception as e:
        return desc, prms, [], type(e).__name__
    maps = []
    rev = dict(zip(names, reversed(names)))
    maps.append(('order-reversing', rev))
    weird = ['10', '9', 'Z', 'a', ' ', 'ceilometer-with-a-very-long-name', '09', 'A']
    maps.append(('string-sorting names', dict(zip(names, rng.sample(weird, len(names))))) if len(names) <= len(weird) else None)
    sh = names[:]
    rng.shuffle(sh)
    maps.append(('permutation', dict(zip(names, sh))))
    digits = ['12', '2', '1', '21', '121', '0', '00', '5']
    if len(names) <= len(digits):
        maps.append(('digit strings that extend each other', dict(zip(names, digits[:len(names)]))))
    # the empty string is a legal name too (falsy: truth tests on names are not label uses); give it to an excluded ceilometer
    tgt = (prms.get('EXCLUDE_FOR_BASE_HEIGHT_CALC') or names)[0]
    if '' not in names:
        maps.append(('empty name', {n: ('' if n == tgt else n) for n in names}))
    for item in maps:
        if item is None:
            continue
        nm, mp = item
        d2 = df.copy()
        d2['ceilo'] = d2['ceilo'].map(lambda x: mp[str(x)]).astype(df['ceilo'].dtype)
        p2 = dict(prms)
        if 'EXCLUDE_FOR_BASE_HEIGHT_CALC' in p2:
            p2['EXCLUDE_FOR_BASE_HEIGHT_CALC'] = [mp[x] for x in p2['EXCLUDE_FOR_BASE_HEIGHT_CALC']]
        try:
            c = run_quiet(d2, p2)
        except Exception as e:
            fails.append(f'{nm} {mp}: {type(e).__name__}')
            continue
        inv = {v: k2 for k2, v in mp.items()}
        if digest_renamed(c, inv) != ref_dig:
            fails.append(f'{nm} {mp}: outcome differs (message {c.metar_msg()} vs {ref.metar_msg()})')
    return desc, prms, fails, None


def _worker(a):
    return check(*a)


def bounded(run):
    from pyvc.runner import _pool_map
    n = 48 if run.tier == 'quick' else 900
    tasks = [(k, run.seed) for k in range(n)]
    res = _pool_map(_worker, tasks)
    failures, crashed, shapes = [], 0, set()
    for (k, _), (desc, prms, fails, crash) in zip(tasks, res):
        if crash:
            crashed += 1
            continue
        shapes.add((desc['layout'], len(desc['ceilos']), prms['BASE_LVL_LOOKBACK_PERC']))
        for f in fails[:3]:
            failures.append({'obligation': 'bounded.C16.renaming', 'scene': desc, 'prms': prms, 'what': f,
                             'rerun': f'cd /verif && PYTHONPATH=${{PYVC_REPO_SRC:-/repo/src}}:/verif .venv312/bin/python -m bounded.c16 {k} {run.seed}'})
    return {'label': 'B (bounded, never counted as proved)', 'bound': f'{n} scenes x 4 bijective renamings x look-back x exclusion lists, seed {run.seed}',
            'scenes': n, 'distinct_cases': len(shapes), 'scenes_crashing_in_pipeline (see C08)': crashed,
            'failures': failures[:5], 'n_failures': len(failures)}


if __name__ == '__main__':
    import sys
    desc, prms, fails, crash = check(int(sys.argv[1]), int(sys.argv[2]))
    print(desc, prms, crash)
    for f in fails:
        print('FAIL', f)
    sys.exit(1 if fails else 0)
