"""B stand-in for the counting clause of C03 (assumed library meaning of the np.unique / mask idiom):
run the real pipeline on scenes and recount distinct (ceilo, dt) measurements with Python sets."""
import warnings
from fractions import Fraction

from contracts.spec import okta_of, abbr
from .scenes import scene, prms_variant


def check_scene(k, seed):
    import ampycloud
    from ampycloud.errors import AmpycloudError
    df, desc = scene(k, seed)
    prms = prms_variant(k, seed)
    fails = []
    with warnings.catch_warnings():
        warnings.simplefilter('ignore')
        try:
            chunk = ampycloud.run(df, prms=prms)
        except Exception as e:   # crashes are C08's business
            return desc, prms, [], f'{type(e).__name__}'
    data = chunk.data
    total = len({(c, t) for c, t in zip(data['ceilo'], data['dt'])})
    if chunk.max_hits_per_layer != total:
        fails.append(f'max_hits_per_layer {chunk.max_hits_per_layer} != distinct (ceilo, dt) {total}')
    max0, max8 = chunk.prms['MAX_HITS_OKTA0'], chunk.prms['MAX_HOLES_OKTA8']
    for which in ('slices', 'groups', 'layers'):
        tab = getattr(chunk, which)
        col = which[:-1] + '_id'
        for _, row in tab.iterrows():
            mem = data[data[col] == row['cluster_id']]
            n = len({(c, t) for c, t in zip(mem['ceilo'], mem['dt'])})
            if int(row['n_hits']) != n:
                fails.append(f'{which} id {row["cluster_id"]}: n_hits {row["n_hits"]} != distinct measurements {n}')
            if abs(float(row['perc']) - 100.0 * n / total) > 1e-9:
                fails.append(f'{which} id {row["cluster_id"]}: perc {row["perc"]} != {100.0 * n / total}')
            exp = okta_of(n, total, max0, max8)
            if int(row['okta']) != exp:
                fails.append(f'{which} id {row["cluster_id"]}: okta {row["okta"]} != {exp} for {n}/{total}')
            if not str(row['code']).startswith(abbr(int(row['okta']))):
                fails.append(f'{which} id {row["cluster_id"]}: code {row["code"]} prefix != {abbr(int(row["okta"]))}')
    return desc, prms, fails, None


def bounded(run):
    n = 60 if run.tier == 'quick' else 1500
    from pyvc.runner import _pool_map
    res = _pool_map(_worker, [(k, run.seed) for k in range(n)])
    failures, nontrivial, crashed = [], set(), 0
    for (k, _), (desc, prms, fails, crash) in zip([(k, run.seed) for k in range(n)], res):
        if crash:
            crashed += 1
            continue
        nontrivial.add((desc['layout'], len(desc['ceilos']), desc['rows']))
        for f in fails[:3]:
            failures.append({'obligation': 'bounded.C03.counting', 'scene': desc, 'prms': prms, 'what': f,
                             'rerun': f'cd /verif && PYTHONPATH=/verif:${{PYVC_REPO_SRC:-/repo/src}} .venv312/bin/python -m bounded.c03 {k} {run.seed}'})
    return {'label': 'B (bounded, never counted as proved)', 'bound': f'{n} scenes of the scene grammar (bounded/scenes.py), seed {run.seed}',
            'scenes': n, 'distinct_scene_shapes': len(nontrivial), 'scenes_crashing_in_pipeline (see C08)': crashed,
            'clause': 'n_hits / perc / okta / code prefix / max_hits_per_layer recounted with Python sets on the real pipeline output',
            'failures': failures[:5], 'n_failures': len(failures)}


def _worker(a):
    return check_scene(*a)


if __name__ == '__main__':
    import sys
    desc, prms, fails, crash = check_scene(int(sys.argv[1]), int(sys.argv[2]))
    print(desc, prms, crash)
    for f in fails:
        print('FAIL', f)
    sys.exit(1 if fails else 0)
