"""Bounded stand-ins (label B): run-time twins of contracts evaluated on an enumerated scene grammar.
Never counted as proved; every evidence file states the bound."""
