"""B stand-in for C20: diagnostic plots of processed chunks at every upto level: nothing raised, chunk untouched, rcParams restored,
no figure left open, exactly the requested files written.  (matplotlib's own totality is outside the deductive part.)"""
import os
import tempfile
import warnings

from .scenes import scene, prms_variant
from .util import digest_chunk, run_quiet


def check(k, seed):
    import logging
    logging.getLogger('matplotlib').setLevel(logging.ERROR)
    logging.getLogger('matplotlib.font_manager').setLevel(logging.ERROR)
    import matplotlib
    matplotlib.use('Agg')
    import matplotlib.pyplot as plt
    from ampycloud.plots import diagnostic
    df, desc = scene(k, seed)
    prms = prms_variant(k, seed)
    fails = []
    try:
        chunk = run_quiet(df, prms)
    except Exception as e:
        return desc, prms, [], type(e).__name__
    d0 = digest_chunk(chunk)
    plt.close('all')
    uptos = ['raw_data', 'slices', 'groups', 'layers']
    combos = [(u, sc) for u in uptos for sc in (False, True)]
    if k % 4:
        # a rotating subset per scene keeps the quick tier quick; the raw-data panel (which draws every hit type) is always included
        combos = [('raw_data', False), ('raw_data', True)] + [c for c in combos[(k % 4)::3] if c[0] != 'raw_data']
    # file stems as users write them: plain, with dots (dates, times, versions), with a trailing dot-less extension-like tail
    stems = ['plot', 'LSZH_2024.03.15_12.50', 'diag_v2.1', 'run.A', 'plot']
    for ci, (upto, show_ceilos) in enumerate(combos):
        rc0 = dict(matplotlib.rcParams)
        # every format matplotlib can write here (the raster ones other than png go through Pillow)
        fmts = [['png'], ['png', 'pdf'], ['png', 'jpg'], ['svg', 'eps'], ['tiff'], ['pdf', 'webp']][(k + ci) % 6] if k % 3 else (['png'] if k % 2 else ['png', 'pdf'])
        base = stems[(k + ci) % len(stems)]
        with tempfile.TemporaryDirectory() as td:
            stem = os.path.join(td, base)
            try:
                with warnings.catch_warnings():
                    warnings.simplefilter('ignore')
                    diagnostic(chunk, upto=upto, show_ceilos=show_ceilos, show=False, save_stem=stem, save_fmts=fmts,
                               ref_metar_origin=[None, 'x', 'Human observer', None][k % 4], ref_metar=[None, 'FEW010', None, 'BKN020 OVC030='][k % 4])
            except Exception as e:
                fails.append(f"diagnostic(upto='{upto}', show_ceilos={show_ceilos}) raised {type(e).__name__}: {str(e)[:120]}")
                plt.close('all')
                continue
            files = sorted(os.listdir(td))
            if files != sorted(f'{base}.{f}' for f in fmts):
                fails.append(f"files written {files} != requested {sorted(f'{base}.{f}' for f in fmts)} (save_stem='{base}')")
        if plt.get_fignums():
            fails.append(f"figure left open after diagnostic(upto='{upto}', show=False)")
            plt.close('all')
        if dict(matplotlib.rcParams) != rc0:
            fails.append(f"rcParams changed by diagnostic(upto='{upto}')")
        if digest_chunk(chunk) != d0:
            fails.append(f"chunk changed by diagnostic(upto='{upto}', show_ceilos={show_ceilos})")
            d0 = digest_chunk(chunk)
    return desc, prms, fails, None


def _worker(a):
    return check(*a)


def bounded(run):
    from pyvc.runner import _pool_map
    n = 36 if run.tier == 'quick' else 360
    tasks = [(k, run.seed) for k in range(n)]
    res = _pool_map(_worker, tasks)
    failures, crashed, shapes = [], 0, set()
    for (k, _), (desc, prms, fails, crash) in zip(tasks, res):
        if crash:
            crashed += 1
            continue
        shapes.add((desc['layout'], len(desc['ceilos'])))
        for f in fails[:3]:
            failures.append({'obligation': 'bounded.C20.plot', 'scene': desc, 'prms': prms, 'what': f,
                             'rerun': f'cd /verif && PYTHONPATH=${{PYVC_REPO_SRC:-/repo/src}}:/verif .venv312/bin/python -m bounded.c20 {k} {run.seed}'})
    return {'label': 'B (bounded, never counted as proved)', 'bound': f'{n} scenes x upto levels x show_ceilos x save formats, seed {run.seed}',
            'scenes': n, 'distinct_scene_shapes': len(shapes), 'scenes_crashing_in_pipeline (see C08)': crashed,
            'failures': failures[:5], 'n_failures': len(failures)}


if __name__ == '__main__':
    import sys
    desc, prms, fails, crash = check(int(sys.argv[1]), int(sys.argv[2]))
    print(desc, prms, crash)
    for f in fails:
        print('FAIL', f)
    sys.exit(1 if fails else 0)
