"""B stand-in / witness builder for C18: the three WMO conversions against independent statements, exhaustively on the (n, m) /
integer / grid domains the property names."""
import math
import warnings
from fractions import Fraction

import numpy as np


def okta_ref(n, m):
    if n == 0:
        return 0
    if n == m:
        return 8
    x = Fraction(8 * n, m)
    r = math.floor(x + Fraction(1, 2))
    if x + Fraction(1, 2) == r and r % 2 == 1:        # exact tie: round half to even (np.round)
        r -= 1
    return min(7, max(1, r))


CODES = {0: 'NCD', 1: 'FEW', 2: 'FEW', 3: 'SCT', 4: 'SCT', 5: 'BKN', 6: 'BKN', 7: 'BKN', 8: 'OVC', 9: None}


def bounded(run):
    from ampycloud import wmo
    from ampycloud.errors import AmpycloudError
    failures, counts = [], {'perc2okta': 0, 'okta2code': 0, 'height2code': 0}

    def fail(what, scene):
        if len(failures) < 5:
            failures.append({'obligation': 'bounded.C18.conversions', 'scene': scene, 'prms': {}, 'what': what,
                             'rerun': 'cd /verif && ./check C18'})
    nbad = 0
    M = 400 if run.tier == 'quick' else 3000
    with warnings.catch_warnings():
        warnings.simplefilter('ignore')
        # a few large numbers of measurements in full (fractions come arbitrarily close to the half-okta edges only for large m), and
        # for very large m the neighbours of every edge
        big = [1003, 1999, 2203, 4001, 10007, 16001, 20011] if run.tier == 'quick' else [1003, 1999, 2203, 4001, 5003, 10007, 16001, 20011, 50021, 100003]
        edge_probe = []
        for m in (100003, 1000003, 86400, 17280):
            ns = sorted({min(m, max(0, int(m * (e + 0.5) / 8) + d)) for e in range(8) for d in (-1, 0, 1, 2)} | {0, 1, 2, m - 2, m - 1, m})
            edge_probe.append((m, ns))
        for m, ns_ in edge_probe:
            got = wmo.perc2okta(np.array(ns_) / m * 100)
            counts['perc2okta'] += len(ns_)
            for n_, g_ in zip(ns_, got):
                if int(g_) != okta_ref(int(n_), m):
                    nbad += 1
                    fail(f'perc2okta({n_}/{m}*100) = {int(g_)}, expected {okta_ref(int(n_), m)}', {'n': int(n_), 'm': m})
        for m in list(range(1, M + 1)) + big:
            ns = np.arange(0, m + 1)
            got = wmo.perc2okta(ns / m * 100)
            counts['perc2okta'] += m + 1
            want = [okta_ref(int(n), m) for n in ns]
            if list(map(int, got)) != want:
                j = next(i for i in range(m + 1) if int(got[i]) != want[i])
                nbad += 1
                fail(f'perc2okta({j}/{m}*100) = {int(got[j])}, expected {want[j]}', {'n': j, 'm': m})
            if m % 37 == 0:
                s = int(wmo.perc2okta(float(3 / m * 100))[0]) if True else None
                if s != okta_ref(3, m):
                    nbad += 1
                    fail(f'perc2okta(scalar 3/{m}*100) = {s}, expected {okta_ref(3, m)}', {'n': 3, 'm': m})
        tiny = [-1e-16, float(np.nextafter(0, -1)), (0.3 - 0.2 - 0.1) * 100, float(np.nextafter(100, 200)), 100 + 1e-13, -1e-300]
        for bad in [-0.001, 100.0001, 150.0, -5, float('inf'), -float('inf')] + tiny + [np.array([10., t]) for t in tiny] + \
                [np.array([t, 100.]) for t in tiny] + [np.float32(-1e-30), np.array([-1], dtype=np.int8), np.array([101], dtype=np.uint8)]:
            counts['perc2okta'] += 1
            try:
                wmo.perc2okta(bad)
                nbad += 1
                fail(f'perc2okta({bad!r}) did not refuse', {'val': repr(bad)})
            except AmpycloudError:
                pass
            except Exception as e:
                nbad += 1
                fail(f'perc2okta({bad!r}) raised {type(e).__name__}', {'val': repr(bad)})
        # exact percentages in other number types (50 = 1 of 2, 25 = 1 of 4 ...): same oktas, no refusal
        for dt in (np.uint8, np.int8, np.int16, np.int64, np.float32, np.float64, np.uint16):
            arr = np.array([0, 25, 50, 75, 100], dtype=dt)
            counts['perc2okta'] += 1
            try:
                got = list(map(int, wmo.perc2okta(arr)))
                sc = [int(np.ravel(wmo.perc2okta(x))[0]) for x in arr]
            except Exception as e:
                nbad += 1
                fail(f'perc2okta({arr!r}) raised {type(e).__name__}', {'val': repr(arr)})
                continue
            if got != [0, 2, 4, 6, 8] or sc != got:
                nbad += 1
                fail(f'perc2okta({arr!r}) = {got} (element-wise {sc}), expected [0, 2, 4, 6, 8]', {'val': repr(arr)})
        # okta2code: integers -12..12 of several integer types, and non-integers
        for v in range(-12, 13):
            for conv in (int,):
                counts['okta2code'] += 1
                x = conv(v)
                try:
                    got = wmo.okta2code(x)
                    outcome = ('value', got)
                except AmpycloudError:
                    outcome = ('refused',)
                except Exception as e:
                    outcome = ('raised', type(e).__name__)
                want = ('value', CODES[v]) if v in CODES else ('refused',)
                if outcome != want:
                    nbad += 1
                    fail(f'okta2code({conv.__name__}({v})) -> {outcome}, expected {want}', {'val': v, 'type': conv.__name__})
        for x in (1.0, np.float64(3.0), '3', None, [1], 2.5):
            counts['okta2code'] += 1
            try:
                got = wmo.okta2code(x)
                nbad += 1
                fail(f'okta2code({x!r}) returned {got!r} instead of refusing a non-integer', {'val': repr(x)})
            except AmpycloudError:
                pass
            except Exception as e:
                nbad += 1
                fail(f'okta2code({x!r}) raised {type(e).__name__}', {'val': repr(x)})
        # height2code: grid + neighbours of every boundary
        hs = list(np.arange(0, 100000, 7.3 if run.tier == 'quick' else 0.37))
        for b in list(range(0, 10001, 100)) + list(range(10000, 100000, 1000)):
            for z in (float(b), np.nextafter(float(b), -1), np.nextafter(float(b), 1e9)):
                if 0 <= z < 100000:
                    hs.append(z)
        prev = None
        for h in sorted(hs):
            counts['height2code'] += 1
            c = wmo.height2code(h)
            ok = isinstance(c, str) and len(c) == 3 and c.isdigit()
            if ok:
                unit = 100 if h <= 10000 else 1000        # the code says: hundreds of feet (thousands above 10000 ft)
                coded = int(c) * 100
                ok = coded <= h and (h - coded < unit or (h > 10000 and h - coded < 1000))
                if h > 10000 and coded % 1000 != 0:
                    ok = False
                if prev is not None and int(c) < prev:
                    ok = False
                prev = int(c)
            if not ok:
                nbad += 1
                fail(f'height2code({h!r}) = {c!r}', {'height': float(h)})
    return {'label': 'B (bounded, never counted as proved)',
            'bound': f'all n/m up to m = {M}; Python integers -12..12 + 6 non-integers; {counts["height2code"]} heights incl. boundary neighbours',
            'evaluations': counts, 'failures': failures, 'n_failures': nbad}
