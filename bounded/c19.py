"""B stand-in for C19: order preservation, do/undo inverse, [0,1] image, step continuity and NaN blindness on generated arrays
(step scaling is not under a full-mode contract: for it this is the only check)."""
import random
import warnings

import numpy as np


def gen(k, seed):
    rng = random.Random(seed * 17 + k)
    n = rng.choice([1, 2, 3, 7, 40])
    kind = rng.choice(['uniform', 'skewed', 'constant', 'tiny_span', 'big'])
    if kind == 'uniform':
        v = [rng.uniform(0, 30000) for _ in range(n)]
    elif kind == 'skewed':
        base = rng.uniform(0, 20000)
        v = [base] * n
        v[-1] = base + rng.uniform(0, 2000)
        if n > 2:
            v[1] = base + rng.uniform(0, 50)
    elif kind == 'constant':
        v = [rng.uniform(0, 1e4)] * n
    elif kind == 'tiny_span':
        b = rng.uniform(0, 1e4)
        v = [b + rng.uniform(0, 1e-3) for _ in range(n)]
    else:
        v = [rng.uniform(-1e5, 1e5) for _ in range(n)]
    v = np.array(v, dtype=float)
    nan_pos = [i for i in range(n) if rng.random() < 0.2]
    if len(nan_pos) < n:
        v[nan_pos] = np.nan
    return v, kind, rng


def check(k, seed):
    from ampycloud import scaler
    v, kind, rng = gen(k, seed)
    fails = []
    ok = ~np.isnan(v)
    tol = lambda x: 1e-9 * (1 + np.nanmax(np.abs(x)))

    def props(name, do_kw, undo_kw, fct, unit=False):
        with warnings.catch_warnings():
            warnings.simplefilter('ignore')
            d = scaler.apply_scaling(v, fct=fct, **do_kw)
            derived = scaler.convert_kwargs(v, fct, **do_kw)
            u = scaler.apply_scaling(d, fct=fct, **{**derived, **undo_kw})
        if not np.array_equal(np.isnan(d), np.isnan(v)):
            fails.append(f'{name}: NaN pattern changed')
        a, b = v[ok], d[ok]
        order = np.argsort(a, kind='stable')
        if np.any(np.diff(b[order]) < -tol(b)):
            fails.append(f'{name}: order reversed')
        if np.any(np.abs(u[ok] - a) > 1e-9 * (1 + np.abs(a))):      # (a few ulps of |x| are the honest rounding error)
            fails.append(f'{name}: undo(do(x)) != x (max err {np.max(np.abs(u[ok] - a))})')
        if unit and (np.any(b < -1e-12) or np.any(b > 1 + 1e-12)):
            fails.append(f'{name}: image outside [0, 1]: [{b.min()}, {b.max()}]')
        # NaNs do not influence the others
        with warnings.catch_warnings():
            warnings.simplefilter('ignore')
            d2 = scaler.apply_scaling(a.copy(), fct=fct, **do_kw)
        if len(a) and np.any(np.abs(d2 - b) > tol(b)):
            fails.append(f'{name}: NaN entries influenced the scaling of the other values')
    sc = rng.choice([1, 100, 180, 1e5])
    props('shift-and-scale', {'scale': sc}, {'mode': 'undo'}, 'shift-and-scale')
    props('shift-and-scale(shift)', {'scale': sc, 'shift': 0}, {'mode': 'undo'}, 'shift-and-scale')
    mr = rng.choice([1e-6, 1, 1000, 5e4])
    props('minmax-scale', {'min_range': mr}, {'mode': 'undo'}, 'minmax-scale', unit=True)
    with warnings.catch_warnings():
        warnings.simplefilter('ignore')
        lo, hi = scaler.minrange2minmax(v, mr)
    slack = 1e-12 * (1 + abs(hi) + abs(lo))        # float rounding of mid +- min_range/2 (the contract is exact in the reals only)
    if hi - lo < mr - slack or np.nanmin(v) < lo - slack or np.nanmax(v) > hi + slack:
        fails.append(f'minrange2minmax: [{lo}, {hi}] does not contain the data / honour min_range {mr}')
    nst = rng.choice([0, 1, 2, 3, 4])
    steps = sorted(rng.uniform(0, 30000) for _ in range(nst))
    scales = [rng.choice([10, 100, 500, 1000]) for _ in range(nst + 1)]
    props(f'step-scale{nst}', {'steps': steps, 'scales': scales}, {'mode': 'undo'}, 'step-scale')
    for s_ in steps:      # continuity at each step
        eps = 1e-6 * (1 + abs(s_))
        x = np.array([s_ - eps, s_, s_ + eps])
        y = scaler.step_scale(x, steps, scales)
        lim_ = 2 * eps / min(scales) + 1e-9 * (1 + abs(y[1]))       # slope is at most 1 / min(scales)
        if abs(y[1] - y[0]) > lim_ or abs(y[2] - y[1]) > lim_:
            fails.append(f'step-scale: jump at step {s_}: {y}')
    return {'k': k, 'kind': kind, 'n': int(len(v))}, {}, fails, None


def _worker(a):
    try:
        return check(*a)
    except Exception as e:
        return {'k': a[0]}, {}, [f'crash {type(e).__name__}: {str(e)[:100]}'], None


def bounded(run):
    from pyvc.runner import _pool_map
    n = 300 if run.tier == 'quick' else 6000
    tasks = [(k, run.seed) for k in range(n)]
    res = _pool_map(_worker, tasks)
    failures, shapes = [], set()
    for (k, _), (desc, prms, fails, crash) in zip(tasks, res):
        shapes.add((desc.get('kind'), desc.get('n')))
        for f in fails[:2]:
            failures.append({'obligation': 'bounded.C19.scalings', 'scene': desc, 'what': f,
                             'rerun': f'cd /verif && PYTHONPATH=${{PYVC_REPO_SRC:-/repo/src}}:/verif .venv312/bin/python -m bounded.c19 {k} {run.seed}'})
    return {'label': 'B (bounded, never counted as proved)', 'bound': f'{n} generated arrays x 4 scalings (step lists of length 0..4), seed {run.seed}',
            'arrays': n, 'distinct_cases': len(shapes), 'failures': failures[:5], 'n_failures': len(failures)}


if __name__ == '__main__':
    import sys
    d, _, fails, _ = _worker((int(sys.argv[1]), int(sys.argv[2])))
    print(d)
    for f in fails:
        print('FAIL', f)
    sys.exit(1 if fails else 0)
