"""B stand-in / witness builder for C05: every hit accounted for exactly once at every stage."""
import numpy as np

from .scenes import scene, prms_variant
from .util import run_quiet


def _layers_vs_groups(chunk, fails, tag=''):
    data = chunk.data
    valid = data['height'].notna()
    pairs = set(zip(data.loc[valid, 'layer_id'].astype(int), data.loc[valid, 'group_id'].astype(int)))
    lay2grp = {}
    for l, g in pairs:
        lay2grp.setdefault(l, set()).add(g)
    bad = {l: g for l, g in lay2grp.items() if len(g) > 1}
    if bad:
        fails.append(f'{tag}layers spanning several groups: {bad}')
    for _, row in chunk.groups.iterrows():
        nl = len({l for l, g in pairs if g == int(row['cluster_id'])})
        kexp = 1 if row['ncomp'] in (-1, 1) else int(row['ncomp'])
        if nl != kexp:
            fails.append(f'{tag}group {row["cluster_id"]} with ncomp {row["ncomp"]} yields {nl} layers')
    present = sorted(set(int(i) for i in data.loc[valid, 'layer_id']))
    if sorted(int(i) for i in chunk.layers['cluster_id']) != present or chunk.n_layers != len(present):
        fails.append(f'{tag}layers table / n_layers do not match the per-hit assignment')
    return pairs


def two_decks_one_group(k, seed):
    """one instrument, two thin decks 150 ft apart seen alternately: one group, split in two layers when MIN_SEP_VALS allows"""
    import random
    from .scenes import _df
    rng = random.Random(seed * 97 + k)
    rows = [('A', -1185.0 + 15.0 * t, (1000.0 if t % 2 else 1150.0) + rng.choice([-3.0, 0.0, 3.0]), 1) for t in range(80)]
    return _df(rows), {'k': k, 'seed': seed, 'layout': 'two_decks_one_group', 'ceilos': ['A'], 'rows': len(rows)}


def check(k, seed):
    df, desc = scene(k, seed)
    prms = prms_variant(k, seed)
    if k % 15 == 8:
        df, desc = two_decks_one_group(k, seed)
        prms = {'MIN_SEP_VALS': [100, 1000], 'MIN_SEP_LIMS': [10000]}
    if k % 5 == 4:
        prms.setdefault('SLICING_PRMS', {})['dt_scale'] = 1 if k % 10 == 4 else 1000
        if k % 10 == 4 and len(df) > 200:
            # (dt_scale = 1 makes one slice per time step: minutes of run time on the big scenes; any prefix is a legal input too)
            df = df.iloc[:200].copy()
            desc = dict(desc, rows=len(df), truncated=True)
    fails = []
    if k % 3 == 1:
        # frames as users assemble them: repeated index labels (pd.concat of per-ceilometer frames), with an MSA that crops some
        # hits -- every scene has hits above and below its median height
        df = df.copy()
        df.index = [i % max(2, len(df) // 3) for i in range(len(df))]
        hs = df['height'].dropna()
        if len(hs):
            prms = dict(prms)
            prms['MSA'] = float(hs.median())
            prms.setdefault('MSA_HIT_BUFFER', 0)
        desc = dict(desc, labels='repeated', msa=prms.get('MSA'))
    try:
        chunk = run_quiet(df, prms)
    except Exception as e:
        return desc, prms, [], type(e).__name__
    data = chunk.data
    msa = chunk.prms['MSA']
    lim = None if msa is None else msa + chunk.prms['MSA_HIT_BUFFER']
    # no hit created, lost or altered (hits cropped above MSA+buffer excepted)
    src = df.reset_index(drop=True)
    exp = []
    for c, t, h, ty in zip(src['ceilo'], src['dt'], src['height'], src['type']):
        above = lim is not None and h == h and h > lim
        if not above:
            exp.append((str(c), float(t), float(h), int(ty)))
        elif ty <= 1:
            exp.append((str(c), float(t), float('nan'), 0))
    got = [(str(c), float(t), float(h), int(ty)) for c, t, h, ty in zip(data['ceilo'], data['dt'], data['height'], data['type'])]
    same = len(got) == len(exp) and all(g[0] == e[0] and g[1] == e[1] and g[3] == e[3] and (g[2] == e[2] or (g[2] != g[2] and e[2] != e[2]))
                                        for g, e in zip(got, exp))
    if not same:
        fails.append(f'hits created, lost or altered: {len(exp)} expected rows, {len(got)} in chunk.data')
    valid = data['height'].notna()
    for which in ('slice', 'group', 'layer'):
        ids = data[which + '_id']
        if ((ids >= 0) != valid).any():
            fails.append(f'{which}_id: valid hits without a set or non-detections inside a set')
        tab = getattr(chunk, which + 's')
        present = sorted(set(int(i) for i in ids[ids >= 0]))
        if sorted(int(i) for i in tab['cluster_id']) != present:
            fails.append(f'{which}s table lists {sorted(tab["cluster_id"])} but the per-hit assignment has {present}')
        if getattr(chunk, f'n_{which}s') != len(present) or len(tab) != len(present):
            fails.append(f'n_{which}s does not match')
    # each layer inside exactly one group; a group with k components yields k layers
    pairs = _layers_vs_groups(chunk, fails)
    # ... also when the layering is repeated on the same chunk with another setting (the groups table is kept between the passes)
    try:
        import warnings as _w
        with _w.catch_warnings():
            _w.simplefilter('ignore')
            chunk.prms['LAYERING_PRMS']['min_okta_to_split'] = 9 if (chunk.groups['ncomp'] > 1).any() else 0
            chunk.find_layers()
        _layers_vs_groups(chunk, fails, tag='after a second find_layers() with min_okta_to_split changed: ')
    except Exception as e:
        fails.append(f'second find_layers(): {type(e).__name__}: {str(e)[:80]}')
    # groups are unions of slices' hits: every group id is a slice id
    if not set(int(i) for i in data.loc[valid, 'group_id']) <= set(int(i) for i in data.loc[valid, 'slice_id']):
        fails.append('a group id is not the id of a slice')
    return desc, prms, fails, None


def _worker(a):
    return check(*a)


def bounded(run):
    from pyvc.runner import _pool_map
    n = 90 if run.tier == 'quick' else 2000
    tasks = [(k, run.seed) for k in range(n)]
    res = _pool_map(_worker, tasks)
    failures, crashed, shapes = [], 0, set()
    for (k, _), (desc, prms, fails, crash) in zip(tasks, res):
        if crash:
            crashed += 1
            continue
        shapes.add((desc['layout'], len(desc['ceilos']), desc['rows']))
        for f in fails[:3]:
            failures.append({'obligation': 'bounded.C05.accounting', 'scene': desc, 'prms': prms, 'what': f,
                             'rerun': f'cd /verif && PYTHONPATH=${{PYVC_REPO_SRC:-/repo/src}}:/verif .venv312/bin/python -m bounded.c05 {k} {run.seed}'})
    return {'label': 'B (bounded, never counted as proved)', 'bound': f'{n} scenes x parameter variants (incl. small slicing dt_scale), seed {run.seed}',
            'scenes': n, 'distinct_scene_shapes': len(shapes), 'scenes_crashing_in_pipeline (see C08)': crashed,
            'failures': failures[:5], 'n_failures': len(failures)}


if __name__ == '__main__':
    import sys
    desc, prms, fails, crash = check(int(sys.argv[1]), int(sys.argv[2]))
    print(desc, prms, crash)
    for f in fails:
        print('FAIL', f)
    sys.exit(1 if fails else 0)
