"""B stand-in / witness builder for C09: global RNG state before / after; reproducibility within a process, with a perturbed
generator, after other runs, and across fresh processes with different hash seeds (bit-identity of the libraries = A-DET)."""
import os
import subprocess
import sys
import warnings

import numpy as np

from .scenes import scene, prms_variant
from .util import digest_chunk, run_quiet


def _state_eq(a, b):
    return a[0] == b[0] and np.array_equal(a[1], b[1]) and a[2:] == b[2:]


def rng_checks():
    """the generator is left alone by tmp_seed (both exits), canonical_demo_data and run()"""
    import ampycloud
    from ampycloud.utils import utils, mocker
    fails = []
    for prep in ('seeded', 'advanced', 'long', 'set_state'):
        np.random.seed(43)
        if prep == 'advanced':
            np.random.random(7)
        elif prep == 'long':
            np.random.random(1000)
        elif prep == 'set_state':
            st = np.random.get_state()
            np.random.random(3)
            np.random.set_state(st)
            np.random.normal(size=5)
        s0 = np.random.get_state()
        with utils.tmp_seed(42):
            np.random.random(3)
        if not _state_eq(s0, np.random.get_state()):
            fails.append(f'tmp_seed (body completes) leaves the generator changed [{prep}]')
        np.random.set_state(s0)
        try:
            with utils.tmp_seed(42):
                np.random.random(3)
                raise KeyError('boom')
        except KeyError:
            pass
        if not _state_eq(s0, np.random.get_state()):
            fails.append(f'tmp_seed (body raises) leaves the generator changed [{prep}]')
        np.random.set_state(s0)

        class _Stop(BaseException):
            pass
        for exc_cls in (KeyboardInterrupt, SystemExit, GeneratorExit, _Stop):
            # exceptions that are not Exception subclasses (an interrupted notebook cell, a cancelled task)
            try:
                with utils.tmp_seed(42):
                    np.random.normal(size=3)
                    raise exc_cls()
            except BaseException:
                pass
            if not _state_eq(s0, np.random.get_state()):
                fails.append(f'tmp_seed (body left through {exc_cls.__name__}) leaves the generator changed [{prep}]')
            np.random.set_state(s0)
        with warnings.catch_warnings():
            warnings.simplefilter('ignore')
            df = mocker.canonical_demo_data()
        if not _state_eq(s0, np.random.get_state()):
            fails.append(f'canonical_demo_data leaves the generator changed [{prep}]')
        np.random.set_state(s0)
        chunk = run_quiet(df)
        chunk.metar_msg()
        if not _state_eq(s0, np.random.get_state()):
            fails.append(f'run() leaves the generator changed [{prep}]')
    return fails


def check(k, seed):
    df, desc = scene(k, seed)
    prms = prms_variant(k, seed)
    fails = []
    try:
        np.random.seed(1)
        d1 = digest_chunk(run_quiet(df, prms))
    except Exception as e:
        return desc, prms, [], type(e).__name__
    np.random.seed(987654)
    np.random.random(11)
    s0 = np.random.get_state()
    d2 = digest_chunk(run_quiet(df, prms))
    if not _state_eq(s0, np.random.get_state()):
        fails.append('run() changed the global generator state')
    if d1 != d2:
        fails.append('result depends on the global generator state')
    other, _ = scene(k + 7, seed)
    try:
        run_quiet(other)
    except Exception:
        pass
    if digest_chunk(run_quiet(df, prms)) != d1:
        fails.append('result depends on what was processed before')
    return desc, prms, fails, None, d1


def _worker(a):
    r = check(*a)
    return r if len(r) == 5 else (*r, None)


def _subprocess_digest(k, seed, hashseed):
    env = dict(os.environ, PYTHONHASHSEED=str(hashseed), OMP_NUM_THREADS='1', OPENBLAS_NUM_THREADS='1', MKL_NUM_THREADS='1')
    out = subprocess.run([sys.executable, '-m', 'bounded.c09', 'digest', str(k), str(seed)], capture_output=True, text=True, env=env,
                         cwd=os.path.dirname(os.path.dirname(os.path.abspath(__file__))), timeout=300)
    return out.stdout.strip().splitlines()[-1] if out.stdout.strip() else 'ERR ' + out.stderr[-200:]


def bounded(run):
    from pyvc.runner import _pool_map
    n = 24 if run.tier == 'quick' else 400
    tasks = [(k, run.seed) for k in range(n)]
    res = _pool_map(_worker, tasks)
    failures, crashed = [], 0
    for f in rng_checks():
        failures.append({'obligation': 'bounded.C09.rng_state', 'what': f,
                         'rerun': 'cd /verif && PYTHONPATH=${PYVC_REPO_SRC:-/repo/src}:/verif .venv312/bin/python -m bounded.c09 rng'})
    digs = {}
    for (k, _), (desc, prms, fails, crash, d) in zip(tasks, res):
        if crash:
            crashed += 1
            continue
        digs[k] = d
        for f in fails[:3]:
            failures.append({'obligation': 'bounded.C09.reproducible', 'scene': desc, 'prms': prms, 'what': f,
                             'rerun': f'cd /verif && PYTHONPATH=${{PYVC_REPO_SRC:-/repo/src}}:/verif .venv312/bin/python -m bounded.c09 scene {k} {run.seed}'})
    nsub = 3 if run.tier == 'quick' else 24
    subs = 0
    for k in list(digs)[:nsub]:
        for hs in (0, 12345):
            d = _subprocess_digest(k, run.seed, hs)
            subs += 1
            if d != digs[k]:
                failures.append({'obligation': 'bounded.C09.cross_process', 'what': f'scene {k}: digest in a fresh process with PYTHONHASHSEED={hs} differs ({d[:40]})',
                                 'rerun': f'cd /verif && PYTHONPATH=${{PYVC_REPO_SRC:-/repo/src}}:/verif .venv312/bin/python -m bounded.c09 scene {k} {run.seed}'})
    return {'label': 'B (bounded, never counted as proved)',
            'bound': f'{n} scenes (2 generator histories + 1 prior run each), 4 generator preparations x (tmp_seed ok/raise, demo data, run), {subs} fresh-process digests with 2 hash seeds; seed {run.seed}',
            'scenes': n, 'fresh_process_runs': subs, 'scenes_crashing_in_pipeline (see C08)': crashed,
            'failures': failures[:5], 'n_failures': len(failures)}


if __name__ == '__main__':
    if sys.argv[1] == 'digest':
        df, _ = scene(int(sys.argv[2]), int(sys.argv[3]))
        print(digest_chunk(run_quiet(df, prms_variant(int(sys.argv[2]), int(sys.argv[3])))))
        sys.exit(0)
    if sys.argv[1] == 'rng':
        f = rng_checks()
        for x in f:
            print('FAIL', x)
        sys.exit(1 if f else 0)
    r = _worker((int(sys.argv[2]), int(sys.argv[3])))
    print(r[0], r[1], r[3])
    for f in r[2]:
        print('FAIL', f)
    sys.exit(1 if r[2] else 0)
