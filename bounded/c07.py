"""B stand-in for the relational clauses of C07: two real runs on related inputs give identical tables."""
import random
import warnings

import numpy as np

from .scenes import scene, prms_variant
from .util import digest_chunk, run_quiet


def split_deck_below_high_second_hits(k, seed):
    """one instrument sees a thin low layer and, in its first measurements, second / third hits far above MSA + buffer (rows that the
    cropping removes, early in the table); another sees a deck alternating between two levels (one group, split by the mixture
    model).  Rows are not time-sorted (legal input)."""
    from .scenes import _df
    rng = random.Random(seed * 61 + k)
    rows = []
    n_a = rng.choice([15, 20, 30])
    sep = rng.choice([500., 600., 900.])
    for i in range(3 * n_a):
        dt = -1200. + 10 * i
        rows.append(('A', dt, 300. + (i % 3), 1))
        if i < n_a:
            rows.append(('A', dt, 20000. + 10 * i, 2))
            if rng.random() < 0.3:
                rows.append(('A', dt, 26000. + 10 * i, 3))
    for i in range(80):
        h = 3000. + 7 * (i % 5) if (i // 4) % 2 == 0 else 3000. + sep + 9 * (i % 4)
        rows.append(('B', -1195. + 15 * i, h, 1))
    if rng.random() < 0.5:
        rng.shuffle(rows)
    return _df(rows), {'k': k, 'seed': seed, 'layout': 'split_deck_below_high_second_hits', 'ceilos': ['A', 'B'], 'rows': len(rows)}


def synchronised_high_first_low_second(k, seed):
    """two instruments sampling at exactly the same times: during some steps one of them has its first (or VV) hit far above MSA +
    buffer while the other reports second / third hits at or below the limit, one of them exactly at the limit"""
    from .scenes import _df
    rng = random.Random(seed * 79 + k)
    nt = rng.choice([40, 60])
    rows = []
    high = set(rng.sample(range(nt), nt // 3))
    for t in range(nt):
        dt = -30.0 * t
        if t in high:
            rows.append(('A', dt, 9000.0 + rng.uniform(0, 500), rng.choice([1, 1, -1])))
        else:
            rows.append(('A', dt, 1000.0 + rng.uniform(0, 40), 1))
        rows.append(('B', dt, 1000.0 + rng.uniform(0, 40), 1))
        rows.append(('B', dt, 3000.0 + rng.uniform(0, 40), 2))
        if t % 7 == 0:
            rows.append(('B', dt, 5500.0, 3))
    rng.shuffle(rows)
    return _df(rows), {'k': k, 'seed': seed, 'layout': 'synchronised_high_first_low_second', 'ceilos': ['A', 'B'], 'rows': len(rows)}


def deck_exactly_at_a_non_integer_limit(k, seed):
    """a site working in metres: MSA and buffer are metre values converted to ft at 0.01 resolution, and a deck sits *exactly* at
    MSA + MSA_HIT_BUFFER (the floating-point sum the package computes): it is not above the limit"""
    from .scenes import _df
    rng = random.Random(seed * 83 + k)
    # pairs for which the floating-point sum does not "subtract back" exactly: any re-association of `h > MSA + buffer` shows there
    cands = []
    for m_ in range(100, 1500, 50):
        for b_ in range(50, 800, 50):
            a, b = round(m_ * 3.28084, 2), round(b_ * 3.28084, 2)
            if (a + b) - a != b or (a + b) - b != a:
                cands.append((a, b))
    msa, buf = rng.choice(cands)
    lim = msa + buf
    rows = []
    for t in range(50):
        dt = -1200.0 + 24.0 * t
        rows.append(('A', dt, 400.0 + (t % 3), 1) if t % 2 else ('A', dt, lim, 1))
        if t % 2 and t % 4 == 1:
            rows.append(('A', dt, lim, 2))
        if t % 10 == 0:
            rows.append(('A', dt, lim + 500.0, 2))
    return _df(rows), {'k': k, 'seed': seed, 'layout': f'deck_exactly_at_a_non_integer_limit({msa},{buf})', 'ceilos': ['A'], 'rows': len(rows)}, msa, buf


def check(k, seed):
    rng = random.Random(seed * 13 + k)
    if k % 12 == 5:
        df, desc, msa_, buf_ = deck_exactly_at_a_non_integer_limit(k, seed)
        prms = {'MSA': msa_, 'MSA_HIT_BUFFER': buf_, 'MAX_HITS_OKTA0': 3}
    elif k % 12 == 9:
        # measurements always reported with three slots, the unused higher ones left at NaN (accepted without a warning): a NaN
        # height is not "above the limit"
        df, desc = scene(20 + 21 * (k // 12), seed)          # layout nan_higher_slots (decks at 1800 and 12000 ft)
        prms = {'MSA': rng.choice([5000, 1000, 11000]), 'MSA_HIT_BUFFER': rng.choice([0, 1500]), 'MAX_HITS_OKTA0': rng.choice([3, 0, 2])}
    elif k % 6 == 2:
        df, desc = synchronised_high_first_low_second(k, seed)
        prms = {'MSA': 5000, 'MSA_HIT_BUFFER': 500}
    elif k % 6 == 4:
        df, desc = split_deck_below_high_second_hits(k, seed)
        prms = {'MSA': 10000, 'MSA_HIT_BUFFER': rng.choice([0, 1500])}
    else:
        df, desc = scene(k, seed)
        prms = prms_variant(k, seed)
    hs = df['height'].dropna()
    if prms.get('MSA') is None:
        prms['MSA'] = float(np.percentile(hs, rng.choice([20, 50, 80]))) if len(hs) else 1000.0
    prms.setdefault('MSA_HIT_BUFFER', rng.choice([0, 200, 1500]))
    lim = prms['MSA'] + prms['MSA_HIT_BUFFER']
    fails = []
    try:
        base = run_quiet(df, prms)
    except Exception as e:
        return desc, prms, [], type(e).__name__
    d0 = digest_tables(base)
    above = df['height'] > lim
    # every hit at or below the limit is kept unchanged (first / VV hits above it become non-detections, higher ones are removed)
    src = df.reset_index(drop=True)
    exp = []
    for c, t, h, ty in zip(src['ceilo'], src['dt'], src['height'], src['type']):
        if not (h == h and h > lim):
            exp.append((str(c), float(t), float(h), int(ty)))
        elif ty <= 1:
            exp.append((str(c), float(t), float('nan'), 0))
    got = [(str(c), float(t), float(h), int(ty)) for c, t, h, ty in zip(base.data['ceilo'], base.data['dt'], base.data['height'], base.data['type'])]
    same = len(got) == len(exp) and all(g[0] == e[0] and g[1] == e[1] and g[3] == e[3] and (g[2] == e[2] or (g[2] != g[2] and e[2] != e[2]))
                                        for g, e in zip(got, exp))
    if not same:
        fails.append(f'hits at or below the limit {lim} were lost or altered: {len(exp)} rows expected in chunk.data, {len(got)} found')
    # (1) other heights above the limit
    df1 = df.copy()
    df1.loc[above, 'height'] = lim + 1 + np.array([rng.uniform(0, 40000) for _ in range(int(above.sum()))])
    # (2) non-detections instead (second and higher hits removed)
    df2 = df.copy()
    df2 = df2.drop(df2[above & (df2['type'] > 1)].index)
    sel = (df2['height'] > lim)
    df2.loc[sel, 'height'] = np.nan
    df2.loc[sel, 'type'] = 0
    for nm, d in (('other heights above the limit', df1), ('replaced by non-detections', df2)):
        try:
            c = run_quiet(d, prms)
        except Exception as e:
            if type(e).__name__ == 'AmpycloudError':
                continue          # the transformed frame is refused by the input checker (e.g. coincident non-detection): not comparable
            fails.append(f'{nm}: {type(e).__name__}')
            continue
        if digest_tables(c) != d0:
            fails.append(f'{nm}: tables differ from the original run (limit {lim})')
    n_above = int(above.sum())
    if bool(base.clouds_above_msa_buffer) != (n_above > base.prms['MAX_HITS_OKTA0']):
        fails.append(f'flag {base.clouds_above_msa_buffer} but {n_above} hits above the limit, MAX_HITS_OKTA0={base.prms["MAX_HITS_OKTA0"]}')
    return desc, prms, fails, None


def digest_tables(chunk):
    import hashlib
    h = hashlib.sha256()
    for name in ('slices', 'groups', 'layers'):
        df = getattr(chunk, name)
        for c in df.columns:
            h.update(repr([None if (isinstance(v, float) and v != v) else v for v in df[c].tolist()]).encode())
    return h.hexdigest()


def _worker(a):
    return check(*a)


def bounded(run):
    from pyvc.runner import _pool_map
    n = 48 if run.tier == 'quick' else 800
    tasks = [(k, run.seed) for k in range(n)]
    res = _pool_map(_worker, tasks)
    failures, crashed, shapes = [], 0, set()
    for (k, _), (desc, prms, fails, crash) in zip(tasks, res):
        if crash:
            crashed += 1
            continue
        shapes.add((desc['layout'], prms.get('MSA_HIT_BUFFER')))
        for f in fails[:3]:
            failures.append({'obligation': 'bounded.C07.relational', 'scene': desc, 'prms': prms, 'what': f,
                             'rerun': f'cd /verif && PYTHONPATH=${{PYVC_REPO_SRC:-/repo/src}}:/verif .venv312/bin/python -m bounded.c07 {k} {run.seed}'})
    return {'label': 'B (bounded, never counted as proved)', 'bound': f'{n} scenes x MSA inside the data range x 2 related inputs, seed {run.seed}',
            'scenes': n, 'distinct_cases': len(shapes), 'scenes_crashing_in_pipeline (see C08)': crashed,
            'failures': failures[:5], 'n_failures': len(failures)}


if __name__ == '__main__':
    import sys
    desc, prms, fails, crash = check(int(sys.argv[1]), int(sys.argv[2]))
    print(desc, prms, crash)
    for f in fails:
        print('FAIL', f)
    sys.exit(1 if fails else 0)
