"""B stand-in / witness builder for C12: the three routes of setting parameters, poisoned global, unknown keys, reset."""
import copy
import os
import tempfile
import warnings

from .scenes import scene
from .util import digest_chunk, nested_prms, run_quiet


def _apply_global(p, g):
    for k, v in p.items():
        if k not in g:
            continue
        if isinstance(v, dict):
            _apply_global(v, g[k])
        else:
            g[k] = copy.deepcopy(v)


def check(k, seed):
    import ampycloud
    from ampycloud import dynamic
    from ampycloud.utils.utils import adjust_nested_dict
    from ruamel.yaml import YAML
    ampycloud.reset_prms()
    defaults = copy.deepcopy(dynamic.AMPYCLOUD_PRMS)
    df, desc = scene(k, seed)
    P = nested_prms(k, seed)
    if k % 5 == 2:
        # a misspelt section name: an unknown key whose value is itself a dictionary (ignored with a warning, like any unknown key)
        P['SLICING_PRM'] = {'dt_scale': 5, 'alpha': 1}
    fails = []
    # "arbitrary prior global contents": every route starts from a global that holds other values for keys the assignment names --
    # in every fourth scene a stale non-null MSA that the assignment sets back to None (null is a documented, legal value)
    stale = {}
    if k % 4 == 0:
        stale = {'MSA': 1500}
        P['MSA'] = None
    for key_, val_ in stale.items():
        dynamic.AMPYCLOUD_PRMS[key_] = val_
    try:
        with warnings.catch_warnings(record=True) as wlist:
            warnings.simplefilter('always')
            a = ampycloud.run(df, prms=copy.deepcopy(P))
        dig_a = digest_chunk(a)
    except Exception as e:
        ampycloud.reset_prms()
        return desc, P, [], type(e).__name__
    unknown = [key for key in P if key not in defaults] + [f'SLICING_PRMS.{key}' for key in P.get('SLICING_PRMS', {}) if key not in defaults['SLICING_PRMS']]
    nwarn = len([w for w in wlist if 'unknown' in str(w.message).lower() and w.category.__name__ == 'AmpycloudWarning'])
    if unknown and nwarn < len(unknown):
        fails.append(f'unknown keys {unknown} did not raise an AmpycloudWarning each ({nwarn})')

    def keys(d):
        return {k2: keys(v) if isinstance(v, dict) else None for k2, v in d.items()}
    if keys(a.prms) != keys(defaults):
        fails.append('per-call dictionary changed the key structure of the chunk parameters')
    exp = copy.deepcopy(defaults)
    exp.update(stale)
    with warnings.catch_warnings():
        warnings.simplefilter('ignore')
        exp = adjust_nested_dict(exp, copy.deepcopy(P))
    if a.prms != exp:
        fails.append('chunk.prms != defaults overridden by exactly the named keys')
    # route B: edit the global dictionary
    ampycloud.reset_prms()
    for key_, val_ in stale.items():
        dynamic.AMPYCLOUD_PRMS[key_] = val_
    _apply_global(P, dynamic.AMPYCLOUD_PRMS)
    try:
        if digest_chunk(run_quiet(df)) != dig_a:
            fails.append('global-edit route differs from per-call route')
    except Exception as e:
        fails.append(f'global-edit route raises {type(e).__name__}: {str(e)[:60]} (the per-call route runs)')
    ampycloud.reset_prms()
    # route C: YAML file through set_prms
    known = copy.deepcopy(P)
    known.pop('NOT_A_PARAMETER', None)
    known.get('SLICING_PRMS', {}).pop('bogus', None)
    for key_, val_ in stale.items():
        dynamic.AMPYCLOUD_PRMS[key_] = val_
    with tempfile.TemporaryDirectory() as td:
        pth = os.path.join(td, 'p.yml')
        y = YAML(typ='safe')
        with open(pth, 'w') as f:
            y.dump(known, f)
        with warnings.catch_warnings():
            warnings.simplefilter('ignore')
            ampycloud.set_prms(pth)
    if keys(dynamic.AMPYCLOUD_PRMS) != keys(defaults):
        fails.append('YAML route changed the key structure of the global parameters')
    try:
        if digest_chunk(run_quiet(df)) != dig_a:
            fails.append('YAML route differs from per-call route')
    except Exception as e:
        fails.append(f'YAML route raises {type(e).__name__}: {str(e)[:60]} (the per-call route runs)')
    ampycloud.reset_prms()
    # poisoned global: every leaf given per call, global holds other values
    Q = nested_prms(k + 1000, seed + 1)
    _apply_global(Q, dynamic.AMPYCLOUD_PRMS)
    dynamic.AMPYCLOUD_PRMS['MAX_HITS_OKTA0'] = 7
    dynamic.AMPYCLOUD_PRMS['GROUPING_PRMS']['dt_scale'] = 17
    dynamic.AMPYCLOUD_PRMS['LAYERING_PRMS']['gmm_kwargs']['delta_mul_gain'] = 0.5
    dynamic.AMPYCLOUD_PRMS['BASE_LVL_HEIGHT_PERC'] = 77
    mpl = dynamic.AMPYCLOUD_PRMS['MPL_STYLE']
    full = copy.deepcopy(a.prms)
    full['MPL_STYLE'] = mpl
    try:
        if digest_chunk(run_quiet(df, prms=full)) != dig_a:
            fails.append('per-call run with every key given is affected by the global values (a step reads the live global)')
    except Exception as e:
        fails.append(f'per-call run with every key given raises {type(e).__name__}: {str(e)[:60]}')
    # reset restores the packaged defaults even after nested in-place edits
    dynamic.AMPYCLOUD_PRMS['SLICING_PRMS']['height_scale_kwargs']['min_range'] = 1
    dynamic.AMPYCLOUD_PRMS['MIN_SEP_VALS'].append(5)
    ampycloud.reset_prms(which=['SLICING_PRMS'])
    if dynamic.AMPYCLOUD_PRMS['SLICING_PRMS'] != defaults['SLICING_PRMS']:
        fails.append('reset_prms(which=[SLICING_PRMS]) did not restore it')
    dynamic.AMPYCLOUD_PRMS['SLICING_PRMS']['distance_threshold'] = 5.0
    ampycloud.reset_prms()
    if dynamic.AMPYCLOUD_PRMS != defaults:
        fails.append('reset_prms() did not restore the packaged defaults')
    # edits that change the *key set* of a nested entry, then a named reset
    dynamic.AMPYCLOUD_PRMS['LOWESS'] = {'frac': 0.5}
    dynamic.AMPYCLOUD_PRMS['SLICING_PRMS']['height_scale_mode'] = 'shift-and-scale'
    dynamic.AMPYCLOUD_PRMS['SLICING_PRMS']['height_scale_kwargs'] = {'scale': 1000}
    del dynamic.AMPYCLOUD_PRMS['MSA_HIT_BUFFER']
    with warnings.catch_warnings(record=True) as wl3:
        warnings.simplefilter('always')
        ampycloud.reset_prms(which=['LOWESS', 'SLICING_PRMS', 'MSA_HIT_BUFFER'])
    if dynamic.AMPYCLOUD_PRMS != defaults:
        bad = [k2 for k2 in defaults if dynamic.AMPYCLOUD_PRMS.get(k2, '<missing>') != defaults[k2]]
        fails.append(f'reset_prms(which=[...]) after key-set changing edits did not restore the packaged defaults of {bad}')
    if wl3:
        fails.append(f'reset_prms(which=[...]) warns: {str(wl3[0].message)[:60]}')
    ampycloud.reset_prms()
    ampycloud.reset_prms(which='MSA')
    dynamic.AMPYCLOUD_PRMS['LOWESS']['frac'] = 0.9
    ampycloud.reset_prms()
    if dynamic.AMPYCLOUD_PRMS != defaults or dynamic.get_default_prms() != defaults:
        fails.append('reset_prms() after a named reset and a nested edit did not restore the packaged defaults')
    return desc, P, fails, None


def _worker(a):
    return check(*a)


def bounded(run):
    from pyvc.runner import _pool_map
    n = 32 if run.tier == 'quick' else 500
    tasks = [(k, run.seed) for k in range(n)]
    res = _pool_map(_worker, tasks)
    failures, shapes, crashed = [], set(), 0
    for (k, _), (desc, prms, fails, crash) in zip(tasks, res):
        if crash:
            crashed += 1
            continue
        shapes.add((desc['layout'], repr(sorted(prms.keys()))))
        for f in fails[:3]:
            failures.append({'obligation': 'bounded.C12.routes', 'scene': desc, 'prms': prms, 'what': f,
                             'rerun': f'cd /verif && PYTHONPATH=${{PYVC_REPO_SRC:-/repo/src}}:/verif .venv312/bin/python -m bounded.c12 {k} {run.seed}'})
    return {'label': 'B (bounded, never counted as proved)', 'bound': f'{n} scenes x nested parameter assignments x 3 routes + poisoned global + reset, seed {run.seed}',
            'scenes': n, 'distinct_cases': len(shapes), 'scenes_crashing_in_pipeline (see C08)': crashed,
            'failures': failures[:5], 'n_failures': len(failures)}


if __name__ == '__main__':
    import sys
    desc, prms, fails, crash = check(int(sys.argv[1]), int(sys.argv[2]))
    print(desc, prms, crash)
    for f in fails:
        print('FAIL', f)
    sys.exit(1 if fails else 0)
