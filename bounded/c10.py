"""B stand-in / witness builder for C10: index relabelling, extra / reordered columns, coercible dtypes give the same outcome."""
import random
import warnings

import numpy as np
import pandas as pd

from .scenes import scene, prms_variant
from .util import digest_chunk, run_quiet


def variants(df, rng):
    n = len(df)
    out = []
    v = df.copy(); v.index = rng.sample(range(n), n); out.append(('shuffled labels', v))
    v = df.copy(); v.index = range(n, 0, -1); out.append(('reversed labels', v))
    v = df.copy(); v.index = [i + 1000 for i in range(n)]; out.append(('offset labels', v))
    v = df.copy(); v.index = [f'r{i}' for i in range(n)]; out.append(('string labels', v))
    v = df.copy(); v.index = [i // 2 for i in range(n)]; out.append(('repeated labels', v))
    parts = [df[df['ceilo'] == c].reset_index(drop=True) for c in df['ceilo'].unique()]
    if len(parts) > 1:
        cat = pd.concat(parts)
        out.append(('concat of per-ceilometer frames', cat))
        cat = pd.concat(parts, keys=[str(c) for c in df['ceilo'].unique()], names=['ceilo', None])
        out.append(('concat of per-ceilometer frames with keys (two index levels, the first named ceilo)', cat))
    # the index may carry a *name*, e.g. when a column was promoted to the index and kept: labels repeat and a level is named like a column
    out.append(('index set from the dt column (column kept)', df.set_index('dt', drop=False)))
    v = df.copy(); v.index = [i + 7 for i in range(n)]; v.index.name = rng.choice(['ceilo', 'height', 'type', 'row']); out.append(('named index', v))
    v = df.copy(); v['extra'] = np.arange(n); v['note'] = 'x'; out.append(('extra columns', v))
    v = df[['type', 'height', 'ceilo', 'dt']].copy(); out.append(('reordered columns', v))
    v = df.copy(); v['ceilo'] = v['ceilo'].astype(object); v['type'] = v['type'].astype(float); out.append(('object ceilo, float type', v))
    v = df.copy(); v['type'] = v['type'].astype('int8'); out.append(('narrow int type', v))
    # the axes combined: other coercible dtypes AND a relabelled index (a conversion that builds new objects must not re-align rows)
    def retyped(d):
        d = d.copy()
        d['type'] = d['type'].astype(rng.choice(['float', 'int8', 'int32']))
        d['ceilo'] = d['ceilo'].astype(object)
        if (d['dt'] == d['dt'].round()).all():
            d['dt'] = d['dt'].astype(int)
        hh = d['height']
        if hh.notna().all() and (hh == hh.round()).all():
            d['height'] = hh.astype(int)
        else:
            d['height'] = hh.astype('float32').astype(float) if False else hh
        return d
    v = retyped(df); v.index = rng.sample(range(n), n); out.append(('other dtypes + shuffled labels', v))
    v = retyped(df); v.index = [i + 1000 for i in range(n)]; out.append(('other dtypes + offset labels', v))
    v = retyped(df); v.index = [f'r{i}' for i in range(n)]; out.append(('other dtypes + string labels', v))
    v = retyped(df); v.index = [i // 2 for i in range(n)]; out.append(('other dtypes + repeated labels', v))
    return out


def check(k, seed):
    rng = random.Random(seed * 23 + k)
    df, desc = scene(k, seed)
    if k % 4 == 1:
        # an anomaly documented as a warning only: non-detections that carry a height (whatever is done about them must not
        # depend on the index labels)
        nd = list(df.index[df['type'] == 0])
        if nd:
            df = df.copy()
            df.loc[rng.sample(nd, max(1, len(nd) // 3)), 'height'] = rng.choice([0.0, 1400.0])
            desc = dict(desc, anomaly='non-detections carrying a height')
    prms = prms_variant(k, seed)
    fails = []
    try:
        ref = digest_chunk(run_quiet(df, prms))
    except Exception as e:
        return desc, prms, [], type(e).__name__
    ref_sorted = None
    for name, v in variants(df, rng):
        try:
            c = run_quiet(v, prms)
        except Exception as e:
            fails.append(f'{name}: {type(e).__name__}: {str(e)[:80]}')
            continue
        if name.startswith('concat of per-ceilometer frames'):
            # row order changed as well: compare with the plainly indexed frame in the same row order
            plain = v.reset_index(drop=True)
            d_plain = digest_chunk(run_quiet(plain, prms))
            if digest_chunk(c) != d_plain:
                fails.append(f'{name}: outcome differs from the same rows with a plain index')
            continue
        if digest_chunk(c) != ref:
            fails.append(f'{name}: outcome differs from the plainly indexed frame')
    return desc, prms, fails, None


def _worker(a):
    return check(*a)


def bounded(run):
    from pyvc.runner import _pool_map
    n = 40 if run.tier == 'quick' else 800
    tasks = [(k, run.seed) for k in range(n)]
    res = _pool_map(_worker, tasks)
    failures, crashed, shapes = [], 0, set()
    for (k, _), (desc, prms, fails, crash) in zip(tasks, res):
        if crash:
            crashed += 1
            continue
        shapes.add((desc['layout'], len(desc['ceilos'])))
        for f in fails[:3]:
            failures.append({'obligation': 'bounded.C10.layout_independent', 'scene': desc, 'prms': prms, 'what': f,
                             'rerun': f'cd /verif && PYTHONPATH=${{PYVC_REPO_SRC:-/repo/src}}:/verif .venv312/bin/python -m bounded.c10 {k} {run.seed}'})
    return {'label': 'B (bounded, never counted as proved)', 'bound': f'{n} scenes x 17 relabellings / layouts / dtype variants, seed {run.seed}',
            'scenes': n, 'distinct_scene_shapes': len(shapes), 'scenes_crashing_in_pipeline (see C08)': crashed,
            'failures': failures[:5], 'n_failures': len(failures)}


if __name__ == '__main__':
    import sys
    desc, prms, fails, crash = check(int(sys.argv[1]), int(sys.argv[2]))
    print(desc, prms, crash)
    for f in fails:
        print('FAIL', f)
    sys.exit(1 if fails else 0)
