"""B stand-in / witness builder for C08: run() and metar_msg() terminate on valid input; refusals are AmpycloudError only."""
import random
import warnings

from .scenes import scene, prms_variant, _df
import numpy as np


def bundle_scene(k, seed):
    """time-separated single hits inside the padded range of a thick slice (greedy bundling leaves one-hit bundles)"""
    rng = random.Random(seed * 41 + k)
    rows = [('A', -60 + i, 2000 + rng.uniform(0, 150), 1) for i in range(60)]
    for j in range(rng.choice([1, 2, 3])):
        rows.append(('A', -600 - 300 * j, 2000 + rng.uniform(0, 10), 1))
    return _df(rows), {'k': k, 'seed': seed, 'layout': 'thick_slice_plus_single_hits', 'ceilos': ['A'], 'rows': len(rows)}


def thin_deck_with_repeated_heights(k, seed):
    """one instrument, a thin deck whose heights are whole feet with one value repeated many times, placed anywhere in the range --
    also just below its upper end (100000 ft)"""
    rng = random.Random(seed * 53 + k)
    base = rng.choice([99940.0, 99900.0, 60000.0, 99940.0, 2000.0])
    n = rng.choice([40, 50, 60])
    hs = [base + rng.randint(0, 59) for _ in range(n)]
    for j in rng.sample(range(n), 12):
        hs[j] = base + 50.0
    rows = [('A', -1200.0 + 20.0 * t, hs[t], 1) for t in range(n)]
    return _df(rows), {'k': k, 'seed': seed, 'layout': f'thin_deck_with_repeated_heights({base})', 'ceilos': ['A'], 'rows': len(rows)}


def check(k, seed):
    import ampycloud
    rng = random.Random(seed * 19 + k)
    df, desc = bundle_scene(k, seed) if k % 7 == 6 else scene(k, seed)
    prms = prms_variant(k, seed)
    if k % 10 == 3:
        df, desc = thin_deck_with_repeated_heights(k, seed)
        prms = {'LAYERING_PRMS': {'gmm_kwargs': {'rescale_0_to_x': rng.choice([None, None, 100])}}}
    if k % 7 == 6 or rng.random() < 0.15:
        prms.setdefault('SLICING_PRMS', {})['dt_scale'] = rng.choice([1000, 1, 100000])
    if rng.random() < 0.2:
        prms.setdefault('LAYERING_PRMS', {})['min_okta_to_split'] = rng.choice([0, 1, 4])
    if rng.random() < 0.2:
        prms.setdefault('LOWESS', {})['frac'] = rng.choice([0.1, 0.35, 1.0])
    if rng.random() < 0.3:
        # the documented alternatives of the mixture-model options ("None = no rescaling", AIC / BIC, delta / prob)
        gk = prms.setdefault('LAYERING_PRMS', {}).setdefault('gmm_kwargs', {})
        gk['rescale_0_to_x'] = rng.choice([None, None, 20, 100])
        if rng.random() < 0.5:
            gk['scores'] = rng.choice(['AIC', 'BIC'])
        if rng.random() < 0.5:
            gk['mode'] = rng.choice(['prob', 'delta'])
    if rng.random() < 0.2:
        df = df.set_index('dt', drop=False)            # a frame whose index was made from a column (kept): still the documented format
        desc = dict(desc, index='dt column promoted to the index')
    fails = []
    try:
        with warnings.catch_warnings():
            warnings.simplefilter('ignore')
            chunk = ampycloud.run(df, prms=prms)
            for w in ('slices', 'groups', 'layers'):
                m = chunk.metar_msg(w)
                if not isinstance(m, str):
                    fails.append(f'metar_msg({w}) returned {type(m).__name__}')
    except Exception as e:
        fails.append(f'run()/metar_msg() raised {type(e).__name__}: {str(e)[:100]}')
    return desc, prms, fails, None


def _worker(a):
    return check(*a)


def bounded(run):
    from pyvc.runner import _pool_map
    n = 140 if run.tier == 'quick' else 4000
    tasks = [(k, run.seed) for k in range(n)]
    res = _pool_map(_worker, tasks)
    failures, shapes = [], set()
    for (k, _), (desc, prms, fails, crash) in zip(tasks, res):
        shapes.add((desc['layout'], len(desc['ceilos']), desc['rows']))
        for f in fails[:3]:
            failures.append({'obligation': 'bounded.C08.total', 'scene': desc, 'prms': prms, 'what': f,
                             'rerun': f'cd /verif && PYTHONPATH=${{PYVC_REPO_SRC:-/repo/src}}:/verif .venv312/bin/python -m bounded.c08 {k} {run.seed}'})
    return {'label': 'B (bounded, never counted as proved)', 'bound': f'{n} valid scenes x valid parameter variants, seed {run.seed}',
            'scenes': n, 'distinct_scene_shapes': len(shapes), 'failures': failures[:5], 'n_failures': len(failures)}


if __name__ == '__main__':
    import sys
    desc, prms, fails, crash = check(int(sys.argv[1]), int(sys.argv[2]))
    print(desc, prms, crash)
    for f in fails:
        print('FAIL', f)
    sys.exit(1 if fails else 0)
