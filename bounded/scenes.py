"""Scene grammar: seeded generator of accepted hit tables (pandas DataFrames) with the shapes the properties quantify over.
scene(k, seed) is deterministic, so a failing scene is identified by (seed, k)."""
import random

import numpy as np
import pandas as pd

LAYOUTS = ('single_deck', 'two_decks', 'three_decks', 'sparse', 'multi_hit', 'unequal_sampling', 'coincident', 'all_nan',
           'single_hit', 'identical_heights', 'two_values', 'vv', 'high_and_low', 'thick', 'type_gt3', 'many_ceilos',
           'missing_lower_types', 'repeated_type1', 'near_identical_heights', 'creeping_deck', 'nan_higher_slots')


def _df(rows):
    df = pd.DataFrame(rows, columns=['ceilo', 'dt', 'height', 'type'])
    df['ceilo'] = df['ceilo'].astype(pd.StringDtype())
    df['dt'] = df['dt'].astype(float)
    df['height'] = df['height'].astype(float)
    df['type'] = df['type'].astype(int)
    return df


def scene(k: int, seed: int = 0):
    """-> (DataFrame, description dict)"""
    rng = random.Random(seed * 100003 + k)
    layout = LAYOUTS[k % len(LAYOUTS)]
    nceil = rng.choice([1, 1, 2, 3, 4]) if layout != 'many_ceilos' else rng.choice([5, 11, 14])
    names = rng.choice([[str(i) for i in range(nceil)], ['10', '9', 'A', 'b', 'zz'][:nceil] if nceil <= 5 else [f'c{i:02d}' for i in range(nceil)]])
    nt = rng.choice([4, 12, 30, 45, 60]) if layout not in ('single_hit',) else rng.choice([1, 5])
    span = rng.choice([900.0, 900.0, 60.0, 0.5, 86400.0])
    rows = []
    decks = {'single_deck': [2000], 'two_decks': [1500, 4200], 'three_decks': [800, 2600, 7000], 'sparse': [3000],
             'multi_hit': [1200, 2500], 'unequal_sampling': [1800, 5000], 'coincident': [2200], 'identical_heights': [3300],
             'two_values': [1000], 'vv': [600], 'high_and_low': [900, 14000, 30000], 'thick': [2000], 'type_gt3': [500, 1500, 2500, 3500, 4500],
             'many_ceilos': [2500, 6000], 'missing_lower_types': [1200, 2600, 4000], 'repeated_type1': [1500, 3000],
             'near_identical_heights': [2900], 'creeping_deck': [2500], 'nan_higher_slots': [1800, 12000]}.get(layout, [])
    for ci, c in enumerate(names):
        n_c = nt if layout != 'unequal_sampling' else max(1, nt // (ci + 1))
        offs = 0.0 if layout == 'coincident' else rng.uniform(0, span / max(n_c, 1) / 3)
        for ti in range(n_c):
            dt = -span + (span * ti / max(n_c, 1)) + offs
            if layout == 'all_nan':
                rows.append((c, dt, np.nan, 0))
                continue
            if layout == 'single_hit':
                if ci == 0 and ti == 0:
                    rows.append((c, dt, 2345.0, 1))
                else:
                    rows.append((c, dt, np.nan, 0))
                continue
            if layout == 'vv':
                if rng.random() < 0.7:
                    rows.append((c, dt, decks[0] + rng.gauss(0, 20), -1))
                else:
                    rows.append((c, dt, np.nan, 0))
                continue
            hit_no = 0
            for di, base in enumerate(decks):
                p = {'sparse': 0.15, 'single_deck': 0.9, 'near_identical_heights': 0.95, 'creeping_deck': 0.95}.get(layout, 0.7)
                if layout in ('multi_hit', 'type_gt3', 'three_decks', 'two_decks', 'high_and_low', 'many_ceilos', 'unequal_sampling',
                              'missing_lower_types', 'repeated_type1', 'near_identical_heights', 'creeping_deck', 'nan_higher_slots'):
                    want = rng.random() < p
                else:
                    want = (di == 0 and rng.random() < p)
                if not want:
                    continue
                hit_no += 1
                if layout == 'identical_heights':
                    h = float(base)
                elif layout == 'two_values':
                    h = float(base + 300 * (ti % 2))
                elif layout == 'near_identical_heights':
                    # the same level converted from metres in two ways: two values about 1e-4 ft apart
                    m = round(base * 0.3048, 1)
                    h = m * 3.28084 if (ti + ci) % 2 else m / 0.3048
                elif layout == 'creeping_deck':
                    h = float(base) + 0.001 * ti
                elif layout == 'thick':
                    h = base + rng.uniform(0, 1500)
                else:
                    h = base + rng.gauss(0, rng.choice([5, 30, 80]))
                if layout == 'missing_lower_types':
                    # documented as a warning only: a type-n hit without the lower types at that time step
                    rows.append((c, dt, max(h, 0.0), di + 1))
                elif layout == 'repeated_type1':
                    # several type-1 rows with distinct heights on one (ceilo, dt): accepted by the input checker
                    rows.append((c, dt, max(h, 0.0), 1))
                else:
                    rows.append((c, dt, max(h, 0.0), hit_no))
            if hit_no == 0:
                rows.append((c, dt, np.nan, 0))
            elif layout == 'nan_higher_slots' and hit_no == 1:
                # an instrument that always delivers its second slot: NaN when there is no second hit (accepted input)
                rows.append((c, dt, np.nan, 2))
    if rng.random() < 0.3:
        rng.shuffle(rows)
    df = _df(rows)
    return df, {'k': k, 'seed': seed, 'layout': layout, 'ceilos': names, 'rows': len(df), 'span_s': span}


def prms_variant(k: int, seed: int = 0):
    rng = random.Random(seed * 7919 + k + 17)
    p = {}
    if rng.random() < 0.5:
        p['MSA'] = rng.choice([None, 0, 1000, 2500, 5000, 10000, 20000])
        if rng.random() < 0.5:
            p['MSA_HIT_BUFFER'] = rng.choice([0, 500, 1500])
    if rng.random() < 0.4:
        p['MAX_HITS_OKTA0'] = rng.choice([0, 1, 3, 5])
    if rng.random() < 0.4:
        p['MAX_HOLES_OKTA8'] = rng.choice([0, 1, 2, 5])
    if rng.random() < 0.3:
        p['BASE_LVL_HEIGHT_PERC'] = rng.choice([0, 5, 50, 95, 100])
    if rng.random() < 0.3:
        p['BASE_LVL_LOOKBACK_PERC'] = rng.choice([1, 30, 34, 100])
    return p
