"""B stand-in / witness builder for C06: minimum separation of groups, and of layers split from one group."""
import random

import numpy as np

from .scenes import scene, prms_variant, _df
from .util import run_quiet


def two_close_decks(k, seed):
    """decks whose distance straddles the separation bins; rows in ascending / descending / shuffled order"""
    rng = random.Random(seed * 29 + k)
    base = rng.choice([1000, 3000, 9700, 9800, 12000])
    gap = rng.choice([150, 240, 250, 260, 400, 600, 900, 1100])
    ndeck = rng.choice([2, 3])
    n = rng.choice([30, 60])
    names = rng.choice([['A'], ['A', 'B']])
    rows = []
    for c in names:
        for t in range(n):
            dt = -900 + 900 * t / n + (0 if c == 'A' else 3)
            for d in range(ndeck):
                if rng.random() < 0.75:
                    conv = (1 - t / n) * rng.choice([0, 0, 300]) if d else 0
                    rows.append((c, dt, base + d * gap + conv + rng.gauss(0, rng.choice([2, 10])), d + 1))
            if not any(r[0] == c and r[1] == dt for r in rows):
                rows.append((c, dt, np.nan, 0))
    order = rng.choice(['asc', 'desc', 'shuffled'])
    if order == 'desc':
        rows.sort(key=lambda r: -r[1])
    elif order == 'shuffled':
        rng.shuffle(rows)
    return _df(rows), {'k': k, 'seed': seed, 'layout': f'close_decks(base={base},gap={gap},n={ndeck},{order})', 'ceilos': names, 'rows': len(rows)}


def converging_sublayers(k, seed):
    """one group made of two sub-layers that approach each other with time; rows ascending / descending / shuffled"""
    rng = random.Random(seed * 31 + k)
    n = 160
    sep_old, sep_new = rng.uniform(300, 700), rng.uniform(150, 320)
    rows = []
    for i in range(n):
        dt = -1590 + 10 * i
        frac = i / (n - 1)
        h = 3000 + rng.gauss(0, 12) if i % 2 == 0 else 3000 + sep_old + (sep_new - sep_old) * frac + rng.gauss(0, 12)
        rows.append(('A', dt, h, 1))
    order = ['asc', 'desc', 'shuffled'][k % 3]
    if order == 'desc':
        rows.reverse()
    elif order == 'shuffled':
        rng.shuffle(rows)
    return _df(rows), {'k': k, 'seed': seed, 'layout': f'converging_sublayers({order})', 'ceilos': ['A'], 'rows': n}


def excluded_flat_plus_alternating(k, seed):
    """ceilometer B (to be excluded) reads a flat layer, ceilometer A alternates between two heights a bit above it"""
    rng = random.Random(seed * 33 + k)
    lo = rng.choice([1000, 2500, 6000])
    d1, d2 = rng.choice([(200, 440), (150, 380), (220, 470)])
    rows = []
    for i in range(60):
        t = -1190 + 20 * i
        rows.append(('B', t, lo + rng.gauss(0, 3), 1))
        rows.append(('A', t + 1, lo + (d1 if i % 2 == 0 else d2) + rng.gauss(0, 3), 1))
    return _df(rows), {'k': k, 'seed': seed, 'layout': f'excluded_flat_plus_alternating({lo},{d1},{d2})', 'ceilos': ['A', 'B'], 'rows': len(rows)}


def three_decks_across_a_bin(k, seed):
    """A < B < C with a separation-bin limit between B and C and B holding only a few hits: merging B and C moves the merged
    base into the stricter bin, which must trigger a second merge with A"""
    rng = random.Random(seed * 35 + k)
    lim = rng.choice([10000, 3000])
    a, b, c = (lim - 600, lim - 200, lim + 300) if lim == 10000 else (lim - 400, lim - 130, lim + 100)
    nb = rng.choice([3, 4, 6])
    rows = []
    for i in range(100):
        t = -1500 + 15 * i
        rows.append(('A', t, a + rng.gauss(0, 1), 1))
        rows.append(('A', t, c + rng.gauss(0, 1), 2))
        if i < nb:
            rows.append(('B', t + 1, b + rng.gauss(0, 1), 1))
        else:
            rows.append(('B', t + 1, np.nan, 0))
    order = ['asc', 'desc', 'shuffled'][k % 3]
    if order == 'desc':
        rows.reverse()
    elif order == 'shuffled':
        rng.shuffle(rows)
    return _df(rows), {'k': k, 'seed': seed, 'layout': f'three_decks_across_a_bin({a},{b}x{nb},{c},{order})', 'ceilos': ['A', 'B'], 'rows': len(rows), 'lim': lim}


def thin_deck_below_ragged_deck(k, seed):
    """two decks seen alternately by four instruments in one group: a very thin lower one and a thicker upper one whose few lowest
    hits sit well below its bulk -- with BASE_LVL_HEIGHT_PERC = 0 the upper base is its lowest hit"""
    rng = random.Random(seed * 73 + k)
    gap = rng.choice([310., 290., 330.])
    rows = []
    for c in range(4):
        for t in range(80):
            if (t + c) % 2 == 0:
                h = 1000. + rng.choice([-5., 0., 5.])
            else:
                h = float(round(1000. + gap + 30. * rng.gauss(0, 1)))
            rows.append((f'ceilo{c}', -1200. + 15. * t + c, h, 1))
    order = rng.choice(['ascending', 'descending', 'shuffled'])
    if order == 'descending':
        rows.sort(key=lambda r: -r[1])
    elif order == 'shuffled':
        rng.shuffle(rows)
    else:
        rows.sort(key=lambda r: r[1])
    return _df(rows), {'k': k, 'seed': seed, 'layout': f'thin_deck_below_ragged_deck({gap},{order})', 'ceilos': [f'ceilo{c}' for c in range(4)], 'rows': len(rows)}


def deck_below_two_sheets(k, seed):
    """one instrument: a plain low deck (its own group, handed to the mixture model first) and, well above it, a thick sheet with a thin
    sheet just over it (one group, two components).  With a high BASE_LVL_HEIGHT_PERC the two sheets' bases are closer than the
    separation: they must be re-merged -- for the second group exactly as for the first"""
    rng = random.Random(seed * 91 + k)
    nts = rng.choice([100, 120])
    lowb, upb = rng.choice([1500., 2000.]), rng.choice([6000., 5000.])
    rows = []
    for t in range(nts):
        dt = -1190. + 1190. * t / (nts - 1)
        rows.append(('A', dt, lowb + rng.randint(-20, 20), 1))
        rows.append(('A', dt, upb + rng.randint(0, 200), 2))
        rows.append(('A', dt, upb + 300. + rng.randint(0, 20), 3))
    order = rng.choice(['ascending', 'descending', 'shuffled'])
    if order == 'descending':
        rows.reverse()
    elif order == 'shuffled':
        rng.shuffle(rows)
    return _df(rows), {'k': k, 'seed': seed, 'layout': f'deck_below_two_sheets({lowb},{upb},{nts},{order})', 'ceilos': ['A'], 'rows': len(rows)}


def _raw_ncomp(chunk, grow):
    """number of components the mixture model distinguishes in the group before any re-merging (min_sep = 0)"""
    from ampycloud import layer
    d = chunk.data
    hts = d.loc[d['group_id'] == grow['cluster_id']].sort_values('dt', kind='stable')['height'].to_numpy()
    n, _, _ = layer.ncomp_from_gmm(hts, ncomp_max=min(3, len(np.unique(hts))), min_sep=0, **chunk.prms['LAYERING_PRMS']['gmm_kwargs'])
    return int(n)


def check(k, seed):
    rng = random.Random(seed * 5 + k)
    kind = k % 6
    if k % 12 == 11:
        kind = 8
    if k % 12 == 7:
        kind = 6
    if k % 12 == 3:
        kind = 7
    if kind == 6:
        df, desc = three_decks_across_a_bin(k, seed)
    elif kind == 7:
        df, desc = thin_deck_below_ragged_deck(k, seed)
    elif kind == 8:
        df, desc = deck_below_two_sheets(k, seed)
    elif kind == 4:
        df, desc = converging_sublayers(k, seed)
    elif kind == 5:
        df, desc = excluded_flat_plus_alternating(k, seed)
    else:
        df, desc = two_close_decks(k, seed) if k % 3 else scene(k, seed)
    prms = prms_variant(k, seed)
    prms.pop('MSA', None)
    if rng.random() < 0.5:
        prms['MIN_SEP_VALS'], prms['MIN_SEP_LIMS'] = rng.choice([([250, 1000], [10000]), ([100, 400, 1200], [2000, 9000]), ([300], [])])
    prms['BASE_LVL_LOOKBACK_PERC'] = rng.choice([100, 100, 50, 30])
    excl = len(desc['ceilos']) > 1 and (rng.random() < 0.4 or kind == 5)
    if excl:
        prms['EXCLUDE_FOR_BASE_HEIGHT_CALC'] = [desc['ceilos'][-1]]
    if kind == 6:
        prms = {'MIN_SEP_VALS': [250, 1000], 'MIN_SEP_LIMS': [10000]} if desc['lim'] == 10000 else {'MIN_SEP_VALS': [250, 600, 1000], 'MIN_SEP_LIMS': [3000, 10000]}
        excl = False
    if kind == 7:
        prms = {'MIN_SEP_VALS': [250, 1000], 'MIN_SEP_LIMS': [10000], 'BASE_LVL_HEIGHT_PERC': rng.choice([0, 0, 5, 100]),
                'BASE_LVL_LOOKBACK_PERC': rng.choice([100, 60])}
        excl = False
    if kind == 8:
        prms = {'MIN_SEP_VALS': [250, 1000], 'MIN_SEP_LIMS': [10000], 'BASE_LVL_HEIGHT_PERC': rng.choice([95, 95, 90, 100]),
                'BASE_LVL_LOOKBACK_PERC': rng.choice([100, 100, 70])}
        excl = False
    if kind in (4, 5):
        for key in ('MAX_HITS_OKTA0', 'MAX_HOLES_OKTA8', 'BASE_LVL_HEIGHT_PERC', 'MIN_SEP_VALS', 'MIN_SEP_LIMS'):
            prms.pop(key, None)
        if kind == 4:
            prms['BASE_LVL_LOOKBACK_PERC'] = rng.choice([50, 30, 100])
    fails = []
    try:
        chunk = run_quiet(df, prms)
    except Exception as e:
        return desc, prms, [], type(e).__name__
    lims, vals = chunk.prms['MIN_SEP_LIMS'], chunk.prms['MIN_SEP_VALS']
    sep = lambda h: vals[int(np.searchsorted(lims, h))]
    g = chunk.groups.sort_values('height_base')
    hb = list(g['height_base'])
    for i in range(len(hb)):
        for j in range(i + 1, len(hb)):
            if hb[j] - hb[i] < sep(hb[j]) - 1e-9:
                fails.append(f'groups at {hb[i]:.1f} and {hb[j]:.1f} ft are {hb[j]-hb[i]:.1f} ft apart, minimum {sep(hb[j])}')
    if not excl:
        data = chunk.data
        for _, grow in chunk.groups.iterrows():
            if grow['ncomp'] < 2:
                continue
            lids = sorted(set(data.loc[data['group_id'] == grow['cluster_id'], 'layer_id'].astype(int)))
            if len(lids) != int(grow['ncomp']):
                continue
            lb = sorted(float(chunk.layers.loc[chunk.layers['cluster_id'] == l, 'height_base'].iloc[0]) for l in lids)
            ms = sep(grow['height_base'])
            # only when no sub-layers were re-merged: as many layers as the mixture model distinguishes (2 of 2, 3 of 3):
            # ncomp == number of layers is what we can observe; a re-merge shows as ncomp < components tried, not observable here
            for a, b in zip(lb, lb[1:]):
                # "no sub-layers re-merged" is observable only for 3 of 3 components, or for the designed two-sub-layer scenes
                # (a 2-layer split there comes from the 2-component model: nothing re-merged)
                if b - a < ms - 1e-9 and (int(grow['ncomp']) == 3 or kind in (4, 7) or _two_distinct(data, grow)
                                          or (kind == 8 and _raw_ncomp(chunk, grow) == int(grow['ncomp']))):
                    fails.append(f'layers of group {grow["cluster_id"]} at {a:.1f} and {b:.1f} ft are {b-a:.1f} ft apart, minimum {ms}')
    return desc, prms, fails, None


def _two_distinct(data, grow):
    """a 2-layer split of a group with exactly two distinct heights can only come from a 2-component model (no re-merge)"""
    hs = data.loc[data['group_id'] == grow['cluster_id'], 'height'].dropna().unique()
    return len(hs) == 2


def _worker(a):
    return check(*a)


def bounded(run):
    from pyvc.runner import _pool_map
    n = 90 if run.tier == 'quick' else 2400
    tasks = [(k, run.seed) for k in range(n)]
    res = _pool_map(_worker, tasks)
    failures, crashed, shapes = [], 0, set()
    for (k, _), (desc, prms, fails, crash) in zip(tasks, res):
        if crash:
            crashed += 1
            continue
        shapes.add(desc['layout'])
        for f in fails[:3]:
            failures.append({'obligation': 'bounded.C06.separation', 'scene': desc, 'prms': prms, 'what': f,
                             'rerun': f'cd /verif && PYTHONPATH=${{PYVC_REPO_SRC:-/repo/src}}:/verif .venv312/bin/python -m bounded.c06 {k} {run.seed}'})
    return {'label': 'B (bounded, never counted as proved)', 'bound': f'{n} scenes (close decks across separation bins, 3 row orders) x look-back x exclusion, seed {run.seed}',
            'scenes': n, 'distinct_scene_shapes': len(shapes), 'scenes_crashing_in_pipeline (see C08)': crashed,
            'failures': failures[:5], 'n_failures': len(failures)}


if __name__ == '__main__':
    import sys
    desc, prms, fails, crash = check(int(sys.argv[1]), int(sys.argv[2]))
    print(desc, prms, crash)
    for f in fails:
        print('FAIL', f)
    sys.exit(1 if fails else 0)
