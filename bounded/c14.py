"""B stand-in / witness builder for C14: all call sequences up to a bounded length over the ten stage / query operations."""
import copy
import itertools
import random
import warnings

import numpy as np

from .scenes import _df
from .util import digest_chunk

OPS = ['find_slices', 'find_groups', 'find_layers', "metarize('slices')", "metarize('groups')", "metarize('layers')",
       "metar_msg('slices')", "metar_msg('groups')", "metar_msg('layers')", 'metar_msg()']


def scenes14(j, seed):
    rng = random.Random(seed * 7 + j)
    rows = []
    if j == 3:       # overlapping (non-isolated) slices: the canonical demo data of ampycloud itself
        from ampycloud.utils import mocker
        with warnings.catch_warnings():
            warnings.simplefilter('ignore')
            return mocker.canonical_demo_data()
    if j == 0:       # groups get merged: two close decks, alternating
        for i in range(120):
            rows.append(('A', -900 + 7.5 * i, (2500 if i % 2 else 2700) + rng.gauss(0, 5), 1))
    elif j == 1:     # a group is split in two layers + a second group (ids not in height order)
        for i in range(80):
            rows.append(('A', -900 + 11 * i, (9000 if i % 2 else 9450) + rng.gauss(0, 30), 1))
            if i % 3 == 0:
                rows.append(('A', -900 + 11 * i, 12500 + rng.gauss(0, 20), 2))
    else:            # plain two decks + sparse low layer
        for i in range(60):
            rows.append(('A', -900 + 15 * i, 3000 + rng.gauss(0, 20), 1))
            if i % 2:
                rows.append(('B', -895 + 15 * i, 6000 + rng.gauss(0, 20), 1))
            else:
                rows.append(('B', -895 + 15 * i, np.nan, 0))
    return _df(rows)


def state(chunk):
    out = []
    for name in ('slices', 'groups', 'layers'):
        t = getattr(chunk, name)
        out.append(None if t is None else [(c, [repr(v) for v in t[c].tolist()]) for c in t.columns])
    d = chunk.data
    out.append([(c, [repr(v) for v in d[c].tolist()]) for c in ('slice_id', 'group_id', 'layer_id') if c in d.columns])
    msgs = []
    for w in ('slices', 'groups', 'layers'):
        try:
            msgs.append(chunk.metar_msg(w))
        except Exception as e:
            msgs.append(type(e).__name__)
    out.append(msgs)
    return repr(out)


def apply(chunk, op):
    if op.startswith('metarize'):
        return chunk.metarize(op.split("'")[1])
    if op.startswith('metar_msg'):
        return chunk.metar_msg(op.split("'")[1]) if "'" in op else chunk.metar_msg()
    return getattr(chunk, op)()


def check(j, seqs, seed):
    from ampycloud.data import CeiloChunk
    from ampycloud.errors import AmpycloudError
    df = scenes14(j, seed)
    fails = []
    with warnings.catch_warnings():
        warnings.simplefilter('ignore')
        canon = CeiloChunk(df)
        canon.find_slices(); s1 = state(canon)
        canon.find_groups(); s2 = state(canon)
        canon.find_layers(); s3 = state(canon)
        canon_states = {0: None, 1: s1, 2: s2, 3: s3}
        for seq in seqs:
            chunk = CeiloChunk(df)
            level = 0          # how far the canonical run has progressed on this chunk
            for i, op in enumerate(seq):
                before = state(chunk)
                try:
                    apply(chunk, op)
                except AmpycloudError:
                    if state(chunk) != before:
                        fails.append(f'{" -> ".join(seq[:i+1])}: refused call changed tables / assignments / message')
                        break
                    continue
                except Exception as e:
                    fails.append(f'{" -> ".join(seq[:i+1])}: {type(e).__name__}: {str(e)[:60]}')
                    break
                if op == 'find_slices' and level == 0:
                    level = 1
                elif op == 'find_groups' and level == 1:
                    level = 2
                elif op == 'find_layers' and level == 2:
                    level = 3
                exp = canon_states[level]
                if exp is not None and state(chunk) != exp:
                    fails.append(f'{" -> ".join(seq[:i+1])}: accepted call left a state different from the canonical run at level {level}')
                    break
    # one witness per kind of failure (last operation + what went wrong), so that a listed known finding cannot crowd out a new one
    kinds = {}
    for f in fails:
        seq, why = f.split(': ', 1)
        kinds.setdefault((seq.split(' -> ')[-1], why[:50]), f)
    return list(kinds.values())


def query_orders(seed):
    """queries are read-only: whatever the order (and repetition) in which the three levels are asked for their message, each answer
    is the one a freshly processed chunk gives when asked only that.  Scenes where the levels disagree: sparse decks that are 0 okta
    as slices and 1 okta once merged into a group, around / inside the MSA buffer zone."""
    from ampycloud.data import CeiloChunk
    rng = random.Random(seed * 11 + 5)
    fails = []
    levels = ['slices', 'groups', 'layers']
    for variant in range(4):
        dts = [-870. + 30 * i for i in range(30)]
        rows = {(c, t): (np.nan, 0) for c in 'AB' for t in dts}
        lo = rng.choice([3000., 1200., 3000., 5000.])
        for c, h0 in (('A', lo), ('B', lo + 240.)):
            for t in rng.sample(dts, 3):
                rows[(c, t)] = (h0 + rng.uniform(0, 20), 1)
        df = _df([(c, t, h, ty) for (c, t), (h, ty) in rows.items()])
        prms = [{'MSA': 2500, 'MSA_HIT_BUFFER': 1500}, {'MSA': 2500, 'MSA_HIT_BUFFER': 0}, {'MSA': None}, {'MSA': 5100, 'MSA_HIT_BUFFER': 200}][variant]

        def processed():
            c = CeiloChunk(df, prms=dict(prms))
            c.find_slices(); c.find_groups(); c.find_layers()
            return c
        with warnings.catch_warnings():
            warnings.simplefilter('ignore')
            try:
                alone = {w: processed().metar_msg(w) for w in levels}
                flag0 = processed().clouds_above_msa_buffer
                for order in itertools.product(levels, repeat=3):
                    c = processed()
                    for i, w in enumerate(order):
                        m = c.metar_msg(w)
                        if m != alone[w]:
                            fails.append(f"queries {list(order[:i + 1])}: metar_msg('{w}') -> '{m}' instead of '{alone[w]}' (prms {prms})")
                            break
                    if c.clouds_above_msa_buffer != flag0:
                        fails.append(f'queries {list(order)}: the high-cloud flag changed from {flag0} to {c.clouds_above_msa_buffer} (prms {prms})')
            except Exception as e:
                fails.append(f'query-order scene {variant}: {type(e).__name__}: {str(e)[:80]}')
    kinds = {}
    for f in fails:
        kinds.setdefault(f.split(': ', 1)[1][:40], f)
    return list(kinds.values())


def _worker(a):
    if a[0] == 'queries':
        return query_orders(a[2])
    return check(*a)


def bounded(run):
    from pyvc.runner import _pool_map
    L = 3 if run.tier == 'quick' else 4
    allseq = [s for n in range(1, L + 1) for s in itertools.product(OPS, repeat=n)]
    rng = random.Random(run.seed)
    # every sequence of length <= L on each of the 3 scenes (quick: prefixes of the canonical order are always in front)
    extra = [('find_slices', 'find_groups', 'find_layers') + s for s in itertools.product(OPS, repeat=2)]
    seqs = allseq + extra
    chunks = [seqs[i::15] for i in range(15)]
    tasks = [(j, ch, run.seed) for j in range(4) for ch in chunks] + [('queries', None, run.seed)]
    res = _pool_map(_worker, tasks)
    failures = []
    for (j, ch, _), fails in zip(tasks, res):
        for f in fails:
            if j == 'queries':
                failures.append({'obligation': 'bounded.C14.query_order', 'scene': 'sparse decks around the MSA', 'what': f,
                                 'rerun': 'cd /verif && ./check C14'})
                continue
            failures.append({'obligation': 'bounded.C14.sequences', 'scene': f'scenes14({j})', 'what': f,
                             'rerun': 'cd /verif && PYTHONPATH=${PYVC_REPO_SRC:-/repo/src}:/verif .venv312/bin/python -m bounded.c14 ' + str(j) + ' "' + f.split(':')[0] + '"'})
    return {'label': 'B (bounded, never counted as proved)',
            'bound': f'all {len(allseq)} call sequences of length <= {L} over the 10 operations + {len(extra)} continuations of the canonical run, on 4 scenes (merge, split, plain, overlapping slices); all 27 orders of 3 message queries on 4 scenes where the levels disagree',
            'sequences': len(seqs) * 4, 'exhaustive_up_to_length': L, 'failures': _one_per_kind(failures), 'n_failures': len(failures)}


def _one_per_kind(failures):
    kinds = {}
    for f in failures:
        seq, why = f['what'].split(': ', 1)
        kinds.setdefault((seq.split(' -> ')[-1], why[:50]), f)
    return list(kinds.values())


if __name__ == '__main__':
    import sys
    seq = tuple(x.strip() for x in sys.argv[2].split('->'))
    f = check(int(sys.argv[1]), [seq], 0)
    for x in f:
        print('FAIL', x)
    sys.exit(1 if f else 0)
