"""B stand-in / witness builder for C01 and C02: the message of a real run against an independent reading of the tables.

Everything is recomputed from what the property statements name -- the hits, the listed sets (okta, base), the MSA settings -- and
not from the `significant` / `code` columns: the oktas are recounted from the hits, the 1-3-5 selection is re-derived here."""
import re

import numpy as np

from .scenes import scene, prms_variant, _df
from .util import run_quiet

GROUP = re.compile(r'^(FEW|SCT|BKN|OVC)(\d{3})$')
ABBR = {1: 'FEW', 2: 'FEW', 3: 'SCT', 4: 'SCT', 5: 'BKN', 6: 'BKN', 7: 'BKN', 8: 'OVC'}


def sparse_multi_hit(k, seed):
    """a sparse deck seen through multi-hit measurements (several rows per (ceilometer, time)): few measurements, more rows"""
    import random
    rng = random.Random(seed * 53 + k)
    nt = rng.choice([30, 40, 60])
    rows = []
    hit_steps = rng.sample(range(nt), rng.choice([1, 2, 3]))
    for t in range(nt):
        if t in hit_steps:
            base = rng.choice([1500, 3000, 12000]) + rng.uniform(0, 30)
            for ty in range(1, rng.choice([2, 3, 4]) + 1):
                rows.append(('A', -30.0 * t, base + 40 * (ty - 1), ty))
        else:
            rows.append(('A', -30.0 * t, np.nan, 0))
    return _df(rows), {'k': k, 'seed': seed, 'layout': 'sparse_multi_hit', 'ceilos': ['A'], 'rows': len(rows)}


def high_second_hits(k, seed):
    """non-detections everywhere except a few measurements whose hits (types 1..3) lie above MSA + buffer or just below"""
    import random
    rng = random.Random(seed * 59 + k)
    nt = rng.choice([40, 80])
    rows = []
    steps = rng.sample(range(nt), rng.choice([2, 3, 4, 5]))
    for t in range(nt):
        if t in steps:
            if k % 2 and rng.random() < 0.7:
                # a vertical-visibility hit (type -1) above the limit is a hit above the limit like any other
                rows.append(('A', -30.0 * t, 14000.0 + rng.uniform(0, 20), -1))
                continue
            rows.append(('A', -30.0 * t, rng.choice([1000.0, 14000.0]) + rng.uniform(0, 20), 1))
            rows.append(('A', -30.0 * t, 14000.0 + rng.uniform(100, 200), 2))
            if rng.random() < 0.6:
                rows.append(('A', -30.0 * t, 16000.0 + rng.uniform(0, 100), 3))
        else:
            rows.append(('A', -30.0 * t, np.nan, 0))
    return _df(rows), {'k': k, 'seed': seed, 'layout': 'high_second_hits', 'ceilos': ['A'], 'rows': len(rows)}


def flat_deck_at_the_msa(k, seed):
    """every hit of two instruments at one height H; the MSA is set to exactly H (and the buffer to 0 or more): the deck's base is AT
    the MSA, hence not reportable"""
    import random
    rng = random.Random(seed * 61 + k)
    H = float(rng.choice([5000, 1500, 9900, 300]))
    rows = [(c, -1200.0 + 30.0 * t + j, H, 1) for j, c in enumerate(('A', 'B')) for t in range(40)]
    return _df(rows), {'k': k, 'seed': seed, 'layout': f'flat_deck_at_the_msa({H})', 'ceilos': ['A', 'B'], 'rows': len(rows), 'H': H}


def stray_hits_only(k, seed):
    """non-detections but for one or two stray hits (no set reaches 1 okta): with a zero / negative MSA nothing is cloud"""
    import random
    rng = random.Random(seed * 71 + k)
    rows = [('A', -30.0 * t, np.nan, 0) for t in range(40)]
    for t in rng.sample(range(40), rng.choice([1, 2])):
        rows[t] = ('A', -30.0 * t, 800.0 + rng.uniform(0, 30), 1)
    return _df(rows), {'k': k, 'seed': seed, 'layout': 'stray_hits_only', 'ceilos': ['A'], 'rows': len(rows)}


def strays_in_the_buffer_zone(k, seed):
    """non-detections but for a few stray hits between the MSA and MSA + buffer (kept, 0 okta) and a few above MSA + buffer (cropped):
    only the cropped ones count towards the high-cloud flag"""
    import random
    rng = random.Random(seed * 101 + k)
    rows = [('A', -30.0 * t, np.nan, 0) for t in range(40)]
    ts = rng.sample(range(40), 4)
    for t in ts[:2]:
        rows[t] = ('A', -30.0 * t, 5000.0 + rng.uniform(300, 1400), 1)
    for t in ts[2:]:
        rows[t] = ('A', -30.0 * t, 7000.0 + rng.uniform(0, 2000), 1)
    return _df(rows), {'k': k, 'seed': seed, 'layout': 'strays_in_the_buffer_zone', 'ceilos': ['A'], 'rows': len(rows)}


def okta_from_hits(data, idcol, cid, max_hits, max0, max8):
    from ampycloud import wmo
    sub = data[data[idcol] == cid]
    n = len(set(zip(sub['ceilo'].astype(str), sub['dt'])))
    if n <= max0:
        return 0, n
    if max_hits - n <= max8:
        return 8, n
    return int(wmo.perc2okta(n / max_hits * 100)[0]), n


def check(k, seed):
    from ampycloud import wmo
    if k % 14 == 13:
        df, desc = strays_in_the_buffer_zone(k, seed)
    elif k % 14 == 4:
        df, desc = flat_deck_at_the_msa(k, seed)
    elif k % 14 == 11:
        df, desc = stray_hits_only(k, seed)
    elif k % 7 == 3:
        df, desc = sparse_multi_hit(k, seed)
    elif k % 7 == 5:
        df, desc = high_second_hits(k, seed)
    else:
        df, desc = scene(k, seed)
    prms = prms_variant(k, seed)
    if k % 7 == 5:
        prms.update({'MSA': 10000, 'MSA_HIT_BUFFER': 1500, 'MAX_HITS_OKTA0': 3})
    if k % 7 == 3:
        prms.setdefault('MAX_HITS_OKTA0', 3)
    if k % 14 == 4:
        prms = {'MSA': desc['H'], 'MSA_HIT_BUFFER': [0, 0, 500, 1500][(k // 14) % 4]}
    if k % 14 == 13:
        prms = {'MSA': 5000, 'MSA_HIT_BUFFER': 1500, 'MAX_HITS_OKTA0': 3}
    if k % 14 == 11:
        prms = {'MSA': [0, -30, 0, 5000][(k // 14) % 4], 'MAX_HITS_OKTA0': 3}
    fails = []
    if k % 7 in (1, 2):
        # an MSA just above / at / just below the base of a listed layer, not a multiple of 100 ft (the MSA is given in ft above the
        # aerodrome: any value is legal)
        import random
        rng = random.Random(seed * 67 + k)
        try:
            prelim = run_quiet(df, {kk: v for kk, v in prms.items() if kk not in ('MSA', 'MSA_HIT_BUFFER')})
            bases = [float(b) for b in prelim.layers['height_base']]
        except Exception:
            bases = []
        if bases:
            prms = dict(prms)
            prms['MSA'] = rng.choice(bases) + rng.choice([19.0, 1.0, 71.0, 0.0, -1.0, 99.0])
            prms['MSA_HIT_BUFFER'] = rng.choice([0, 500, 1500])
            if prms['MSA'] < 0:
                prms['MSA'] = 0.0
    try:
        chunk = run_quiet(df, prms)
    except Exception as e:
        return desc, prms, [], type(e).__name__
    P = chunk.prms
    msa = P['MSA']
    lim = None if msa is None else msa + P['MSA_HIT_BUFFER']
    max0, max8 = P['MAX_HITS_OKTA0'], P['MAX_HOLES_OKTA8']
    data = chunk.data
    max_hits = len(set(zip(data['ceilo'].astype(str), data['dt'])))
    src = df.reset_index(drop=True)
    n_above = 0 if lim is None else int(((src['height'] > lim)).sum())
    flag_expected = n_above > max0
    for which, idcol in (('slices', 'slice_id'), ('groups', 'group_id'), ('layers', 'layer_id')):
        tab = getattr(chunk, which)
        msg = chunk.metar_msg(which)
        # the listed sets, read independently: okta recounted from the hits, base as listed, in ascending base order
        sets = []
        for _, row in tab.iterrows():
            okta, n = okta_from_hits(data, idcol, int(row['cluster_id']), max_hits, max0, max8)
            sets.append((float(row['height_base']), okta))
        sets.sort(key=lambda x: x[0])
        # ICAO 1-3-5 selection over all listed sets, lowest first
        sig, level = [], 1
        for base, okta in sets:
            if len(sig) < 3 and okta >= level:
                sig.append((base, okta))
                level += 2
        report = [(b, o) for b, o in sig if msa is None or b < msa]
        expected = ' '.join(ABBR[o] + wmo.height2code(b) for b, o in report)
        tag = f'{which}: message "{msg}"'
        # ---- C01: grammar and selection
        if msg not in ('NCD', 'NSC'):
            groups = msg.split(' ')
            if not (1 <= len(groups) <= 3 and all(GROUP.match(g) for g in groups)):
                fails.append(f'{tag} is not NCD, NSC or one to three groups')
                continue
            hs = [int(GROUP.match(g).group(2)) for g in groups]
            if hs != sorted(hs):
                fails.append(f'{tag}: heights not in non-decreasing order')
            if len(groups) > 1 and groups[1][:3] == 'FEW':
                fails.append(f'{tag}: second group below SCT')
            if len(groups) > 2 and groups[2][:3] in ('FEW', 'SCT'):
                fails.append(f'{tag}: third group below BKN')
        if report:
            if msg != expected:
                fails.append(f'{tag} but the listed sets (oktas recounted from the hits: {sets}, MSA {msa}) give "{expected}"')
        else:
            cloud_above = any(True for b, o in sig if msa is not None and b >= msa)
            want = 'NSC' if (cloud_above or flag_expected) else 'NCD'
            if msg != want:
                fails.append(f'{tag} but nothing is reportable, {n_above} hit(s) above MSA+buffer (MAX_HITS_OKTA0={max0}), '
                             f'significant set at/above the MSA: {cloud_above} => "{want}"')
        # ---- C02: lowest layer first, ceiling kept
        below = [(b, o) for b, o in sets if o >= 1 and (msa is None or b < msa)]
        if below:
            first = ABBR[below[0][1]] + wmo.height2code(below[0][0])
            if not msg.startswith(first):
                fails.append(f'{tag}: first group is not the lowest set of 1 okta or more below the MSA ({first})')
            ceil = next(((b, o) for b, o in below if o >= 5), None)
            if ceil is not None and (ABBR[ceil[1]] + wmo.height2code(ceil[0])) not in msg.split(' '):
                fails.append(f'{tag}: the ceiling {ABBR[ceil[1]] + wmo.height2code(ceil[0])} is not among the groups')
    return desc, prms, fails, None


def _worker(a):
    return check(*a)


def bounded(run, pid='C01'):
    from pyvc.runner import _pool_map
    n = 120 if run.tier == 'quick' else 2500
    tasks = [(k, run.seed) for k in range(n)]
    res = _pool_map(_worker, tasks)
    failures, crashed, shapes = [], 0, set()
    for (k, _), (desc, prms, fails, crash) in zip(tasks, res):
        if crash:
            crashed += 1
            continue
        shapes.add((desc['layout'], len(desc['ceilos']), desc['rows']))
        for f in fails[:3]:
            failures.append({'obligation': f'bounded.{pid}.message', 'scene': desc, 'prms': prms, 'what': f,
                             'rerun': f'cd /verif && PYTHONPATH=${{PYVC_REPO_SRC:-/repo/src}}:/verif .venv312/bin/python -m bounded.c01 {k} {run.seed}'})
    return {'label': 'B (bounded, never counted as proved)',
            'bound': f'{n} scenes (scene grammar + sparse multi-hit decks + high second hits) x parameter variants x 3 levels, seed {run.seed}',
            'scenes': n, 'distinct_scene_shapes': len(shapes), 'scenes_crashing_in_pipeline (see C08)': crashed,
            'failures': failures[:5], 'n_failures': len(failures)}


def bounded_c02(run):
    return bounded(run, 'C02')


if __name__ == '__main__':
    import sys
    desc, prms, fails, crash = check(int(sys.argv[1]), int(sys.argv[2]))
    print(desc, prms, crash)
    for f in fails:
        print('FAIL', f)
    sys.exit(1 if fails else 0)
