"""B stand-in / witness builder for C17: significant_cloud against an independent statement of the 1-3-5 rule, exhaustively over all
okta sequences up to a bounded length."""
import itertools
import random


def reference(oktas):
    flags, nflag = [], 0
    for o in oktas:
        f = nflag < 3 and o >= (1, 3, 5)[nflag]
        flags.append(bool(f))
        nflag += 1 if f else 0
    return flags


def bounded(run):
    from ampycloud.icao import significant_cloud
    maxlen = 4 if run.tier == 'quick' else 6
    failures, n = [], 0

    def one(seq):
        nonlocal n
        n += 1
        got = significant_cloud(list(seq))
        want = reference(seq)
        ok = list(map(bool, got)) == want and len(got) == len(seq)
        if ok and len(seq) > 0:
            # prefix independence
            ok = list(map(bool, significant_cloud(list(seq[:-1])))) == want[:-1]
        if not ok and len(failures) < 5:
            failures.append({'obligation': 'bounded.C17.rule', 'scene': {'oktas': list(seq)}, 'prms': {},
                             'what': f'significant_cloud({list(seq)}) = {list(got)}, the 1-3-5 rule gives {want}',
                             'rerun': 'cd /verif && ./check C17'})
        return ok
    bad = 0
    for L in range(0, maxlen + 1):
        for seq in itertools.product(range(9), repeat=L):
            bad += 0 if one(seq) else 1
    rng = random.Random(run.seed)
    for _ in range(2000 if run.tier == 'quick' else 50000):
        seq = tuple(rng.randint(0, 8) for _ in range(rng.randint(maxlen + 1, 12)))
        bad += 0 if one(seq) else 1
    return {'label': 'B (bounded, never counted as proved)', 'bound': f'all okta sequences over 0..8 up to length {maxlen} + sampled longer ones, seed {run.seed}',
            'sequences': n, 'failures': failures, 'n_failures': bad}
