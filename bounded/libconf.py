"""Conformance of the ASSUMED library contracts (A-LIB) on the installed numpy / pandas / ruamel / pathlib versions (label B).

One small native test per entry of the library-contract catalogue (`pyvc.lib.LIB_DOC`): the stated meaning is checked on
randomised inputs with a fixed seed.  A failing test means an assumption of the proofs is wrong on this installation: the check
that uses it reports a CHECKER ERROR (exit 3), never a violation of the property.  Keys must match LIB_DOC keys; entries of the
catalogue without a test are listed in the evidence as `untested`.
"""
import copy
import math
import os
import random
import tempfile
import warnings

import numpy as np
import pandas as pd

TESTS = {}


def t(*keys):
    def deco(f):
        for k in keys:
            TESTS[k] = f
        return f
    return deco


def _floats(rng, n, nan=0.0):
    return [float('nan') if rng.random() < nan else rng.choice([rng.uniform(-50, 120000), float(rng.randint(0, 200)), 12.5]) for _ in range(n)]


def _isnan(x):
    return isinstance(x, float) and x != x


@t('numpy.floor', 'numpy.ceil')
def _floor_ceil(rng):
    for x in _floats(rng, 200) + [0.0, -0.0, 1e15, -1.5]:
        assert np.floor(x) == math.floor(x) and np.ceil(x) == math.ceil(x)
    assert np.isnan(np.floor(float('nan'))) and np.isnan(np.ceil(np.nan))
    a = np.array(_floats(rng, 20))
    assert list(np.floor(a)) == [math.floor(v) for v in a]


@t('numpy.round')
def _round(rng):
    for x in [0.5, 1.5, 2.5, -0.5, 3.5, 6.5, 7.5] + _floats(rng, 100):
        r = np.round(x)
        assert r == round(x), (x, r)            # Python round(): ties to even as well
    assert np.round(1.23456, 3) == 1.235 and np.isnan(np.round(np.nan))


@t('numpy.isnan')
def _npisnan(rng):
    assert np.isnan(np.nan) and not np.isnan(1.0) and not np.isnan(3)
    assert list(np.isnan(np.array([1.0, np.nan]))) == [False, True]


@t('numpy.all', 'numpy.any')
def _allany(rng):
    for _ in range(50):
        b = [rng.random() < 0.5 for _ in range(rng.randint(0, 5))]
        assert bool(np.all(np.array(b, dtype=bool))) == all(b) and bool(np.any(np.array(b, dtype=bool))) == any(b)
        assert bool(np.any(b)) == any(b) and bool(np.all(b)) == all(b)


@t('numpy.isclose')
def _isclose(rng):
    from fractions import Fraction
    for _ in range(400):
        b = rng.choice([0.0, 1.0, 30000.0, -250.5, 1e-9]) if rng.random() < 0.4 else rng.uniform(-1e5, 1e5)
        a = b + rng.choice([0.0, 1e-9, -1e-9, 1e-3, 0.25, -0.3, 1e-5 * abs(b) * rng.uniform(0.5, 1.5)])
        want = abs(Fraction(a) - Fraction(b)) <= Fraction(1, 10**8) + Fraction(1, 10**5) * abs(Fraction(b))
        margin = abs(abs(a - b) - (1e-8 + 1e-5 * abs(b)))
        if margin > 1e-12 * (1 + abs(b)):          # (away from the rounding of the threshold itself)
            assert bool(np.isclose(a, b)) == want, (a, b)
    assert not np.isclose(float('nan'), 1.0) and not np.isclose(1.0, float('nan')) and not np.isclose(float('nan'), float('nan'))


@t('numpy.sort', 'numpy.argsort', 'numpy.unique')
def _sorting(rng):
    for k in (1, 2, 3, 4):
        for _ in range(60):
            xs = [rng.choice([0.0, 1.5, -2.0, 250.0, 1e9]) if rng.random() < 0.5 else rng.uniform(-1e4, 1e4) for _ in range(k)]
            s_, p_ = np.sort(xs), np.argsort(xs)
            assert list(s_) == sorted(xs)
            assert sorted(int(j) for j in p_) == list(range(k)) and all(xs[int(p_[j])] == s_[j] for j in range(k))
            # masked relabelling + in-place store of an argsort result (what the re-merge pass of ncomp_from_gmm does)
            q_ = np.argsort(xs)
            if k > 1:
                q_[1] = q_[0]
                assert q_[1] == q_[0]
    for _ in range(60):
        K = rng.choice([2, 3])
        a = np.array([rng.randrange(K) for _ in range(rng.randrange(1, 30))])
        assert len(np.unique(a)) == sum(1 for v in range(K) if (a == v).any())
        b = a.copy()
        b[b == 1] = 0
        assert all((b[r] == (0 if a[r] == 1 else a[r])) for r in range(len(a)))
        v2 = np.array([float(x) for x in a]).reshape(-1, 1)
        sel = v2[a == 0].flatten()
        assert sel.ndim == 1 and list(sel) == [float(x) for x in a if x == 0]


@t('numpy.array', 'numpy.full_like', 'numpy.zeros', 'numpy.concatenate', 'numpy.cumsum', 'numpy.diff', 'numpy.sum')
def _arrays(rng):
    assert list(np.array([3.5])) == [3.5]
    a = np.array(_floats(rng, 7))
    f = np.full_like(a, np.nan, dtype=float)
    assert len(f) == len(a) and all(np.isnan(f)) and f.dtype == float
    assert list(np.zeros(4)) == [0.0] * 4
    xs = _floats(rng, 5)
    assert list(np.diff(xs)) == [xs[j + 1] - xs[j] for j in range(4)] and len(np.diff([1.0])) == 0 and len(np.diff([])) == 0
    assert list(np.concatenate((np.array([1.0, 2.0]), np.array([3.0])))) == [1.0, 2.0, 3.0]
    acc, run = [], 0.0
    for v in xs:
        run += v
        acc.append(run)
    assert np.allclose(np.cumsum(xs), acc) and abs(np.sum(xs) - sum(xs)) < 1e-6 and np.sum(np.array([])) == 0.0
    assert np.sum([2, 3, 4]) == 9


@t('numpy.nanmax', 'numpy.nanmin', 'numpy.nanmean')
def _nanred(rng):
    for _ in range(100):
        xs = _floats(rng, rng.randint(1, 8), nan=0.4)
        good = [v for v in xs if not _isnan(v)]
        with warnings.catch_warnings():
            warnings.simplefilter('ignore')
            mx, mn, me = np.nanmax(xs), np.nanmin(xs), np.nanmean(xs)
        if good:
            assert mx == max(good) and mn == min(good) and mn - 1e-9 <= me <= mx + 1e-9
        else:
            assert np.isnan(mx) and np.isnan(mn) and np.isnan(me)


@t('numpy.ndarray[a:b]')
def _slices(rng):
    for _ in range(200):
        a = np.arange(rng.randint(0, 8))
        i, j = rng.randint(-10, 10), rng.choice([None, rng.randint(-10, 10)])
        assert list(a[i:j]) == list(range(len(a)))[i:j]
    a = np.arange(5)
    assert list(a[-0:]) == [0, 1, 2, 3, 4]


@t('numpy.percentile')
def _percentile(rng):
    for _ in range(200):
        xs = _floats(rng, rng.randint(1, 9))
        q = rng.choice([0, 100, 50, 5, 95, rng.uniform(0, 100)])
        p = np.percentile(xs, q)
        assert min(xs) - 1e-9 <= p <= max(xs) + 1e-9
        ys = xs[:]
        rng.shuffle(ys)
        assert abs(np.percentile(ys, q) - p) <= 1e-9 * max(1.0, abs(p))
    assert np.percentile([3.0, 1.0, 2.0], 0) == 1.0 and np.percentile([3.0, 1.0, 2.0], 100) == 3.0
    try:
        np.percentile(np.array([]), 50)
        raise AssertionError('percentile of an empty array did not raise')
    except IndexError:
        pass


@t('numpy.searchsorted')
def _searchsorted(rng):
    for _ in range(200):
        a = sorted(_floats(rng, rng.randint(0, 6)))
        v = rng.choice(a + [rng.uniform(-100, 130000)]) if a else 1.0
        k = int(np.searchsorted(a, v))
        assert 0 <= k <= len(a) and all(x < v for x in a[:k]) and all(x >= v for x in a[k:])


@t('numpy.random.get_state', 'numpy.random.seed', 'numpy.random.set_state')
def _rng(rng):
    s0 = np.random.get_state()
    try:
        np.random.seed(12)
        a = np.random.get_state()
        np.random.random(3)
        np.random.seed(12)
        b = np.random.get_state()
        assert a[0] == b[0] and (a[1] == b[1]).all() and a[2:] == b[2:]
        np.random.normal()
        st = np.random.get_state()
        x = np.random.random(4)
        np.random.set_state(st)
        assert (np.random.random(4) == x).all()
    finally:
        np.random.set_state(s0)
    s1 = np.random.get_state()
    assert s0[0] == s1[0] and (s0[1] == s1[1]).all() and s0[2:] == s1[2:]


@t('copy.deepcopy', 'pandas (input frame)')
def _deepcopy(rng):
    d = {'a': {'b': [1, 2]}, 'c': 3}
    e = copy.deepcopy(d)
    e['a']['b'].append(9)
    e['a']['x'] = 1
    assert d == {'a': {'b': [1, 2]}, 'c': 3}
    df = pd.DataFrame({'h': [1.0, np.nan], 't': [1, 0]})
    g = copy.deepcopy(df)
    g.loc[0, 'h'] = 5.0
    assert df.loc[0, 'h'] == 1.0 and list(g.index) == list(df.index)
    assert 'h' in df.columns and 'z' not in df.columns
    s = pd.Series([1.0, 2.0]).astype(int)
    assert s.dtype == int and list(s) == [1, 2]


@t('dict')
def _dict(rng):
    d = {'a': 1, 'b': {'c': 2}}
    assert 'a' in d.keys() and 'z' not in d.keys() and [k for k, _ in d.items()] == ['a', 'b']
    inner = d['b']
    inner['c'] = 5                      # reference semantics: the nested object is reached through its parent
    assert d['b']['c'] == 5
    d['a'] = 7
    assert list(d.keys()) == ['a', 'b'] and d['a'] == 7


@t('pandas.DataFrame')
def _newframe(rng):
    pdf = pd.DataFrame(index=range(3), columns=['x', 'y'])
    assert list(pdf.index) == [0, 1, 2] and list(pdf.columns) == ['x', 'y'] and pdf.isna().all().all()
    assert isinstance(pdf.index, pd.RangeIndex)


def _hits(rng, n, labels=None):
    df = pd.DataFrame({'ceilo': [rng.choice('AB') for _ in range(n)], 'dt': [float(-i) for i in range(n)],
                       'height': _floats(rng, n, nan=0.3), 'type': [rng.randint(0, 3) for _ in range(n)]})
    if labels is not None:
        df.index = labels
    return df


@t('pandas.DataFrame.<col> / [col]', 'pandas.DataFrame.__getitem__(str)', 'pandas.Series & Series', 'pandas.Series.__mul__(bool)',
   'pandas.Series.__lt__/__ge__(scalar)', 'pandas.Series.notna()', 'pandas.Series.any', 'pandas.Series.sum() of booleans',
   'pandas.Series.to_list', 'pandas.Series.apply(f)', 'pandas.Series.astype')
def _series_basics(rng):
    for _ in range(30):
        n = rng.randint(1, 8)
        df = _hits(rng, n)
        assert list(df['height'].fillna(-1)) == list(df.height.fillna(-1)) and len(df['height']) == n
        m1, m2 = df['height'] > 1000, df['type'] <= 1
        assert list(m1 & m2) == [a and b for a, b in zip(m1, m2)] == list(m1 * m2)
        assert list(m1) == [(h > 1000) if h == h else False for h in df['height']]          # NaN compares False
        assert list(df['height'] >= 5) == [(h >= 5) if h == h else False for h in df['height']]
        assert list(df['height'].notna()) == [h == h for h in df['height']]
        assert bool(m1.any()) == any(m1) and int(m1.sum()) == sum(map(bool, m1))
        assert df['type'].to_list() == [int(v) for v in df['type']] and all(type(v) is int for v in df['type'].to_list())
        assert list(df['ceilo'].apply(lambda c: c != 'A')) == [c != 'A' for c in df['ceilo']]
        assert list(df['type'].astype(int)) == list(df['type']) and list(df['dt'].astype(float)) == list(df['dt'])


@t('pandas.DataFrame[bool Series].index', 'len(Index)', 'pandas.DataFrame.loc[labels, col] = v', 'pandas.DataFrame.drop(labels)',
   'pandas.DataFrame.reset_index(drop=True)')
def _label_semantics(rng):
    for _ in range(60):
        n = rng.randint(1, 8)
        labels = [rng.randint(0, 3) for _ in range(n)]                # repeated labels on purpose
        df = _hits(rng, n, labels)
        mask = df['type'] > 1
        lab = df[mask].index
        assert list(lab) == [l for l, m in zip(labels, mask) if m] and len(lab) == int(mask.sum())
        d2 = df.copy()
        d2.loc[lab, 'type'] = 9
        hit = set(lab)
        assert list(d2['type']) == [9 if l in hit else t0 for l, t0 in zip(labels, df['type'])]           # EVERY row sharing a label
        d3 = df.drop(lab)
        keep = [i for i, l in enumerate(labels) if l not in hit]
        assert list(d3['dt']) == [df['dt'].iloc[i] for i in keep] and list(d3.index) == [labels[i] for i in keep]
        d4 = df.reset_index(drop=True)
        assert list(d4.index) == list(range(n)) and list(d4['dt']) == list(df['dt']) and list(d4.columns) == list(df.columns)
        d5 = d3.reset_index(drop=True)
        assert list(d5.index) == list(range(len(keep)))


@t('pandas.DataFrame.iloc/loc/at[row, col]', 'pandas.Series.iloc[int]', 'pandas.DataFrame.loc[:, col] = list', 'pandas.DataFrame.loc[:, col] = scalar',
   'pandas.DataFrame.sort_values+reset_index', 'pandas.DataFrame.drop(index=k, inplace=True)', 'pandas.Series.diff()',
   'pandas.Series < Series (same table)', 'pandas.Series.fillna(False) of a bool Series', 'pandas.DataFrame[bool Series]',
   'pandas.Series.apply(pure method)')
def _tables(rng):
    for _ in range(40):
        n = rng.randint(1, 7)
        t_ = pd.DataFrame(index=range(n), columns=['a', 'b', 'c'])
        vals = _floats(rng, n)
        for i, v in enumerate(vals):
            t_.iloc[i, t_.columns.get_loc('a')] = v
            t_.loc[i, 'b'] = i
        t_.at[0, 'c'] = True
        assert list(t_['a']) == vals and list(t_['b']) == list(range(n)) and t_['c'].isna().sum() == n - 1
        assert t_['a'].iloc[0] == vals[0] and t_['a'].iloc[-1] == vals[-1]
        t_['a'] = t_['a'].astype(float)
        t_.loc[:, 'c'] = [bool(i % 2) for i in range(n)]
        assert list(t_['c']) == [bool(i % 2) for i in range(n)]
        t_.loc[:, 'd'] = -1
        assert list(t_['d']) == [-1] * n
        s_ = t_.copy()
        s_.sort_values('a', inplace=True)
        s_.reset_index(drop=True, inplace=True)
        assert list(s_['a']) == sorted(vals) and sorted(s_['b']) == list(range(n)) and list(s_.index) == list(range(n))
        assert all(vals[int(b)] == a for a, b in zip(s_['a'], s_['b']))                   # rows move as a whole
        d = s_['a'].diff()
        assert np.isnan(d.iloc[0]) and all(abs(d.iloc[k] - (s_['a'].iloc[k] - s_['a'].iloc[k - 1])) < 1e-9 for k in range(1, n))
        thr = s_['a'].apply(lambda v: 100.0)
        flags = (d < thr).fillna(False)
        assert list(flags) == [False] + [bool(d.iloc[k] < 100.0) for k in range(1, n)]
        sel = s_[flags]
        assert len(sel) == int(flags.sum()) and (len(sel) == 0 or sel.index[0] == list(flags).index(True))
        if n > 1:
            k = rng.randrange(n)
            u = s_.copy()
            u.drop(index=k, inplace=True)
            assert list(u['b']) == [b for i, b in enumerate(s_['b']) if i != k]
            u.reset_index(drop=True, inplace=True)
            assert list(u.index) == list(range(n - 1))


@t('pandas.Series.__getitem__(bool Series)', 'pandas.Series[bool Series] / len', 'pandas.DataFrame.loc[bool Series, col]',
   'pandas.Series.min/max(skipna=True)', 'pandas.Series.mean(skipna=True)', 'pandas.Series.std(skipna=True)',
   'pandas.DataFrame.loc[bool Series, [cols]].values', 'pandas.DataFrame[[cols]][bool Series].to_numpy()',
   'pandas.DataFrame.loc[bool Series, [col]] = scalar / array')
def _selections(rng):
    for _ in range(60):
        n = rng.randint(1, 9)
        df = _hits(rng, n)
        mask = df['type'] >= 1
        k = int(mask.sum())
        sel = df['height'][mask]
        assert len(sel) == k and list(sel.fillna(-7)) == [(-7 if h != h else h) for h, m in zip(df['height'], mask) if m]
        col = df.loc[mask, 'height']
        good = [h for h, m in zip(df['height'], mask) if m and h == h]
        with warnings.catch_warnings():
            warnings.simplefilter('ignore')
            mn, mx, me, sd = col.min(skipna=True), col.max(skipna=True), col.mean(skipna=True), col.std(skipna=True)
        if good:
            assert mn == min(good) and mx == max(good) and mn - 1e-9 <= me <= mx + 1e-9
        else:
            assert np.isnan(mn) and np.isnan(mx) and np.isnan(me)
        assert np.isnan(sd) or sd >= 0
        if len(good) < 2:
            assert np.isnan(sd)
        v = df.loc[mask, ['dt', 'height']].values
        w = df[['dt', 'height']][mask].to_numpy()
        assert v.shape == (k, 2) and w.shape == (k, 2) and list(v[:, 0]) == [d for d, m in zip(df['dt'], mask) if m] == list(w[:, 0])
        d2 = df.copy()
        d2.loc[:, 'sid'] = -1
        d2.loc[mask, ['sid']] = 1
        assert list(d2['sid']) == [1 if m else -1 for m in mask]
        labels_ = np.arange(10, 10 + k)
        d2.loc[mask, ['sid']] = labels_
        it = iter(labels_)
        assert list(d2['sid']) == [int(next(it)) if m else -1 for m in mask]                  # k-th value to the k-th selected row
        if k != 3:
            try:
                d2.loc[mask, ['sid']] = np.arange(3)
                if k not in (0, 1):
                    raise AssertionError('length mismatch accepted')
            except ValueError:
                pass
        # mask taken from a copy with the same index
        cp = copy.deepcopy(df)
        m2 = cp['height'].notna()
        d3 = df.copy()
        d3.loc[:, 'sid'] = -1
        d3.loc[m2, ['sid']] = 4
        assert list(d3['sid']) == [4 if h == h else -1 for h in df['height']]


@t('str.join', 'warnings.warn', 'numpy.inf')
def _misc(rng):
    assert ' '.join(['a', 'b']) == 'a b' and ' '.join([]) == '' and ' '.join(['x']) == 'x'
    with warnings.catch_warnings(record=True) as wl:
        warnings.simplefilter('always')
        warnings.warn('m', UserWarning)
    assert len(wl) == 1 and wl[0].category is UserWarning
    assert -np.inf < -1e300 and 1e300 < np.inf and not (np.nan < np.inf) and not (-np.inf <= np.nan)


@t('pathlib.Path', 'ruamel.yaml.YAML')
def _files(rng):
    from pathlib import Path
    from ruamel.yaml import YAML
    with tempfile.TemporaryDirectory() as td:
        p = Path(os.path.join(td, 'a.b.yml'))
        assert not p.exists() and p.suffix == '.yml' and isinstance(Path(str(p)), Path)
        p.write_text('A: 1\nB:\n  c: [1, 2]\n  d: 0.5\n')
        assert p.exists() and p.is_file() and not Path(td).is_file()
        y1, y2 = YAML(typ='safe').load(p), YAML(typ='safe').load(p)
        assert y1 == {'A': 1, 'B': {'c': [1, 2], 'd': 0.5}} and y1 is not y2 and y1['B'] is not y2['B'] and type(y1) is dict
        y1['B']['c'].append(3)
        assert y2['B']['c'] == [1, 2]


@t('matplotlib.figure.Figure.savefig(name)')
def _savefig(rng):
    import matplotlib
    matplotlib.use('Agg')
    import matplotlib.pyplot as plt
    with tempfile.TemporaryDirectory() as td:
        fig = plt.figure()
        try:
            name = os.path.join(td, 'p.v2.1') + '.png'
            fig.savefig(name)
            assert sorted(os.listdir(td)) == ['p.v2.1.png']
        finally:
            plt.close(fig)


def run_conformance(seed=0, keys=None):
    """-> dict(tested, failed: [(key, why)], untested: [keys of the catalogue without a test])"""
    from pyvc.lib import LIB_DOC
    rng = random.Random(1000 + seed)
    done, failed = {}, []
    for key, f in TESTS.items():
        if keys is not None and key not in keys:
            continue
        if f in done:
            if done[f] is not None:
                failed.append((key, done[f]))
            continue
        try:
            f(rng)
            done[f] = None
        except Exception as e:  # noqa
            done[f] = f'{type(e).__name__}: {str(e)[:160]}'
            failed.append((key, done[f]))
    cat = set(LIB_DOC)
    return {'tested': sorted(k for k in TESTS if keys is None or k in keys), 'failed': failed,
            'untested': sorted(cat - set(TESTS)), 'stale_tests': sorted(set(TESTS) - cat)}


if __name__ == '__main__':
    import sys
    sys.path.insert(0, '/verif')
    import contracts
    contracts.build_registry()
    r = run_conformance(int(sys.argv[1]) if len(sys.argv) > 1 else 0)
    print(len(r['tested']), 'tested; failed:', r['failed'])
    print('untested:', r['untested'])
    print('stale:', r['stale_tests'])
