"""helpers shared by the bounded stand-ins"""
import copy
import hashlib
import warnings

import numpy as np
import pandas as pd


def digest_chunk(chunk) -> str:
    h = hashlib.sha256()
    for name in ('data', 'slices', 'groups', 'layers'):
        df = getattr(chunk, name)
        if df is None:
            h.update(b'None')
            continue
        cols = sorted(df.columns) if name == 'data' else list(df.columns)     # the column order of the hit table follows the input
        h.update(repr(cols).encode())
        h.update(repr(list(df.index)).encode())
        for c in cols:
            col = df[c]
            if col.dtype.kind == 'f':
                h.update(np.ascontiguousarray(col.to_numpy(dtype=float)).tobytes())
            else:
                h.update(repr(col.tolist()).encode())
    for w in ('slices', 'groups', 'layers'):
        try:
            h.update(chunk.metar_msg(w).encode())
        except Exception as e:
            h.update(type(e).__name__.encode())
    return h.hexdigest()


def frame_state(df) -> tuple:
    return (tuple(df.columns), tuple(map(repr, df.index.tolist())), tuple(str(t) for t in df.dtypes),
            tuple(repr(v) for c in df.columns for v in df[c].tolist()))


def nested_prms(k, seed):
    """per-call parameter dictionaries with nested keys at every depth (and sometimes unknown keys)"""
    import random
    rng = random.Random(seed * 31 + k)
    cands = [
        {'MSA': 10000},
        {'MAX_HITS_OKTA0': 2, 'MAX_HOLES_OKTA8': 0},
        {'SLICING_PRMS': {'distance_threshold': 0.3}},
        {'SLICING_PRMS': {'height_scale_kwargs': {'min_range': 800}}},
        {'GROUPING_PRMS': {'height_pad_perc': 20, 'dt_scale': 120}},
        {'LAYERING_PRMS': {'gmm_kwargs': {'delta_mul_gain': 0.9}}},
        {'LAYERING_PRMS': {'min_okta_to_split': 3, 'gmm_kwargs': {'scores': 'AIC'}}},
        {'MIN_SEP_VALS': [300, 900], 'MIN_SEP_LIMS': [8000]},
        {'LOWESS': {'frac': 0.5}},
        {'BASE_LVL_LOOKBACK_PERC': 50, 'BASE_LVL_HEIGHT_PERC': 10},
        {'MSA': 5000, 'MSA_HIT_BUFFER': 500, 'GROUPING_PRMS': {'height_scale_range': [50, 400]}},
    ]
    p = copy.deepcopy(rng.choice(cands))
    if rng.random() < 0.4:
        p.update(copy.deepcopy(rng.choice(cands)))
    if rng.random() < 0.25:
        p['NOT_A_PARAMETER'] = 1
    if rng.random() < 0.15:
        p.setdefault('SLICING_PRMS', {})['bogus'] = 2
    return p


def run_quiet(df, prms=None):
    import ampycloud
    with warnings.catch_warnings():
        warnings.simplefilter('ignore')
        return ampycloud.run(df, prms=prms)


def shared_mutables(a, b, path=''):
    """paths at which the nested containers a and b share a mutable object (dict / list)"""
    ids = {}

    def walk(x, p):
        if isinstance(x, dict):
            ids.setdefault(id(x), p)
            for k, v in x.items():
                walk(v, f'{p}.{k}')
        elif isinstance(x, list):
            ids.setdefault(id(x), p)
            for i, v in enumerate(x):
                walk(v, f'{p}[{i}]')
    walk(a, 'a')
    out = []

    def walk2(x, p):
        if isinstance(x, (dict, list)):
            if id(x) in ids:
                out.append((ids[id(x)], p))
            for k, v in (x.items() if isinstance(x, dict) else enumerate(x)):
                walk2(v, f'{p}.{k}')
    walk2(b, 'b')
    return out
