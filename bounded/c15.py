"""B stand-in / witness builder for C15: frames built from valid ones by combinations of defects; the checker refuses exactly the
documented conditions and normalises the rest."""
import copy
import itertools
import random
import warnings

import numpy as np
import pandas as pd

from .scenes import scene
from .util import frame_state

DEFECTS = ['drop_column', 'dup_row', 'dup_row_hidden_by_extra_column', 'dup_after_coercion', 'coincident_0_non0', 'coincident_0_non0_other_ceilo',
           'coincident_vv_nonvv', 'vv_next_to_nondetection_other_ceilo', 'wrong_dtypes', 'extra_columns', 'empty', 'not_a_frame',
           # anomalies documented as warnings only: accepted, and handed back as they are
           'type0_with_height', 'negative_height', 'type1_without_height', 'type2_without_type1']
REFUSED = {'drop_column', 'dup_row', 'dup_row_hidden_by_extra_column', 'dup_after_coercion', 'coincident_0_non0', 'coincident_vv_nonvv', 'empty', 'not_a_frame'}


def mutate(df, defect, rng):
    df = df.copy()
    n = len(df)
    i = rng.randrange(n)
    if defect == 'drop_column':
        return df.drop(columns=[rng.choice(['ceilo', 'dt', 'height', 'type'])])
    if defect == 'dup_row':
        return pd.concat([df, df.iloc[[i]]], ignore_index=True)
    if defect == 'dup_row_hidden_by_extra_column':
        d = pd.concat([df, df.iloc[[i]]], ignore_index=True)
        d['msg_id'] = np.arange(len(d))
        return d
    if defect == 'dup_after_coercion':
        d = df.copy()
        d['type'] = d['type'].astype(float)
        row = d.iloc[[i]].copy()
        row['type'] = row['type'] + 0.25          # becomes equal after the cast to int
        return pd.concat([d, row], ignore_index=True)
    if defect in ('coincident_0_non0', 'coincident_0_non0_other_ceilo'):
        hit = df[df['type'] > 0]
        if hit.empty:
            return None
        r = hit.iloc[[0]].copy()
        r['type'] = 0
        r['height'] = np.nan
        if defect.endswith('other_ceilo'):
            r['ceilo'] = 'other_instrument'
        return pd.concat([df, r], ignore_index=True)
    if defect in ('coincident_vv_nonvv', 'vv_next_to_nondetection_other_ceilo'):
        r = df.iloc[[i]].copy()
        if defect == 'coincident_vv_nonvv':
            if int(r['type'].iloc[0]) == -1:
                r['type'] = 1
            else:
                r['type'] = -1
            r['height'] = 321.0
            return pd.concat([df, r], ignore_index=True)
        nd = df[df['type'] == 0]
        if nd.empty:
            return None
        r = nd.iloc[[0]].copy()
        r['type'] = -1
        r['height'] = 250.0
        r['ceilo'] = 'other_instrument'
        return pd.concat([df, r], ignore_index=True)
    if defect in ('type0_with_height', 'negative_height', 'type1_without_height'):
        want = {'type0_with_height': 0, 'negative_height': 1, 'type1_without_height': 1}[defect]
        rows = df.index[df['type'] == want]
        if len(rows) == 0:
            return None
        d = df.copy()
        pick = rng.sample(list(rows), min(len(rows), rng.choice([1, 3])))
        d.loc[pick, 'height'] = {'type0_with_height': rng.choice([0.0, 1400.0]), 'negative_height': -10.0, 'type1_without_height': np.nan}[defect]
        return d
    if defect == 'type2_without_type1':
        hit = df[df['type'] == 1]
        if len(hit) == 0:
            return None
        r = hit.iloc[[0]].copy()
        r['dt'] = float(df['dt'].min()) - 7.5
        r['type'] = 2
        return pd.concat([df, r], ignore_index=True)
    if defect == 'wrong_dtypes':
        d = df.copy()
        d['ceilo'] = d['ceilo'].astype(object)
        d['type'] = d['type'].astype(float)
        if (d['dt'] == d['dt'].round()).all():
            d['dt'] = d['dt'].astype(int)
        return d
    if defect == 'extra_columns':
        d = df.copy()
        d['a'] = 1
        d['b'] = 'x'
        return d
    if defect == 'empty':
        return df.iloc[0:0]
    if defect == 'not_a_frame':
        return df.to_numpy()
    raise ValueError(defect)


def check(k, seed):
    from ampycloud.utils.utils import check_data_consistency
    from ampycloud.errors import AmpycloudError, AmpycloudWarning
    from ampycloud import hardcoded
    rng = random.Random(seed * 43 + k)
    df, desc = scene(k, seed)
    combo = [rng.choice(DEFECTS)] if k % 3 else []
    if k % 5 == 0:
        combo.append(rng.choice(['extra_columns', 'wrong_dtypes']))
    fails = []
    cur = df
    # a dropped column is applied last: the other defects are built from the four required columns
    combo = [d for d in combo if d != 'drop_column'] + [d for d in combo if d == 'drop_column']
    for d in combo:
        if isinstance(cur, pd.DataFrame) and len(cur):
            nxt = mutate(cur, d, rng)
            if nxt is None:
                combo = [x for x in combo if x != d]
            else:
                cur = nxt
    # the index is the caller's business: labels of any kind, repeated labels, a level named like a column (column promoted and kept)
    style = ['plain', 'plain', 'dt_promoted', 'named', 'keyed'][k % 5]
    if isinstance(cur, pd.DataFrame) and len(cur):
        if style == 'dt_promoted' and 'dt' in cur.columns:
            cur = cur.set_index('dt', drop=False)
        elif style == 'named':
            cur = cur.copy()
            cur.index = [i // 2 for i in range(len(cur))]
            cur.index.name = rng.choice(['ceilo', 'dt', 'type', 'row'])
        elif style == 'keyed' and 'ceilo' in cur.columns:
            cur = cur.set_index(['ceilo', cur.index], drop=False) if False else cur.set_index(pd.MultiIndex.from_arrays(
                [cur['ceilo'].astype(str), range(len(cur))], names=['ceilo', None]))
    should_refuse = bool(set(combo) & REFUSED)
    before = frame_state(cur) if isinstance(cur, pd.DataFrame) else None
    arg = cur
    try:
        with warnings.catch_warnings(record=True) as wl:
            warnings.simplefilter('always')
            out = check_data_consistency(arg)
        refused = False
    except AmpycloudError:
        refused = True
    except Exception as e:
        fails.append(f'{combo}: {type(e).__name__} instead of AmpycloudError: {str(e)[:80]}')
        return desc, {'defects': combo}, fails, None
    if isinstance(arg, pd.DataFrame) and frame_state(arg) != before:
        fails.append(f'{combo}: the argument was modified')
    if refused != should_refuse:
        fails.append(f'{combo}: refused={refused} but the documented conditions say {should_refuse}')
    if not refused:
        req = hardcoded.REQ_DATA_COLS
        if sorted(out.columns) != sorted(req) or any(out[c].dtype != t for c, t in req.items()):
            fails.append(f'{combo}: result columns / dtypes {dict(out.dtypes)}')
        if out is arg:
            fails.append('result is the argument itself')
        if out.duplicated().any():
            fails.append(f'{combo}: accepted frame contains duplicated rows')
        if len(out) != len(arg):
            fails.append(f'{combo}: row count changed')
        else:
            for c in req:
                a, b = arg[c].tolist(), out[c].tolist()
                if not all((x == y) or (x != x and y != y) or str(x) == str(y) or float(x) == float(y) for x, y in zip(a, b)):
                    fails.append(f'{combo}: values of {c} changed')
        try:
            with warnings.catch_warnings(record=True) as wl2:
                warnings.simplefilter('always')
                again = check_data_consistency(out)
        except Exception as e:
            fails.append(f'{combo}: checking an already-checked frame raises {type(e).__name__}: {str(e)[:80]}')
            return desc, {'defects': combo}, fails, None
        if frame_state(again) != frame_state(out):
            fails.append(f'{combo}: checking an already-checked frame changed it')
        bad = [str(w.message) for w in wl2 if ('Column' in str(w.message))]
        if bad:
            fails.append(f'{combo}: checking an already-checked frame warns about columns / dtypes: {bad[:1]}')
    return desc, {'defects': combo, 'index': style}, fails, None


def _worker(a):
    try:
        return check(*a)
    except Exception as e:
        return {'k': a[0]}, {}, [f'harness crash {type(e).__name__}: {str(e)[:100]}'], None


def bounded(run):
    from pyvc.runner import _pool_map
    n = 150 if run.tier == 'quick' else 3000
    tasks = [(k, run.seed) for k in range(n)]
    res = _pool_map(_worker, tasks)
    failures, shapes = [], set()
    for (k, _), (desc, prms, fails, crash) in zip(tasks, res):
        shapes.add(repr(prms.get('defects')))
        for f in fails[:2]:
            failures.append({'obligation': 'bounded.C15.screening', 'scene': desc, 'prms': prms, 'what': f,
                             'rerun': f'cd /verif && PYTHONPATH=${{PYVC_REPO_SRC:-/repo/src}}:/verif .venv312/bin/python -m bounded.c15 {k} {run.seed}'})
    return {'label': 'B (bounded, never counted as proved)', 'bound': f'{n} scenes x combinations of the 12 defect kinds, seed {run.seed}',
            'frames': n, 'distinct_defect_combinations': len(shapes), 'failures': failures[:5], 'n_failures': len(failures)}


if __name__ == '__main__':
    import sys
    desc, prms, fails, crash = _worker((int(sys.argv[1]), int(sys.argv[2])))
    print(desc, prms)
    for f in fails:
        print('FAIL', f)
    sys.exit(1 if fails else 0)
