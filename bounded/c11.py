"""B stand-in / witness builder for C11: caller frame, caller prms and the global parameters before / after; snapshot privacy."""
import copy
import warnings

from .scenes import scene
from .util import frame_state, nested_prms, run_quiet, shared_mutables


def check(k, seed):
    import ampycloud
    from ampycloud import dynamic
    ampycloud.reset_prms()
    df, desc = scene(k, seed)
    prms = nested_prms(k, seed) if k % 3 else None
    fails = []
    df0, prms0, glob0 = frame_state(df), copy.deepcopy(prms), copy.deepcopy(dynamic.AMPYCLOUD_PRMS)
    try:
        chunk = run_quiet(df, prms)
    except Exception as e:
        return desc, prms, [], type(e).__name__
    if frame_state(df) != df0:
        fails.append('caller DataFrame changed by run()')
    if prms != prms0:
        fails.append('caller parameter dictionary changed by run()')
    if dynamic.AMPYCLOUD_PRMS != glob0:
        fails.append('global parameters changed by run()')
    sh = shared_mutables(dynamic.AMPYCLOUD_PRMS, chunk.prms)
    if sh:
        fails.append(f'chunk.prms shares mutable objects with the global parameters: {sh[:3]}')
    snap = copy.deepcopy(chunk.prms)
    # later edits of the global do not reach the chunk
    dynamic.AMPYCLOUD_PRMS['SLICING_PRMS']['height_scale_kwargs']['min_range'] = 12345
    dynamic.AMPYCLOUD_PRMS['LAYERING_PRMS']['gmm_kwargs']['delta_mul_gain'] = 0.123
    dynamic.AMPYCLOUD_PRMS['MIN_SEP_VALS'].append(777)
    dynamic.AMPYCLOUD_PRMS['LOWESS']['frac'] = 0.99
    if chunk.prms != snap:
        fails.append('editing the global parameters changed an existing chunk snapshot')
    ampycloud.reset_prms()
    # edits of the snapshot never leak
    chunk.prms['GROUPING_PRMS']['height_scale_range'].append(1)
    chunk.prms['LAYERING_PRMS']['gmm_kwargs']['scores'] = 'XXX'
    chunk.prms['LOWESS']['it'] = 99
    if dynamic.AMPYCLOUD_PRMS != glob0:
        fails.append('editing a chunk snapshot leaked into the global parameters')
    with warnings.catch_warnings():
        warnings.simplefilter('ignore')
        c2 = ampycloud.data.CeiloChunk(df, prms=copy.deepcopy(prms0))
    exp = copy.deepcopy(glob0)
    if prms0:
        with warnings.catch_warnings():
            warnings.simplefilter('ignore')
            from ampycloud.utils.utils import adjust_nested_dict
            exp = adjust_nested_dict(exp, copy.deepcopy(prms0))
    if c2.prms != exp:
        fails.append('a chunk built afterwards does not carry defaults + per-call values')
    ampycloud.reset_prms()
    return desc, prms0, fails, None


def _worker(a):
    return check(*a)


def bounded(run):
    from pyvc.runner import _pool_map
    n = 40 if run.tier == 'quick' else 600
    tasks = [(k, run.seed) for k in range(n)]
    res = _pool_map(_worker, tasks)
    failures, shapes, crashed = [], set(), 0
    for (k, _), (desc, prms, fails, crash) in zip(tasks, res):
        if crash:
            crashed += 1
            continue
        shapes.add((desc['layout'], repr(sorted((prms or {}).keys()))))
        for f in fails[:3]:
            failures.append({'obligation': 'bounded.C11.unchanged', 'scene': desc, 'prms': prms, 'what': f,
                             'rerun': f'cd /verif && PYTHONPATH=${{PYVC_REPO_SRC:-/repo/src}}:/verif .venv312/bin/python -m bounded.c11 {k} {run.seed}'})
    return {'label': 'B (bounded, never counted as proved)', 'bound': f'{n} scenes x nested per-call dictionaries, seed {run.seed}',
            'scenes': n, 'distinct_cases': len(shapes), 'scenes_crashing_in_pipeline (see C08)': crashed,
            'clause': 'frame / dict / global compared before-after; object-identity walk between chunk.prms and the global; in-place edits both ways',
            'failures': failures[:5], 'n_failures': len(failures)}


if __name__ == '__main__':
    import sys
    desc, prms, fails, crash = check(int(sys.argv[1]), int(sys.argv[2]))
    print(desc, prms, crash)
    for f in fails:
        print('FAIL', f)
    sys.exit(1 if fails else 0)
