import warnings, numpy as np, pandas as pd
warnings.simplefilter('ignore')
import ampycloud
rng=np.random.default_rng(0)
rows=[]
for k in range(60):                       # compact-in-time bimodal bottom group
    rows.append(('A', -0.001*k, (500 if k%2==0 else 900)+rng.normal(0,4), 1))
hs=list(np.arange(3000,10000,300))+list(np.arange(10500,99000,1100))
for j,h in enumerate(hs):                 # isolated single-hit slices, 10 s apart
    rows.append(('A', -10.0*(j+1), float(h), 1))
fr=pd.DataFrame(rows,columns=['ceilo','dt','height','type'])
ch=ampycloud.run(fr, prms={'SLICING_PRMS':{'dt_scale':1}})
print('n_slices',ch.n_slices,'n_groups',ch.n_groups,'n_layers',ch.n_layers,'ncomp>1:',ch.groups[ch.groups.ncomp>1][['code','cluster_id','ncomp']].values.tolist())
d=ch.data[ch.data.layer_id>=0]
span=d.groupby('layer_id')['group_id'].nunique(); print('layers spanning >1 group:',span[span>1].to_dict())
print('expected n_layers = sum(max(ncomp,1)) =', int(ch.groups.ncomp.clip(lower=1).sum()))

