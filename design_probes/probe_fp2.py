from z3 import *
import time
# standard-model lemma: v double, v < 100k (k int in 1..100, 100k exactly representable and not a power of two)
#   (A2) v <= 100k*(1-u)   (A1) q=fl(v/100) satisfies |q - v/100| <= u*|v/100|   with u=2^-53   ==> q < k  ==> floor(q) <= k-1
u = Q(1, 2**53)
v,q,k = Reals('v q k')
s=Solver(); s.add(k>=1, v>=0, v <= 100*k*(1-u), q - v/100 <= u*(v/100), q - v/100 >= -u*(v/100), q>=k)
t=time.time(); print('b1', s.check(), time.time()-t)
s=Solver(); s.add(k>=1, v>=0, v <= 1000*k*(1-u), q - v/1000 <= u*(v/1000), q>=k)
t=time.time(); print('b2', s.check(), time.time()-t)
