import warnings, numpy as np, pandas as pd
warnings.simplefilter('ignore')
import ampycloud
from ampycloud.data import CeiloChunk
from ampycloud.errors import AmpycloudError
rng = np.random.default_rng(3)

# --- C14 with merge: two flat layers 200 ft apart, each half sky, interleaved times
n=120
dt = np.linspace(-1190,0,n)
h = np.where(np.arange(n)%2==0, 2500., 2700.) + rng.normal(0,5,n)
fr = pd.DataFrame({'ceilo':['A']*n,'dt':dt,'height':h,'type':[1]*n})
ch = ampycloud.run(fr)
print('msg', ch.metar_msg(), 'slices', ch.n_slices, 'groups', ch.n_groups, 'layers', ch.n_layers)
print(ch.slices[['n_hits','okta','height_base','code','cluster_id']])
print(ch.groups[['n_hits','okta','height_base','code','cluster_id','ncomp']])
g_before = ch.data['group_id'].copy(); msg_before=ch.metar_msg()
try:
    ch.find_groups(); print('no raise')
except AmpycloudError as e: print('AmpycloudError')
print('group_id unchanged?', g_before.equals(ch.data['group_id']), ch.n_groups, len(ch.groups))
try:
    ch.find_layers(); print('then find_layers ->', ch.metar_msg(), 'was', msg_before)
except Exception as e: print(type(e).__name__, e)
