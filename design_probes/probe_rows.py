from z3 import *
import time
# rows p in [0,n): label L[p], height H[p] (real or NaN flag), type T[p]
n=Int('n'); L=Array('L',IntSort(),IntSort()); H=Array('H',IntSort(),RealSort()); NAN=Array('NAN',IntSort(),BoolSort()); T=Array('T',IntSort(),IntSort())
lim=Real('lim'); p,q=Ints('p q')
inr=lambda x: And(0<=x,x<n)
above=lambda x: And(Not(NAN[x]), H[x]>lim)           # NaN > lim is False
A=lambda x: And(above(x), T[x]<=1)                    # mask 1
# library contract of  data.loc[labels_of(A), col] = v : every row whose label is in labels_of(A) is written
inA=lambda x: Exists(q, And(inr(q), A(q), L[q]==L[x]))
# after the two .loc writes:
T1=lambda x: If(inA(x), 0, T[x]); NAN1=lambda x: Or(inA(x), NAN[x]); H1=lambda x: H[x]
above1=lambda x: And(Not(NAN1(x)), H1(x)>lim)
B=lambda x: And(above1(x), T1(x)>1)                   # mask 2 evaluated on the *updated* frame
inB=lambda x: Exists(q, And(inr(q), B(q), L[q]==L[x]))
kept=lambda x: Not(inB(x))
# postcondition (from C07): every row at or below the limit (or NaN) is kept unchanged; rows above: t<=1 -> (0,NaN), t>1 -> dropped
post=lambda x: And(Implies(Not(above(x)), And(kept(x), T1(x)==T[x], NAN1(x)==NAN[x])),
                   Implies(A(x), And(kept(x), T1(x)==0, NAN1(x))),
                   Implies(And(above(x),T[x]>1), Not(kept(x))))
uniq=ForAll([p,q], Implies(And(inr(p),inr(q),p!=q), L[p]!=L[q]))
x=Int('x')
for name,pre in (('unique labels',uniq),('no precondition',BoolVal(True))):
    s=Solver(); s.set('timeout',20000); s.add(n>0, inr(x), pre, Not(post(x)))
    t=time.time(); r=s.check(); print(name, r, round(time.time()-t,2))
    if r==sat:
        m=s.model(); nn=m[n].as_long()
        print('  n=',nn,'x=',m[x],'lim=',m[lim],[ (m.eval(L[i]),m.eval(H[i]),m.eval(NAN[i]),m.eval(T[i])) for i in range(min(nn,4))])
