import sys; sys.path.insert(0,'/repo/src')
import importlib.util, logging
# import the real icao module without the package __init__ (which pulls pandas)
import types
pkg = types.ModuleType('ampycloud'); pkg.__path__=['/repo/src/ampycloud']; sys.modules['ampycloud']=pkg
from ampycloud import icao
_real = icao.significant_cloud.__wrapped__
def significant_cloud(oktas: list[int]) -> list[bool]:
    """
    pre: all(0 <= o <= 8 for o in oktas)
    post: len(__return__) == len(oktas)
    post: all((__return__[j]) == ((__return__[:j].count(True) < 3) and oktas[j] >= 1 + 2*__return__[:j].count(True)) for j in range(len(oktas)))
    """
    return _real(oktas)
