import warnings, numpy as np, pandas as pd, itertools, sys
warnings.simplefilter('ignore')
import ampycloud
from ampycloud.errors import AmpycloudError

def minsep(h, prms): 
    return prms['MIN_SEP_VALS'][int(np.searchsorted(prms['MIN_SEP_LIMS'], h))]

def check_layers_sep(ch):
    """C06 clause 2: layers split from one group (ncomp == number of layers of that group) must be >= group's min sep apart"""
    bad=[]
    for gi in range(len(ch.groups)):
        g=ch.groups.iloc[gi]
        if g['ncomp']<2: continue
        lids=np.unique(ch.data.loc[ch.data.group_id==g['cluster_id'],'layer_id'])
        bases=sorted(ch.layers.set_index('cluster_id').loc[lids,'height_base'])
        ms=minsep(g['height_base'], ch.prms)
        for a,b in zip(bases,bases[1:]):
            if b-a < ms: bad.append((g['code'], round(a,1), round(b,1), ms))
    return bad

# D5: look-back < 100 and rows not time-ascending. Two sub-layers that approach each other with time.
found=0
for seed in range(40):
    rng=np.random.default_rng(seed)
    n=160; dt=np.linspace(-1590,0,n)
    sep_old, sep_new = rng.uniform(300,700), rng.uniform(150,320)
    frac=(dt+1590)/1590
    low = 3000 + rng.normal(0,12,n)
    high= 3000 + sep_old + (sep_new-sep_old)*frac + rng.normal(0,12,n)
    h=np.where(np.arange(n)%2==0, low, high)
    fr=pd.DataFrame({'ceilo':['A']*n,'dt':dt,'height':h,'type':[1]*n})
    for order in ('asc','desc','shuf'):
        f2 = fr if order=='asc' else (fr.iloc[::-1] if order=='desc' else fr.sample(frac=1,random_state=seed)).reset_index(drop=True)
        for lb in (100,50,30):
            ch=ampycloud.run(f2, prms={'BASE_LVL_LOOKBACK_PERC':lb})
            bad=check_layers_sep(ch)
            if bad:
                found+=1
                if found<=6: print('D5 witness seed',seed,'order',order,'lb',lb,'msg',ch.metar_msg(),'bad',bad)
print('D5 witnesses found:',found)
