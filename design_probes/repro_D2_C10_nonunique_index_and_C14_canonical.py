import warnings, numpy as np, pandas as pd
warnings.simplefilter('ignore')
import ampycloud
from ampycloud import dynamic
from ampycloud.data import CeiloChunk
from ampycloud.utils import mocker
from ampycloud.errors import AmpycloudError

# --- C14: find_groups after find_layers
d = mocker.canonical_demo_data()
ch = ampycloud.run(d)
print('canonical', ch.metar_msg(), ch.n_slices, ch.n_groups, ch.n_layers)
g_before = ch.data['group_id'].copy()
try:
    ch.find_groups()
    print('find_groups after layers: no raise')
except AmpycloudError as e:
    print('AmpycloudError:', str(e)[:60])
print('group_id unchanged after refused call?', g_before.equals(ch.data['group_id']), 'n_groups', ch.n_groups, 'len(groups)', len(ch.groups))
try:
    ch.find_layers(); print('after find_layers again:', ch.metar_msg())
except Exception as e: print('find_layers again ->', type(e).__name__, e)

# --- C10: non-unique index
rng = np.random.default_rng(1)
def mk(ceilo, n=60, h=4300):
    return pd.DataFrame({'ceilo':[ceilo]*n, 'dt':np.linspace(-900,-15,n), 'height':h+rng.normal(0,30,n), 'type':[1]*n})
a, b = mk('A'), mk('B')
b.loc[::2,'height'] = np.nan; b.loc[::2,'type']=0
cat = pd.concat([a,b])
plain = cat.reset_index(drop=True)
for nm, fr in (('plain', plain), ('concat', cat)):
    for msa in (None, 10000, 3000):
        try:
            c = ampycloud.run(fr, prms={'MSA': msa}); print(nm, msa, c.metar_msg())
        except Exception as e: print(nm, msa, '->', type(e).__name__, str(e)[:80])
