import warnings, numpy as np, pandas as pd, traceback
warnings.simplefilter('ignore')
import ampycloud
rng=np.random.default_rng(0)
n=60
dt=np.linspace(-59,0,n); h=np.linspace(2000,2150,n); rng.shuffle(h)
rows=[('A',t,x,1) for t,x in zip(dt,h)]
rows+=[('A',-900.,2002.,1),('A',-600.,2005.,1)]
fr=pd.DataFrame(rows,columns=['ceilo','dt','height','type'])
for dts in (100000, 1000):
    try:
        ch=ampycloud.run(fr, prms={'SLICING_PRMS':{'dt_scale':dts}})
        print('dt_scale',dts,'->',ch.metar_msg(),'slices',ch.n_slices, ch.slices[['n_hits','height_base','height_min','height_max','isolated']].round(1).values.tolist())
    except Exception as e:
        tb=traceback.extract_tb(e.__traceback__); site=[(f.name,f.lineno) for f in tb if '/ampycloud/' in f.filename][-3:]
        print('dt_scale',dts,'->',type(e).__name__, str(e)[:120], site)

