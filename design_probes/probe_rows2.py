from z3 import *
import time
n=Int('n'); L=Array('L',IntSort(),IntSort()); H=Array('H',IntSort(),RealSort()); NAN=Array('NAN',IntSort(),BoolSort()); T=Array('T',IntSort(),IntSort())
lim=Real('lim'); p,q=Ints('p q'); x=Int('x')
inr=lambda v: And(0<=v,v<n)
uniq=ForAll([p,q], Implies(And(inr(p),inr(q),p!=q), L[p]!=L[q]))
M=Function('M',IntSort(),BoolSort())   # an arbitrary row mask
# rewriting lemma (proved once, for an arbitrary mask): under uniqueness, label-membership == positional mask
s=Solver(); s.add(uniq, inr(x), M(x) != Exists(q, And(inr(q), M(q), L[q]==L[x])))
t=time.time(); print('lemma loc-by-label == positional under uniqueness:', s.check(), round(time.time()-t,3))
# with the lemma, the cropping VC is quantifier-free
above=lambda v: And(Not(NAN[v]), H[v]>lim); A=lambda v: And(above(v), T[v]<=1)
T1=lambda v: If(A(v),0,T[v]); NAN1=lambda v: Or(A(v),NAN[v]); above1=lambda v: And(Not(NAN1(v)),H[v]>lim)
B=lambda v: And(above1(v),T1(v)>1); kept=lambda v: Not(B(v))
post=And(Implies(Not(above(x)), And(kept(x),T1(x)==T[x],NAN1(x)==NAN[x])), Implies(A(x),And(kept(x),T1(x)==0,NAN1(x))), Implies(And(above(x),T[x]>1),Not(kept(x))))
s=Solver(); s.add(inr(x), Not(post)); t=time.time(); print('positional VC:', s.check(), round(time.time()-t,3))
