# feasibility probe: invariant-based proof of icao.significant_cloud's loop, sig modelled as (Array Int Bool, len)
import time
from z3 import *
t0=time.time()
A = ArraySort(IntSort(), BoolSort())
cnt = Function('cnt', A, IntSort(), IntSort())       # cnt(a,n) = number of True in a[0..n)
a=Const('a',A); n=Int('n'); k=Int('k'); v=Bool('v')
def cnt_def(arr, m):   # unfolding of the recursive definition at m (instantiated by hand = "reveal")
    return And(cnt(arr,0)==0, Implies(m>=0, cnt(arr,m+1)==cnt(arr,m)+If(arr[m],1,0)))
# --- Lemma F (frame): forall k<=n: cnt(store(a,n,v),k)==cnt(a,k)   by induction on k
s=Solver(); a2=Store(a,n,v)
# step: k<n, IH at k => holds at k+1
s.add(k>=0,k<n, cnt(a2,k)==cnt(a,k), cnt_def(a2,k), cnt_def(a,k), cnt(a2,k+1)!=cnt(a,k+1))
print('frame step', s.check())
s=Solver(); s.add(cnt_def(a2,0),cnt_def(a,0), cnt(a2,0)!=cnt(a,0)); print('frame base', s.check())
# --- loop body preservation
okta = Array('okta', IntSort(), IntSort()); N=Int('N')
sig=Const('sig',A); i=Int('i'); lvl=Int('lvl')
def spec(sigarr, j):  # flag j <=> fewer than 3 flagged below and okta >= 1+2*count
    return sigarr[j] == And(cnt(sigarr,j)<3, okta[j]>=1+2*cnt(sigarr,j))
j=Int('j')
Inv = lambda sigarr, ii, ll: And(0<=ii, ii<=N, ll==2*cnt(sigarr,ii), ForAll(j, Implies(And(0<=j,j<ii), spec(sigarr,j))))
cond = And(okta[i] > lvl, cnt(sig,i) < 3)
sig_t = Store(sig,i,True); sig_f=Store(sig,i,False)
frame = lambda arr2: ForAll(k, Implies(And(0<=k,k<=i), cnt(arr2,k)==cnt(sig,k)))   # proven lemma F, used as assumption
for name,(br,sig2,lvl2) in {'then':(cond,sig_t,lvl+2),'else':(Not(cond),sig_f,lvl)}.items():
    s=Solver(); s.set('timeout',20000)
    s.add(Inv(sig,i,lvl), i<N, br, frame(sig2), cnt_def(sig2,i))
    s.add(Not(Inv(sig2,i+1,lvl2)))
    print('preserve',name,s.check())
print('t',time.time()-t0)
