import time, sys
from z3 import *
F=Float64(); rne=RNE()
v=FP('v',F)
def run(name, fml, to=120000):
    s=Solver(); s.set('timeout',to); s.add(fml); t=time.time(); r=s.check(); print(name, r, round(time.time()-t,1),'s', flush=True)
    if r==sat: print('  model v=', s.model()[v])
lo=FPVal(0.0,F); 
# branch 1: 0<=v<=10000: out=floor(v/100); claim out*100 <= v  (exact in reals)
out1=fpRoundToIntegral(RTN(), fpDiv(rne, v, FPVal(100.0,F)))
claim1 = fpToReal(out1)*100 <= fpToReal(v)
run('b1 real-compare', And(fpGEQ(v,lo), fpLEQ(v,FPVal(10000.0,F)), Not(claim1)))
