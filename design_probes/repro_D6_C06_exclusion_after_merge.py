import warnings, numpy as np, pandas as pd
warnings.simplefilter('ignore')
import ampycloud
def minsep(h, prms): return prms['MIN_SEP_VALS'][int(np.searchsorted(prms['MIN_SEP_LIMS'], h))]
def check_groups_sep(ch):
    b=ch.groups['height_base'].to_list(); bad=[]
    for lo,hi in zip(b,b[1:]):
        if hi-lo < minsep(hi, ch.prms): bad.append((round(lo,1),round(hi,1),minsep(hi,ch.prms)))
    return bad
rng=np.random.default_rng(0)
n=60; dt=np.linspace(-1190,0,n)
rows=[]
for i,t in enumerate(dt):
    rows.append(('B', t, 1000+rng.normal(0,3), 1))          # excluded ceilometer reads a layer at 1000
    rows.append(('A', t+1, (1200 if i%2==0 else 1440)+rng.normal(0,3), 1))
fr=pd.DataFrame(rows,columns=['ceilo','dt','height','type'])
for excl in ([],['B']):
    for thr in (0.2,0.05):
        ch=ampycloud.run(fr, prms={'EXCLUDE_FOR_BASE_HEIGHT_CALC':excl,'SLICING_PRMS':{'distance_threshold':thr}})
        print('excl',excl,'thr',thr,'slices',ch.n_slices,'groups',ch.n_groups,'group bases',[round(x,1) for x in ch.groups.height_base],'msg(groups)',ch.metar_msg('groups'),'BAD' if check_groups_sep(ch) else 'ok',check_groups_sep(ch))
