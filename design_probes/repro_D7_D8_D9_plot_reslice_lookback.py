import warnings, numpy as np, pandas as pd, matplotlib
matplotlib.use('Agg')
warnings.simplefilter('ignore')
import ampycloud
from ampycloud.utils import mocker, utils
from ampycloud.errors import AmpycloudError
from ampycloud.plots import diagnostic

# (a) repeated find_slices after full run: does slices.isolated survive?
d = mocker.canonical_demo_data(); ch = ampycloud.run(d)
iso0 = ch.slices['isolated'].to_list(); ch.find_slices(); print('isolated before/after re-slicing', iso0, ch.slices['isolated'].to_list())
# (b) look-back that rounds to zero elements
print('calc_base_height([1,2,3], lb=30, hp=0)=', utils.calc_base_height(np.array([1.,2.,3.]),30,0), ' lb=34 ->', utils.calc_base_height(np.array([1.,2.,3.]),34,0))
# (c) plotting: more ceilometers than colours
n=14
fr = pd.DataFrame({'ceilo':[f'c{i:02d}' for i in range(n)], 'dt':-np.arange(n)*10., 'height':1000.+np.arange(n), 'type':[1]*n})
ch = ampycloud.run(fr)
import matplotlib.pyplot as plt
for upto in ('raw_data','layers'):
    try:
        diagnostic(ch, upto=upto, show_ceilos=True, show=False); print('plot', upto,'ok', plt.get_fignums())
    except Exception as e: print('plot', upto, '->', type(e).__name__, e, 'open figs', plt.get_fignums())
plt.close('all')
